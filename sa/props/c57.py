"""C57 - Log observers receive every event; filters honour namespace hierarchy."""
from __future__ import annotations

from sa.selftest import Mutant, Silent
from sa.props._lib_k import no_crash
from sa.source import AnalysisError
from sa.props._lib_k import Interp, Nonterminating, freeze

PROPERTY = "C57"
OBS = "logger/_observer.py"
FIL = "logger/_filter.py"
BUF = "logger/_buffer.py"
TECHNIQUE = "CFG dominance, must-precede, who-may-write on normalised code; interpreted histories as second layer"
EXPLANATION = (
    "Structural, on a normalised view (private helpers inlined at call sites, pure temporaries substituted): LogPublisher.__call__ walks "
    "self._observers front to back; the observer call-out is made exactly once per iteration with the event, inside a try whose handler "
    "stops Exception without re-raising and records (observer, Failure()); the loop cannot be left early; every failure report lies "
    "outside the fan-out loop and is dominated by it (must-precede), is built for the broken observer of its record and carries the "
    "recorded Failure, once per record; the error publisher is made of every registered observer that `is not` the broken one, in order "
    "(comprehension or guarded-append form, guard polarity checked); _observers is never modified by an order-destroying operation in any "
    "method and only appended to under a not-in guard. shouldLogEvent: predicates asked once each in the given order, `return True/False` "
    "inside the loop only under == yes / == no, continue only under maybe, default True; FilteringLogObserver routes to the wrapped "
    "observer exactly under shouldLogEvent and to the negative observer otherwise, every event routed. LogLevelFilterPredicate: levels "
    "are stored under the given namespace (or '') with the given level; every method that writes the level table also discards any "
    "derived attribute the lookup fills (cache coherence); the event level and threshold are used only in comparisons. "
    "LimitedHistoryLogObserver: the buffer is deque(maxlen=size) (constructor provenance through locals), only appended to with the "
    "event on every call, never shortened / reordered by any method, replay walks it forward calling the other observer once per event. "
    "Finite-exhaustive: __call__ == `no` exactly when eventLevel < threshold, over all orderings of the two levels (complete because the "
    "levels are only compared). Bounded second layer (interpreted): publisher histories of <= 4 add/remove operations with two healthy "
    "and two raising observers against a recursive delivery specification; filter set/clear/query histories of length <= 5 against the "
    "most-specific-prefix oracle; all verdict sequences of length <= 3; history sizes x 6 events x 2 replays. Clause 'most specific "
    "configured prefix wins': bounded evidence only (namespace depth <= 4) - the index arithmetic of the prefix search has no "
    "shape-independent structural formulation. Not decided: observer lists mutated during dispatch."
)
RULE_KINDS = {
    # structural: CFG dominance / must-precede, def-use, who-may-write on the normalised view (private helpers inlined)
    "publisher/forward-iteration": "structural", "publisher/delivers-the-event": "structural", "publisher/observer-failure-contained": "structural",
    "publisher/one-delivery-per-observer": "structural", "publisher/loop-runs-to-completion": "structural", "publisher/failure-recorded": "structural",
    "publisher/failures-reported-after-loop": "structural", "publisher/failure-reported": "structural", "publisher/report-excludes-broken-observer": "structural",
    "publisher/registration-order-preserved": "structural", "publisher/single-registration": "structural",
    "filter/predicate-verdicts": "structural", "filter/forwards-iff-should-log": "structural", "filter/level-decision-domain": "structural",
    "filter/derived-state-invalidated": "structural", "filter/table-written-under-namespace": "structural",
    "history/bounded-by-size": "structural", "history/appends-at-the-end": "structural", "history/replays-forward": "structural", "history/replays-each-once": "structural",
    # finite-exhaustive: the decision uses the two levels only in comparisons (filter/level-decision-domain), all orderings are enumerated
    "filter/level-decision": "finite-exhaustive",
    # bounded: source interpreted on enumerated histories
    "publisher/delivery": "bounded", "publisher/failure-reports": "bounded", "publisher/registration": "bounded", "publisher/trace": "bounded",
    "filter/most-specific-prefix": "bounded", "filter/verdict-sequences": "bounded", "filter/routing-sequences": "bounded", "history/last-n-in-order": "bounded",
}
ASSUMPTIONS = [
    "observers are called synchronously; BaseException (KeyboardInterrupt, SystemExit) deliberately propagates",
    "LogLevel constants are ordered by severity (NamedConstant ordering)",
]
QO = "twisted.logger._observer.LogPublisher."
QF = "twisted.logger._filter."
QB = "twisted.logger._buffer.LimitedHistoryLogObserver."


# ---- models of the collaborators (python objects driven by the interpreted code) -----------------------------------------
class _Boom(Exception):
    """Raised by the failing observers: caught by `except Exception` / BaseException only."""


class _Rec:
    """A log observer model: records (its name, the event object) in a shared journal, optionally raises."""

    def __init__(self, name, journal, raises=False):
        self.name, self.journal, self.raises = name, journal, raises

    def __call__(self, event):
        self.journal.append((self, event))
        if self.raises:
            raise _Boom(self.name)

    def __repr__(self):
        return f"<{self.name}>"


class _FailureModel:
    def __init__(self):
        import sys
        self.value = sys.exc_info()[1]


class _LoggerModel:
    """twisted.logger.Logger as far as LogPublisher uses it: failure(format, failure, **kw) emits one event to its observer."""

    def __init__(self, namespace=None, source=None, observer=None):
        self.observer = observer

    def failure(self, format, failure=None, level=None, **kwargs):
        event = dict(kwargs)
        event.update(log_format=format, log_failure=failure, log_level="critical")
        self.observer(event)

    def __repr__(self):
        return "<Logger>"


def _publisher_interp(ctx):
    mod = ctx.mod(OBS)
    it = Interp({}, budget=4000000)
    it.load(mod)
    it.globals.update({"Failure": _FailureModel, "Logger": _LoggerModel, "implementer": lambda *a: (lambda x: x)})
    ctx.need("LogPublisher" in it.globals, "class LogPublisher")
    for meth in ("__call__", "addObserver", "removeObserver"):
        ctx.func(OBS, f"LogPublisher.{meth}")
    return it


def check_publisher(ctx):
    """LogPublisher interpreted over every history (<= 4 operations) of addObserver / removeObserver, with an event
    published in every reached state; the journal of deliveries is compared with the specification."""
    import copy
    it = _publisher_interp(ctx)
    q = "twisted.logger._observer.LogPublisher"
    disabled = it.globals.get("OBSERVER_DISABLED")
    journal = []
    obs = {"A": _Rec("A", journal), "B": _Rec("B!", journal, True), "C": _Rec("C", journal), "D": _Rec("D!", journal, True)}

    def spec(listed, tag, out):
        """every observer once, in order, the broken ones reported afterwards to all the others"""
        broken = []
        for o in listed:
            out.append((o.name, tag))
            if o.raises:
                broken.append(o)
        for b in broken:
            spec([x for x in listed if x is not b], ("failure of", b.name), out)

    def observed(root_event):
        out = []
        for o, ev in journal:
            if ev is root_event:
                out.append((o.name, "event"))
            else:
                f = ev.get("log_failure") if isinstance(ev, dict) else None
                about = ev.get("observer") if isinstance(ev, dict) else None
                ok = isinstance(f, _FailureModel) and isinstance(f.value, _Boom) and isinstance(about, _Rec) and f.value.args == (about.name,) \
                    and ev.get("log_format") == disabled
                out.append((o.name, ("failure of", about.name) if ok else ("unexpected event", repr(ev)[:80])))
        return out

    def clone(p):
        p2 = copy.copy(p)
        object.__setattr__(p2, "attrs", {k: (list(v) if isinstance(v, list) else v) for k, v in p.attrs.items()})
        return p2

    def attempt(fn):
        try:
            fn()
            return None
        except Nonterminating:
            return "does not terminate"
        except AnalysisError:
            raise
        except BaseException as e:
            return f"raises {type(e).__name__}({e})"
    problems = {}
    per_list = {}

    def note(kind, hist, text):
        problems.setdefault(kind, (hist, text))
        if kind in ("delivery", "failure-reports"):
            per_list.setdefault((kind, cur[0]), (hist, text))
    cur = [()]
    start = it.globals["LogPublisher"]()
    seen = set()
    lists_seen = set()
    frontier = [(start, (), ())]
    n_states = 0
    for depth in range(0, 5):
        nxt = []
        for pub, listed, hist in frontier:
            key = (tuple(o.name for o in listed), freeze({k: v for k, v in pub.attrs.items() if k != "log"}))
            if key in seen:
                continue
            seen.add(key)
            n_states += 1
            cur[0] = tuple(o.name for o in listed)
            lists_seen.add(cur[0])
            # publish a plain event and a traced one
            for traced in (False, True):
                ev = {"n": 1, "log_trace": []} if traced else {"n": 1}
                del journal[:]
                p2 = clone(pub)
                err = attempt(lambda: it.getattr_(p2, "__call__")(ev))
                want = []
                spec(list(listed), "event", want)
                got = observed(ev)
                if err is not None:
                    note("delivery", hist, f"publishing an event {err}")
                elif [g for g in got if g[1] == "event"] != [w for w in want if w[1] == "event"]:
                    note("delivery", hist, f"observers {[o.name for o in listed]} received the event as {[g[0] for g in got if g[1] == 'event']}: every observer must get it exactly "
                                           "once, in registration order, whether or not others raise")
                elif got != want:
                    note("failure-reports", hist, f"deliveries {got} differ from {want}: each failure must be reported, after the event reached everyone, to every other observer")
                if traced and err is None:
                    tr = ev["log_trace"]
                    ok = len(tr) == len(listed) and all(isinstance(x, tuple) and len(x) == 2 and x[0] is p2 and x[1] is o for x, o in zip(tr, listed))
                    if not ok:
                        note("trace", hist, f"log_trace records {[(repr(x[1]) if isinstance(x, tuple) and len(x) == 2 else x) for x in tr]} for observers {[o.name for o in listed]}")
            if depth == 4:
                continue
            for name, o in obs.items():
                p2 = clone(pub)
                err = attempt(lambda: it.getattr_(p2, "addObserver")(o))
                if err is not None:
                    note("registration", hist + (f"add {name}",), f"addObserver {err}")
                else:
                    nxt.append((p2, listed if o in listed else listed + (o,), hist + (f"add {o.name}",)))
                p3 = clone(pub)
                err = attempt(lambda: it.getattr_(p3, "removeObserver")(o))
                if err is not None:
                    note("registration", hist + (f"remove {name}",), f"removeObserver {err}")
                else:
                    nxt.append((p3, tuple(x for x in listed if x is not o), hist + (f"remove {o.name}",)))
        frontier = nxt
    # a publisher constructed with observers
    del journal[:]
    p0 = it.globals["LogPublisher"](obs["C"], obs["A"])
    ev = {"n": 2}
    err = attempt(lambda: it.getattr_(p0, "__call__")(ev))
    if err is not None or observed(ev) != [("C", "event"), ("A", "event")]:
        note("registration", ("LogPublisher(C, A)",), f"constructor observers are not served in the order given ({err or observed(ev)})")
    err = attempt(lambda: it.getattr_(p0, "addObserver")(5))
    if err is None or "TypeError" not in err:
        note("registration", ("addObserver(5)",), "a non-callable observer is accepted")
    labels = {"delivery": ("publisher/delivery", "every observer receives each event exactly once in registration order, even when others raise"),
              "failure-reports": ("publisher/failure-reports", "failures are reported after the fan-out to every other observer"),
              "registration": ("publisher/registration", "addObserver appends once, removeObserver removes, order is kept"),
              "trace": ("publisher/trace", "log_trace records (publisher, observer) per delivery")}
    for kind, (rule, what) in labels.items():
        if kind in ("delivery", "failure-reports"):
            for names in sorted(lists_seen):
                b = per_list.get((kind, names))
                ctx.check(b is None, rule, f"{q} | observers registered: [{', '.join(names)}]", (f"after [{' ; '.join(b[0])}]: {b[1]}" if b else ""), detail=what)
            continue
        b = problems.get(kind)
        ctx.check(b is None, rule, f"{q} | {what}", (f"after [{' ; '.join(b[0])}]: {b[1]}" if b else ""), detail=f"{n_states} publisher states explored")
    # the same journal discrimination per operation for mutant naming is not needed: the history is the witness
    ctx.extra["publisher_states_explored"] = n_states


def check_filtering(ctx):
    """shouldLogEvent and FilteringLogObserver interpreted over all predicate-result sequences of length <= 3."""
    import functools
    import itertools
    import types
    mod = ctx.mod(FIL)
    it = Interp({}, budget=2000000)
    it.load(mod)
    res = types.SimpleNamespace(yes="yes", no="no", maybe="maybe")
    it.globals.update({"PredicateResult": res, "partial": functools.partial, "implementer": lambda *a: (lambda x: x),
                       "LogLevel": types.SimpleNamespace(info=1), "bitbucketLogObserver": lambda event: None})
    ctx.func(FIL, "shouldLogEvent")
    ctx.func(FIL, "FilteringLogObserver.__call__")
    qs = QF + "shouldLogEvent"
    qo = QF + "FilteringLogObserver"
    bad_s = bad_o = bad_t = None
    n = 0
    for k in range(0, 4):
        for seq in itertools.product(("yes", "no", "maybe"), repeat=k):
            asked = []
            preds = [(lambda ev, r=r, i=i: (asked.append(i), r)[1]) for i, r in enumerate(seq)]
            decisive = next((i for i, r in enumerate(seq) if r != "maybe"), None)
            want = True if decisive is None else seq[decisive] == "yes"
            want_asked = list(range(len(seq) if decisive is None else decisive + 1))
            event = {"n": 1}
            try:
                got = it.globals["shouldLogEvent"](preds, event)
            except Exception as e:
                got = f"raises {type(e).__name__}"
            n += 1
            if (got is not want or asked != want_asked) and bad_s is None:
                bad_s = (seq, got, asked)
            journal = []
            pos, neg = _Rec("wrapped", journal), _Rec("negative", journal)
            for traced in (False, True):
                del journal[:]
                del asked[:]
                ev = {"n": 2, "log_trace": []} if traced else {"n": 2}
                try:
                    flt = it.globals["FilteringLogObserver"](pos, preds, neg)
                    it.getattr_(flt, "__call__")(ev)
                    got2 = [(o.name, e is ev) for o, e in journal]
                except Exception as e:
                    got2 = f"raises {type(e).__name__}: {e}"
                    flt = None
                if got2 != [("wrapped" if want else "negative", True)] and bad_o is None:
                    bad_o = (seq, got2)
                if traced and flt is not None and want and bad_t is None:
                    tr = ev["log_trace"]
                    if not (len(tr) == 1 and tr[0][0] is flt and tr[0][1] is pos):
                        bad_t = (seq, tr)
    try:
        it.globals["shouldLogEvent"]([lambda ev: "bogus"], {})
        invalid = "accepted"
    except TypeError:
        invalid = None
    except Exception as e:
        invalid = f"raises {type(e).__name__}"
    ctx.check(bad_s is None, "filter/verdict-sequences", qs,
              (f"predicate results {bad_s[0]} give {bad_s[1]!r} after asking predicates {bad_s[2]}: the first yes/no decides, only maybe consults the next, none means log" if bad_s else ""),
              detail=f"{n} result sequences")
    ctx.check(invalid is None, "filter/verdict-sequences", qs + " | invalid result", f"a result that is not a PredicateResult is {invalid} instead of raising TypeError")
    ctx.check(bad_o is None, "filter/routing-sequences", qo + ".__call__",
              (f"with predicate results {bad_o[0]} the event goes to {bad_o[1]}: the wrapped observer gets it exactly when shouldLogEvent says so, otherwise the negative observer" if bad_o else ""))
    ctx.check(bad_t is None, "filter/routing-sequences", qo + ".__call__ | log_trace",
              (f"log_trace after forwarding is {bad_t[1]}" if bad_t else ""))


def check_buffer(ctx):
    """LimitedHistoryLogObserver interpreted: after each of 6 events, two replays must each yield the last N in order."""
    import collections
    mod = ctx.mod(BUF)
    it = Interp({}, budget=1000000)
    it.load(mod)
    it.globals.update({"deque": collections.deque, "implementer": lambda *a: (lambda x: x)})
    ctx.func(BUF, "LimitedHistoryLogObserver.replayTo")
    q = "twisted.logger._buffer.LimitedHistoryLogObserver"
    bad = None
    for size in (1, 2, 3, None, "default"):
        try:
            h = it.globals["LimitedHistoryLogObserver"]() if size == "default" else it.globals["LimitedHistoryLogObserver"](size)
        except Exception as e:
            bad = bad or (size, 0, f"constructor raises {type(e).__name__}: {e}", "")
            continue
        events = []
        for i in range(1, 7):
            ev = {"n": i}
            events.append(ev)
            try:
                it.getattr_(h, "__call__")(ev)
                want = events if size in (None, "default") else events[-size:]
                for attempt in (1, 2):
                    got = []
                    it.getattr_(h, "replayTo")(got.append)
                    if not (len(got) == len(want) and all(a is b for a, b in zip(got, want))) and bad is None:
                        bad = (size, i, [g.get("n") if isinstance(g, dict) else g for g in got], f"replay #{attempt}, expected {[w['n'] for w in want]}")
            except Nonterminating:
                bad = bad or (size, i, "does not terminate", "")
            except Exception as e:
                bad = bad or (size, i, f"raises {type(e).__name__}: {e}", "")
    ctx.check(bad is None, "history/last-n-in-order", q,
              (f"LimitedHistoryLogObserver({bad[0]}) after {bad[1]} events replays {bad[2]} ({bad[3]}): every replay must yield exactly the last N events, oldest first" if bad else ""),
              detail="sizes 1, 2, 3, None, default x 6 events x 2 replays")
    d = it.globals.get("_DEFAULT_BUFFER_MAXIMUM")
    ctx.check(isinstance(d, int) and d >= 1, "history/last-n-in-order", q + " | default size", f"default buffer size is {d!r}")


def _freeze_obj(o):
    return freeze(o.attrs)


def check_filter_histories(ctx):
    """Concrete interpretation of LogLevelFilterPredicate over every short history of set / clear / query."""
    import copy
    import types
    mod = ctx.mod(FIL)
    q = QF + "LogLevelFilterPredicate.logLevelForNamespace"
    qc = QF + "LogLevelFilterPredicate.__call__"

    class InvalidLogLevelError(Exception):
        pass
    levels = types.SimpleNamespace(debug=0, info=1, warn=2, iterconstants=lambda: [0, 1, 2])
    results = types.SimpleNamespace(yes="yes", no="no", maybe="maybe")
    it = Interp({}, budget=3000000)
    it.load(mod)
    it.globals.update({"LogLevel": levels, "InvalidLogLevelError": InvalidLogLevelError, "PredicateResult": results, "implementer": lambda *a: (lambda x: x)})
    ctx.need("LogLevelFilterPredicate" in it.globals, "class LogLevelFilterPredicate")
    cls = it.globals["LogLevelFilterPredicate"]
    for meth in ("logLevelForNamespace", "setLogLevelForNamespace", "clearLogLevels", "__call__"):
        ctx.func(FIL, f"LogLevelFilterPredicate.{meth}")
    obj0 = cls()
    default = 1
    chain = ["a", "a.b", "a.b.c"]
    queries = ["", "a", "a.b", "a.b.c", "a.b.c.d", "ab"]
    ops = [("set", ns, lv) for ns in [""] + chain for lv in (0, 2)] + [("clear",)] + [("query", ns) for ns in queries]

    def oracle(conf, ns):
        if not ns:
            return conf[""]
        parts = ns.split(".")
        for n in range(len(parts), 0, -1):
            p = ".".join(parts[:n])
            if p in conf:
                return conf[p]
        return conf[""]

    def clone(o):
        o2 = copy.copy(o)
        o2.attrs = copy.deepcopy(o.attrs)
        return o2

    def call(o, meth, *args):
        try:
            return it.getattr_(o, meth)(*args)
        except Nonterminating:
            return "does not terminate"
        except (KeyError, IndexError, TypeError, ValueError, AttributeError) as e:
            return f"raises {type(e).__name__}: {e}"
    bad_q, bad_c = {}, {}
    start = (obj0, {"": default}, ())
    seen = {(_freeze_obj(obj0), freeze(start[1]))}
    frontier = [start]
    n_hist = n_eval = 0
    for depth in range(0, 5):
        nxt = []
        for o, conf, hist in frontier:
            n_hist += 1
            # decisions of __call__ in this state (evaluated on copies)
            for ns in chain + ["a.b.c.d"]:
                for lv in (0, 1, 2):
                    got = call(clone(o), "__call__", {"log_level": lv, "log_namespace": ns})
                    n_eval += 1
                    want = "no" if lv < oracle(conf, ns) else "maybe"
                    if got != want:
                        bad_c.setdefault(ns, (hist, lv, oracle(conf, ns), got))
            for op in ops:
                o2, conf2 = clone(o), dict(conf)
                if op[0] == "set":
                    r = call(o2, "setLogLevelForNamespace", op[1], op[2])
                    conf2[op[1]] = op[2]
                    if r is not None:
                        bad_q.setdefault(op[1], (hist + (op,), "-", r))
                elif op[0] == "clear":
                    r = call(o2, "clearLogLevels")
                    conf2 = {"": default}
                    if r is not None:
                        bad_q.setdefault("<clear>", (hist + (op,), "-", r))
                else:
                    got = call(o2, "logLevelForNamespace", op[1])
                    n_eval += 1
                    want = oracle(conf, op[1])
                    if got != want:
                        bad_q.setdefault(op[1], (hist + (op,), want, got))
                        continue
                key = (_freeze_obj(o2), freeze(conf2))
                if key not in seen and depth < 4:
                    seen.add(key)
                    nxt.append((o2, conf2, hist + (op,)))
        frontier = nxt

    def show(h):
        return " ; ".join(f"set({x[1]!r},{x[2]})" if x[0] == "set" else ("clear()" if x[0] == "clear" else f"query({x[1]!r})") for x in h)
    for ns in queries:
        b = bad_q.get(ns)
        ctx.check(b is None, "filter/most-specific-prefix", f"{q} | namespace={ns!r}",
                  (f"after {show(b[0])} the level for {ns!r} must be that of its most specific configured prefix ({b[1]}) but the lookup yields {b[2]!r}" if b else ""),
                  detail="all histories of length <= 5 agree with the most-specific-configured-prefix oracle")
    for k in ("<clear>",):
        if k in bad_q:
            ctx.violation("filter/most-specific-prefix", f"{q} | {k}", f"configuration call fails: {bad_q[k][2]} after {show(bad_q[k][0])}")
    for ns in chain + ["a.b.c.d"]:
        b = bad_c.get(ns)
        ctx.check(b is None, "filter/level-decision", f"{qc} | namespace={ns!r}",
                  (f"after {show(b[0])} an event of level {b[1]} in {ns!r} (configured threshold {b[2]}) is answered {b[3]!r}; it must be "
                   f"{'no' if b[1] < b[2] else 'maybe'} (pass exactly when eventLevel >= threshold)" if b else ""),
                  detail="decision == (eventLevel >= most specific configured level) in every explored state")
    ctx.extra["filter_states_explored"] = len(seen)
    ctx.extra["filter_evaluations"] = n_eval


# ==== structural layer (normalised view: private helpers inlined, pure temporaries substituted) =====================================
import ast  # noqa: E402

from sa.astx import call_name, src, walk_local  # noqa: E402
from sa.effects import class_accesses  # noqa: E402
from sa.props._lib_k import LEVELS, protection  # noqa: E402

QO = "twisted.logger._observer.LogPublisher."
ORDER_DESTROYING = {"insert0", "insert", "sort", "reverse", "setitem", "delitem", "pop_last", "pop_first", "pop_key", "appendleft", "extendleft",
                    "del-prefix", "del-slice", "clear"}


def _norm(ctx, rel, known=()):
    from sa.props._lib_j import Normaliser
    try:
        return Normaliser(ctx.mod(rel), set(known)).run()
    except RecursionError:
        return ctx.mod(rel)


def _abstain(ctx, rule, why, bounded):
    ctx.note(f"{rule}: shape not recognised ({why}); clause left to the bounded rule {bounded}")


def _is_self_attr(n, name):
    return isinstance(n, ast.Attribute) and n.attr == name and isinstance(n.value, ast.Name) and n.value.id == "self"


def _no_exc(a, b, l):
    return l != "exc"


def _forward_view(it, attr):
    """'forward' when the iterable is self.<attr> or an order-preserving copy of it, 'transformed' for reversed/sorted/set, else None."""
    if _is_self_attr(it, attr):
        return "forward"
    if isinstance(it, ast.Call) and isinstance(it.func, ast.Name) and len(it.args) == 1 and _is_self_attr(it.args[0], attr):
        if it.func.id in ("list", "tuple", "iter"):
            return "forward"
        if it.func.id in ("reversed", "sorted", "set", "frozenset"):
            return "transformed"
    if isinstance(it, ast.Subscript) and _is_self_attr(it.value, attr) and isinstance(it.slice, ast.Slice):
        sl = it.slice
        if sl.lower is None and sl.upper is None and sl.step is None:
            return "forward"
        return "transformed"
    return None


def _generator_view(cls, it, attr):
    """A loop over `self._m(...)` where _m is a generator method of the class that yields exactly the elements of self.<attr>,
    front to back (`yield from self.<attr>` / `for o in self.<attr>: ...; yield o`) reads as a loop over self.<attr>."""
    if not (isinstance(it, ast.Call) and isinstance(it.func, ast.Attribute) and isinstance(it.func.value, ast.Name) and it.func.value.id == "self"):
        return None
    meth = next((n for n in cls.body if isinstance(n, ast.FunctionDef) and n.name == it.func.attr), None)
    if meth is None:
        return None
    ys = [n for n in ast.walk(meth) if isinstance(n, (ast.Yield, ast.YieldFrom))]
    if not ys:
        return None
    views = set()
    for y in ys:
        if isinstance(y, ast.YieldFrom):
            views.add(_forward_view(y.value, attr))
        else:
            lp = next((p for p in _ancestors(y) if isinstance(p, ast.For)), None)
            if lp is not None and isinstance(lp.target, ast.Name) and isinstance(y.value, ast.Name) and y.value.id == lp.target.id:
                views.add(_forward_view(lp.iter, attr))
            else:
                views.add(None)
    if views == {"forward"}:
        return "forward"
    return "transformed" if "transformed" in views else None


def _ancestors(n):
    n = getattr(n, "_parent", None)
    while n is not None:
        yield n
        n = getattr(n, "_parent", None)


def check_publisher_structure(ctx):
    nm = _norm(ctx, OBS, known={"_errorLoggerForObserver"})
    f = nm.find("LogPublisher.__call__")
    cls = nm.find("LogPublisher")
    ctx.need(isinstance(f, ast.FunctionDef) and isinstance(cls, ast.ClassDef), "LogPublisher.__call__")
    g = ctx.cfg(f)
    q = QO + "__call__"
    ev = f.args.args[1].arg
    loops = [n for n in walk_local(f) if isinstance(n, ast.For)]
    views = [(lp, _forward_view(lp.iter, "_observers") or _generator_view(cls, lp.iter, "_observers")) for lp in loops]
    for lp, v in views:
        if v == "transformed":
            ctx.violation("publisher/forward-iteration", q + " | fan-out order", f"observers are visited through {src(lp.iter)}, not in registration order")
    fan = [lp for lp, v in views if v == "forward" and isinstance(lp.target, ast.Name)]
    if len(fan) != 1:
        if not any(v == "transformed" for _, v in views):
            _abstain(ctx, "publisher/*", "no single loop over self._observers in __call__", "publisher/delivery")
        return
    ctx.ok("publisher/forward-iteration", q + " | fan-out order", "the loop walks self._observers front to back")
    lp = fan[0]
    ov = lp.target.id
    head = g.ids_of(lp)[0]
    calls = [c for c in ast.walk(lp) if isinstance(c, ast.Call) and isinstance(c.func, ast.Name) and c.func.id == ov]
    if not calls:
        _abstain(ctx, "publisher/observer-failure-contained", "no direct observer(...) call in the fan-out loop", "publisher/delivery")
        return
    for c in calls:
        k = q + " | observer call-out"
        ctx.check(len(c.args) == 1 and src(c.args[0]) == ev and not c.keywords, "publisher/delivers-the-event", k, "the observer is not called with the event itself")
        lv = protection(c, f)
        ctx.check(LEVELS[lv] >= 1, "publisher/observer-failure-contained", k,
                  "an exception raised by one observer leaves the fan-out loop: the remaining observers never see the event", detail=f"handler level {lv}")
        cid = g.ids_of(c)
        starts = [d for d, l in g.succ[head] if l == "iter"]
        p = g.path([s for s in starts if s not in cid], [head, g.exit], avoid=cid, edge_ok=_no_exc)
        ctx.check(p is None, "publisher/one-delivery-per-observer", k + " | every iteration", "an observer can be skipped", witness=g.describe(p))
        p = g.path(cid, cid, avoid=[head], strict=True)
        ctx.check(p is None, "publisher/one-delivery-per-observer", k + " | not repeated", "an observer can receive the event twice", witness=g.describe(p))
    body_nodes = [n.id for n in g.nodes if n.ast is not None and n.kind in ("stmt", "test", "handler") and any(n.ast is x for x in ast.walk(lp)) and g.reachable(n.id)]
    done = {d for d, l in g.succ[head] if l == "done"}
    p = g.path(body_nodes, [g.exit, g.raise_exit] + list(done), avoid=[head], edge_ok=_no_exc)
    ctx.check(p is None, "publisher/loop-runs-to-completion", q + " | fan-out loop", "the fan-out loop can be left before every observer was served", witness=g.describe(p))
    w = g.must_pass([g.entry], [head], exc=False)
    ctx.check(w is None, "publisher/loop-runs-to-completion", q + " | reached", "__call__ can return without fanning the event out", witness=g.describe(w))
    # the handler records (observer, Failure())
    tries = [t for t in ast.walk(lp) if isinstance(t, ast.Try) and any(x is calls[0] for b in t.body for x in ast.walk(b))]
    rec_list = None
    for t in tries:
        for h in t.handlers:
            apps = [c for b in h.body for c in ast.walk(b) if isinstance(c, ast.Call) and isinstance(c.func, ast.Attribute) and c.func.attr in ("append", "add")]
            good = [a for a in apps if len(a.args) == 1 and isinstance(a.args[0], ast.Tuple) and len(a.args[0].elts) == 2 and src(a.args[0].elts[0]) == ov
                    and isinstance(a.args[0].elts[1], ast.Call) and call_name(a.args[0].elts[1]) == "Failure" and not a.args[0].elts[1].args]
            if good:
                rec_list = src(good[0].func.value)
                ctx.ok("publisher/failure-recorded", q + " | handler of the observer call-out", "(observer, Failure()) is recorded")
            elif not apps and not any(isinstance(x, ast.Call) for b in h.body for x in ast.walk(b)):
                ctx.violation("publisher/failure-recorded", q + " | handler of the observer call-out",
                              "a failing observer is swallowed without (observer, Failure()) being recorded for the report")
            else:
                _abstain(ctx, "publisher/failure-recorded", "handler records the failure in an unrecognised way", "publisher/failure-reports")
    # reports: .failure(...) on the logger for the broken observer
    reports = [c for c in walk_local(f) if isinstance(c, ast.Call) and isinstance(c.func, ast.Attribute) and c.func.attr == "failure"
               and any(isinstance(x, ast.Call) and call_name(x) == "self._errorLoggerForObserver" for x in ast.walk(c.func.value))]
    if not reports:
        # logger bound to a local first
        loggers = {t.id for st in walk_local(f) if isinstance(st, ast.Assign) and isinstance(st.value, ast.Call) and call_name(st.value) == "self._errorLoggerForObserver"
                   for t in st.targets if isinstance(t, ast.Name)}
        reports = [c for c in walk_local(f) if isinstance(c, ast.Call) and isinstance(c.func, ast.Attribute) and c.func.attr == "failure"
                   and isinstance(c.func.value, ast.Name) and c.func.value.id in loggers]
    if not reports:
        _abstain(ctx, "publisher/failures-reported-after-loop", "no errorLogger.failure(...) call found in __call__", "publisher/failure-reports")
    for rc in reports:
        k = q + " | failure report"
        inside = any(x is rc for x in ast.walk(lp))
        ctx.check(not inside, "publisher/failures-reported-after-loop", k + " | placement",
                  "failures are reported inside the fan-out loop (error events overtake the event being delivered)")
        rid = g.ids_of(rc)
        if not inside:
            w = g.must_precede([head], rid)
            ctx.check(w is None, "publisher/failures-reported-after-loop", k + " | after the fan-out", "a failure report can run without the fan-out having run", witness=g.describe(w))
        rloop = next((l2 for l2 in loops if l2 is not lp and any(x is rc for x in ast.walk(l2))), None)
        if rloop is not None and rec_list is not None and isinstance(rloop.target, ast.Tuple) and len(rloop.target.elts) == 2:
            ctx.check(src(rloop.iter) == rec_list, "publisher/failure-reported", k + " | over the recorded failures", "the report loop does not walk the list the handler fills")
            bo, fl = src(rloop.target.elts[0]), src(rloop.target.elts[1])
            kws = {k_.arg: src(k_.value) for k_ in rc.keywords}
            mk = [x for x in ast.walk(rloop) if isinstance(x, ast.Call) and call_name(x) == "self._errorLoggerForObserver"]
            ctx.check(len(mk) == 1 and len(mk[0].args) == 1 and src(mk[0].args[0]) == bo, "publisher/report-excludes-broken-observer", k + " | logger built for the broken observer",
                      "the error logger is not built for the broken observer of this record")
            ctx.check(kws.get("failure") == fl, "publisher/failure-reported", k + " | carries the recorded Failure", "the recorded Failure is not what is reported")
            rhead = g.ids_of(rloop)[0]
            st = [d for d, l in g.succ[rhead] if l == "iter"]
            p = g.path([s_ for s_ in st if s_ not in rid], [rhead, g.exit], avoid=rid, edge_ok=_no_exc)
            ctx.check(p is None, "publisher/failure-reported", k + " | every record", "a recorded failure can go unreported", witness=g.describe(p))
        else:
            _abstain(ctx, "publisher/failure-reported", "report loop shape", "publisher/failure-reports")

    # _errorLoggerForObserver: every registered observer that is not (identity) the broken one, in order
    e = nm.find("LogPublisher._errorLoggerForObserver")
    qe = QO + "_errorLoggerForObserver"
    if isinstance(e, ast.FunctionDef):
        par = e.args.args[1].arg
        ge = ctx.cfg(e)
        pubs = [c for c in ast.walk(e) if isinstance(c, ast.Call) and call_name(c) == "LogPublisher" and len(c.args) == 1 and isinstance(c.args[0], ast.Starred)]
        verdict = None   # True holds / False violated / None unknown
        why = ""
        if len(pubs) == 1:
            x = pubs[0].args[0].value
            if isinstance(x, (ast.GeneratorExp, ast.ListComp)) and len(x.generators) == 1 and isinstance(x.generators[0].target, ast.Name) \
                    and _forward_view(x.generators[0].iter, "_observers") is not None:
                gen = x.generators[0]
                v = gen.target.id
                if _forward_view(gen.iter, "_observers") == "transformed":
                    verdict, why = False, "the other observers are taken in a different order"
                elif src(x.elt) == v:
                    conds = [c for c in gen.ifs if isinstance(c, ast.Compare) and len(c.ops) == 1 and {src(c.left), src(c.comparators[0])} == {v, par}]
                    if not gen.ifs:
                        verdict, why = False, "no observer is excluded: the failure is reported to the broken observer itself"
                    elif len(conds) == 1 and len(gen.ifs) == 1:
                        if isinstance(conds[0].ops[0], ast.IsNot):
                            verdict = True
                        elif isinstance(conds[0].ops[0], ast.Is):
                            verdict, why = False, "only the broken observer is kept: the failure is reported to it and withheld from the healthy ones"
            elif isinstance(x, ast.Name):
                floops = [l2 for l2 in ast.walk(e) if isinstance(l2, ast.For) and isinstance(l2.target, ast.Name) and _forward_view(l2.iter, "_observers") == "forward"]
                apps = [c for c in ast.walk(e) if isinstance(c, ast.Call) and isinstance(c.func, ast.Attribute) and c.func.attr == "append"
                        and isinstance(c.func.value, ast.Name) and c.func.value.id == x.id]
                if len(floops) == 1 and len(apps) == 1 and any(a is apps[0] for a in ast.walk(floops[0])) and src(apps[0].args[0]) == floops[0].target.id:
                    v = floops[0].target.id

                    def ident(t, v=v):
                        return isinstance(t, ast.Compare) and len(t.ops) == 1 and {src(t.left), src(t.comparators[0])} == {v, par} and isinstance(t.ops[0], (ast.Is, ast.IsNot))
                    gs = [(ge.node(t).ast, lab) for n in ge.ids_of(apps[0]) for t, lab in ge.edge_guards(n) if ident(ge.node(t).ast)]
                    if not gs:
                        verdict, why = False, "no observer is excluded: the failure is reported to the broken observer itself"
                    elif all((isinstance(t.ops[0], ast.IsNot)) == (lab == "T") for t, lab in gs):
                        verdict = True
                    else:
                        verdict, why = False, "only the broken observer is kept: the failure is reported to it and withheld from the healthy ones"
        if verdict is None:
            _abstain(ctx, "publisher/report-excludes-broken-observer", "construction of the error publisher", "publisher/failure-reports")
        else:
            ctx.check(verdict, "publisher/report-excludes-broken-observer", qe + " | observers of the error publisher", why,
                      detail="every registered observer that `is not` the broken one, in registration order")
    # who may write _observers (all methods of the class, helpers included)
    acc = class_accesses(nm, cls, {"_observers"}, receivers={"self"})
    for a in acc:
        k = ctx.construct("twisted.logger._observer." + a.func, a.node)
        if a.kind in ORDER_DESTROYING:
            ctx.violation("publisher/registration-order-preserved", k, f"self._observers is modified by '{a.kind}': registration order is no longer an invariant")
        elif a.kind == "append":
            fn = nm.find(a.func)
            ga = ctx.cfg(fn)
            arg = src(a.node.args[0]) if a.node.args else ""
            ok = any(ga.guarded(n, lambda t, arg=arg: isinstance(t, ast.Compare) and len(t.ops) == 1 and src(t.left) == arg and _is_self_attr(t.comparators[0], "_observers")
                                and isinstance(t.ops[0], ast.NotIn), True) or
                     ga.guarded(n, lambda t, arg=arg: isinstance(t, ast.Compare) and len(t.ops) == 1 and src(t.left) == arg and _is_self_attr(t.comparators[0], "_observers")
                                and isinstance(t.ops[0], ast.In), False) for n in ga.ids_of(a.node))
            ctx.check(ok, "publisher/single-registration", k, "an observer can be registered twice and would then receive every event twice")
        else:
            ctx.ok("publisher/registration-order-preserved", k, f"'{a.kind}' keeps the relative order of the remaining observers")
    init = nm.find("LogPublisher.__init__")
    if isinstance(init, ast.FunctionDef) and init.args.vararg is not None:
        ia = [a for a in acc if a.func == "LogPublisher.__init__" and a.kind in ("assign", "rebind-empty")]
        if ia:
            v = ia[0].node.value
            ok = isinstance(v, ast.Call) and isinstance(v.func, ast.Name) and v.func.id in ("list",) and len(v.args) == 1 and src(v.args[0]) == init.args.vararg.arg
            if ok:
                ctx.ok("publisher/registration-order-preserved", QO + "__init__ | initial list", "list(observers)")
            else:
                _abstain(ctx, "publisher/registration-order-preserved", "initial observer list", "publisher/registration")


def check_filter_structure(ctx):
    nm = _norm(ctx, FIL)
    QF_ = "twisted.logger._filter."
    # shouldLogEvent: predicates consulted in order, stop at the first decisive answer
    sh = nm.find("shouldLogEvent")
    if isinstance(sh, ast.FunctionDef):
        g2 = ctx.cfg(sh)
        qs = QF_ + "shouldLogEvent"
        loops = [n for n in walk_local(sh) if isinstance(n, ast.For)]
        if len(loops) == 1 and isinstance(loops[0].target, ast.Name) and src(loops[0].iter) == sh.args.args[0].arg:
            lp = loops[0]

            def guard_eq(n, const, pol):
                def pred(t):
                    return isinstance(t, ast.Compare) and len(t.ops) == 1 and isinstance(t.ops[0], (ast.Eq, ast.Is)) and \
                        (src(t.comparators[0]).endswith("PredicateResult." + const) or src(t.left).endswith("PredicateResult." + const))
                return g2.guarded(n, pred, pol)
            for r in g2.ids(lambda n: n.kind == "stmt" and isinstance(n.ast, ast.Return)):
                node = g2.node(r).ast
                inside = any(x is node for x in ast.walk(lp))
                v = node.value.value if isinstance(node.value, ast.Constant) else None
                if v not in (True, False):
                    _abstain(ctx, "filter/predicate-verdicts", "non-constant return", "filter/verdict-sequences")
                    continue
                if inside:
                    ctx.check((v is True and guard_eq(r, "yes", True)) or (v is False and guard_eq(r, "no", True)), "filter/predicate-verdicts",
                              qs + f" | return {v} inside the loop", "a predicate verdict is mapped to the wrong decision (yes must log, no must drop)")
                else:
                    ctx.check(v is True, "filter/predicate-verdicts", qs + " | default", "with only `maybe` answers the event must be logged")
            for cn in g2.ids(lambda n: n.kind == "stmt" and isinstance(n.ast, ast.Continue)):
                ctx.check(guard_eq(cn, "maybe", True), "filter/predicate-verdicts", qs + " | continue", "the next predicate is consulted after a verdict other than maybe")
            pc = [c for c in ast.walk(lp) if isinstance(c, ast.Call) and isinstance(c.func, ast.Name) and c.func.id == lp.target.id]
            ctx.check(len(pc) == 1 and len(pc[0].args) == 1 and src(pc[0].args[0]) == sh.args.args[1].arg, "filter/predicate-verdicts", qs + " | predicate(event)",
                      "each predicate is not asked exactly once about the event, in the order given")
        else:
            _abstain(ctx, "filter/predicate-verdicts", "loop over the predicates", "filter/verdict-sequences")
    fo = nm.find("FilteringLogObserver.__call__")
    if isinstance(fo, ast.FunctionDef):
        g3 = ctx.cfg(fo)
        qo = QF_ + "FilteringLogObserver.__call__"
        e3 = fo.args.args[1].arg

        def is_should(t):
            return isinstance(t, ast.Call) and call_name(t) == "self._shouldLogEvent" and len(t.args) == 1 and src(t.args[0]) == e3
        pos = g3.find(lambda x: isinstance(x, ast.Call) and call_name(x) == "self._observer")
        neg = g3.find(lambda x: isinstance(x, ast.Call) and call_name(x) == "self._negativeObserver")
        if pos and neg and g3.find(is_should):
            ctx.check(all(g3.guarded(n, is_should, True) for n in pos), "filter/forwards-iff-should-log", qo + " | wrapped observer",
                      "the wrapped observer is not called exactly under shouldLogEvent(event)")
            ctx.check(all(g3.guarded(n, is_should, False) for n in neg), "filter/forwards-iff-should-log", qo + " | negative observer",
                      "the negative observer is not called exactly when shouldLogEvent(event) is false")
            w = g3.must_pass([g3.entry], set(pos) | set(neg), exc=False)
            ctx.check(w is None, "filter/forwards-iff-should-log", qo + " | every event routed", "an event can be routed to neither observer", witness=g3.describe(w))
        else:
            # the recipient is chosen first and called once: `r = self._observer` / `r = self._negativeObserver`, then `r(event)`
            picks = {}
            for n in g3.ids(lambda n: n.kind == "stmt" and isinstance(n.ast, ast.Assign) and len(n.ast.targets) == 1 and isinstance(n.ast.targets[0], ast.Name)
                            and src(n.ast.value) in ("self._observer", "self._negativeObserver")):
                picks.setdefault(g3.node(n).ast.targets[0].id, {}).setdefault(src(g3.node(n).ast.value), []).append(n)
            done = False
            for local, by in picks.items():
                calls = g3.find(lambda x, local=local: isinstance(x, ast.Call) and isinstance(x.func, ast.Name) and x.func.id == local and len(x.args) == 1 and src(x.args[0]) == e3)
                if calls and set(by) == {"self._observer", "self._negativeObserver"} and g3.find(is_should):
                    done = True
                    ctx.check(all(g3.guarded(n, is_should, True) for n in by["self._observer"]), "filter/forwards-iff-should-log", qo + " | wrapped observer",
                              "the wrapped observer is not chosen exactly under shouldLogEvent(event)")
                    ctx.check(all(g3.guarded(n, is_should, False) for n in by["self._negativeObserver"]), "filter/forwards-iff-should-log", qo + " | negative observer",
                              "the negative observer is not chosen exactly when shouldLogEvent(event) is false")
                    w = g3.must_pass([g3.entry], calls, exc=False)
                    ctx.check(w is None, "filter/forwards-iff-should-log", qo + " | every event routed", "an event can be routed to neither observer", witness=g3.describe(w))
            if not done:
                _abstain(ctx, "filter/forwards-iff-should-log", "routing calls", "filter/routing-sequences")
    # LogLevelFilterPredicate: the levels enter the decision only through order comparisons -> three orderings are the whole domain
    c = nm.find("LogLevelFilterPredicate.__call__")
    cls = nm.find("LogLevelFilterPredicate")
    if isinstance(c, ast.FunctionDef):
        qc = QF_ + "LogLevelFilterPredicate.__call__"
        evp = c.args.args[1].arg
        lvl_exprs = [n for n in ast.walk(c) if isinstance(n, ast.Call) and call_name(n) == f"{evp}.get" and n.args and isinstance(n.args[0], ast.Constant) and n.args[0].value == "log_level"]
        names = {t.id for st in ast.walk(c) if isinstance(st, ast.Assign) and st.value in lvl_exprs for t in st.targets if isinstance(t, ast.Name)}
        names |= {t.id for st in ast.walk(c) if isinstance(st, ast.Assign) and isinstance(st.value, ast.Call) and call_name(st.value) == "self.logLevelForNamespace"
                  for t in st.targets if isinstance(t, ast.Name)}
        uses = [n for n in ast.walk(c) if (isinstance(n, ast.Name) and n.id in names and isinstance(n.ctx, ast.Load)) or n in lvl_exprs or
                (isinstance(n, ast.Call) and call_name(n) == "self.logLevelForNamespace")]
        bad = [u for u in uses if not isinstance(getattr(u, "_parent", None), (ast.Compare, ast.Assign))]
        if uses and not bad:
            ctx.ok("filter/level-decision-domain", qc, "the event level and the threshold are used only in comparisons: the three orderings <, =, > are the complete domain")
        else:
            ctx.note("filter/level-decision-domain: the levels are used outside comparisons; filter/level-decision is then evidence for the enumerated levels only")
    # derived state (caches written by the lookup) must be discarded by every writer of the level table
    if isinstance(cls, ast.ClassDef):
        look = nm.find("LogLevelFilterPredicate.logLevelForNamespace")
        table = "_logLevelsByNamespace"
        writes_in_lookup = {a.attr for a in class_accesses(nm, cls, None, receivers={"self"}) if a.func.endswith(".logLevelForNamespace") and a.attr != table} if look is not None else set()
        acc = class_accesses(nm, cls, None, receivers={"self"})
        writers = sorted({a.func for a in acc if a.attr == table and not a.func.endswith("__init__")})
        for derived in sorted(writes_in_lookup):
            for wfn in writers:
                fn = nm.find(wfn)
                gw = ctx.cfg(fn)
                wnodes = [n for a in acc if a.func == wfn and a.attr == table for n in gw.ids_of(a.node)]
                flush = [n for a in acc if a.func == wfn and a.attr == derived and a.kind in ("clear", "rebind-empty", "assign") for n in gw.ids_of(a.node)]
                p = None
                for wn in wnodes:
                    # a table write must be accompanied (before or after, on every path) by a full flush of the derived attribute
                    if not flush or (gw.must_pass([wn], flush, exc=False) is not None and gw.must_precede(flush, [wn]) is not None):
                        p = wn
                ctx.check(p is None, "filter/derived-state-invalidated", f"{QF_}{wfn} | self.{derived}",
                          f"{wfn} changes the configured levels but does not discard self.{derived}, which logLevelForNamespace fills from them: later lookups answer from stale data")
        if not writes_in_lookup:
            ctx.ok("filter/derived-state-invalidated", QF_ + "LogLevelFilterPredicate.logLevelForNamespace", "the lookup keeps no derived state")
        # the table is written under the given namespace (or '') with the given level
        s_ = nm.find("LogLevelFilterPredicate.setLogLevelForNamespace")
        if isinstance(s_, ast.FunctionDef):
            pn, pl = s_.args.args[1].arg, s_.args.args[2].arg

            def leaves(e):
                if isinstance(e, ast.IfExp):
                    return leaves(e.body) + leaves(e.orelse)
                if isinstance(e, ast.BoolOp):
                    return [x for v in e.values for x in leaves(v)]
                return [e]
            for a in acc:
                if a.func.endswith(".setLogLevelForNamespace") and a.attr == table and a.kind == "setitem" and isinstance(a.node, ast.Assign):
                    key = a.node.targets[0].slice
                    ls = leaves(key)
                    if all((isinstance(x, ast.Name) and x.id == pn) or (isinstance(x, ast.Constant) and x.value == "") for x in ls):
                        ctx.check(src(a.node.value) == pl, "filter/table-written-under-namespace", QF_ + "LogLevelFilterPredicate.setLogLevelForNamespace | stored value",
                                  "a different value than the given level is stored")
                    elif any(isinstance(x, ast.Name) and x.id in (pn,) for x in ls) or all(isinstance(x, ast.Constant) for x in ls):
                        ctx.violation("filter/table-written-under-namespace", QF_ + "LogLevelFilterPredicate.setLogLevelForNamespace | key",
                                      f"the level is stored under {src(key)}, not under the namespace given")
                    else:
                        _abstain(ctx, "filter/table-written-under-namespace", "key expression", "filter/most-specific-prefix")


def check_buffer_structure(ctx):
    nm = _norm(ctx, BUF)
    cls = nm.find("LimitedHistoryLogObserver")
    ctx.need(isinstance(cls, ast.ClassDef), "class LimitedHistoryLogObserver")
    QB_ = "twisted.logger._buffer.LimitedHistoryLogObserver."
    init = nm.find("LimitedHistoryLogObserver.__init__")
    acc = class_accesses(nm, cls, {"_buffer"}, receivers={"self"})
    size = init.args.args[1].arg if isinstance(init, ast.FunctionDef) and len(init.args.args) > 1 else None
    for a in acc:
        k = QB_ + a.func.split(".")[-1]
        if a.kind in ("assign", "rebind-empty") and isinstance(a.node, (ast.Assign, ast.AnnAssign)):
            v = a.node.value
            if isinstance(v, ast.Name):   # constructor provenance through a local
                defs = [st for st in ast.walk(init) if isinstance(st, (ast.Assign, ast.AnnAssign)) and st.value is not None and
                        any(isinstance(t, ast.Name) and t.id == v.id for t in (st.targets if isinstance(st, ast.Assign) else [st.target]))]
                v = defs[0].value if len(defs) == 1 else v
            if isinstance(v, ast.Call) and call_name(v) in ("deque", "collections.deque") and size is not None and a.func.endswith("__init__"):
                kws = {x.arg: x.value for x in v.keywords}
                ok = (not v.args and "maxlen" in kws and src(kws["maxlen"]) == size) or \
                     (len(v.args) == 2 and src(v.args[1]) == size and isinstance(v.args[0], (ast.List, ast.Tuple)) and not v.args[0].elts)
                ctx.check(ok, "history/bounded-by-size", k + " | deque bound",
                          "the history is not an (initially empty) deque bounded by exactly `size`: more or fewer than the last N events are kept")
            else:
                _abstain(ctx, "history/bounded-by-size", "construction of the buffer", "history/last-n-in-order")
        elif a.kind == "append":
            fn = nm.find(a.func)
            evp = fn.args.args[1].arg if isinstance(fn, ast.FunctionDef) and len(fn.args.args) > 1 else None
            ctx.check(len(a.node.args) == 1 and src(a.node.args[0]) == evp, "history/appends-at-the-end", k + " | append(event)", "something else than the event is recorded")
        elif a.kind in ORDER_DESTROYING or a.kind in ("remove", "extend"):
            ctx.violation("history/appends-at-the-end", k + f" | {a.kind}", f"the history buffer is modified by '{a.kind}' in {a.func}: it no longer holds the last N events oldest-first "
                          "(or a replay consumes them)")
    c = nm.find("LimitedHistoryLogObserver.__call__")
    if isinstance(c, ast.FunctionDef):
        g = ctx.cfg(c)
        app = g.find(lambda x: isinstance(x, ast.Call) and isinstance(x.func, ast.Attribute) and x.func.attr == "append" and _is_self_attr(x.func.value, "_buffer"))
        if app:
            w = g.must_pass([g.entry], app, exc=False)
            ctx.check(w is None, "history/appends-at-the-end", QB_ + "__call__ | every event", "an event can be dropped without being recorded", witness=g.describe(w))
    r = nm.find("LimitedHistoryLogObserver.replayTo")
    if isinstance(r, ast.FunctionDef):
        gr = ctx.cfg(r)
        qr = QB_ + "replayTo"
        other = r.args.args[1].arg
        loops = [n for n in walk_local(r) if isinstance(n, ast.For)]
        views = [(lp, _forward_view(lp.iter, "_buffer")) for lp in loops]
        if any(v == "transformed" for _, v in views):
            ctx.violation("history/replays-forward", qr, "replay does not walk the buffer front (oldest) to back (newest)")
        fw = [lp for lp, v in views if v == "forward" and isinstance(lp.target, ast.Name)]
        if len(fw) == 1:
            lp = fw[0]
            ctx.ok("history/replays-forward", qr, "the loop walks self._buffer oldest first")
            calls = [x for x in ast.walk(lp) if isinstance(x, ast.Call) and isinstance(x.func, ast.Name) and x.func.id == other]
            if len(calls) == 1:
                ctx.check(len(calls[0].args) == 1 and src(calls[0].args[0]) == lp.target.id, "history/replays-each-once", qr + " | otherObserver(event)",
                          "the buffered event is not what is passed to the other observer")
                head = gr.ids_of(lp)[0]
                cid = gr.ids_of(calls[0])
                st = [d for d, l in gr.succ[head] if l == "iter"]
                p = gr.path([s_ for s_ in st if s_ not in cid], [head, gr.exit], avoid=cid, edge_ok=_no_exc)
                ctx.check(p is None, "history/replays-each-once", qr + " | every event", "a buffered event can be skipped", witness=gr.describe(p))
                body = [n.id for n in gr.nodes if n.ast is not None and n.kind in ("stmt", "test") and any(n.ast is x for x in ast.walk(lp)) and gr.reachable(n.id)]
                p = gr.path(body, [gr.exit] + [d for d, l in gr.succ[head] if l == "done"], avoid=[head], edge_ok=_no_exc)
                ctx.check(p is None, "history/replays-each-once", qr + " | runs to completion", "the replay can stop early", witness=gr.describe(p))
            else:
                _abstain(ctx, "history/replays-each-once", "call of the other observer", "history/last-n-in-order")
        elif not any(v == "transformed" for _, v in views):
            _abstain(ctx, "history/replays-forward", "no loop over self._buffer in replayTo", "history/last-n-in-order")


def check(ctx):
    with ctx.section("LogPublisher structure"):
        no_crash('check_publisher_structure', check_publisher_structure, ctx)
    with ctx.section("filter structure"):
        no_crash('check_filter_structure', check_filter_structure, ctx)
    with ctx.section("history buffer structure"):
        no_crash('check_buffer_structure', check_buffer_structure, ctx)
    with ctx.section("LogPublisher"):
        no_crash('check_publisher', check_publisher, ctx)
    with ctx.section("LogLevelFilterPredicate histories"):
        no_crash('check_filter_histories', check_filter_histories, ctx)
    with ctx.section("shouldLogEvent / FilteringLogObserver"):
        no_crash('check_filtering', check_filtering, ctx)
    with ctx.section("LimitedHistoryLogObserver"):
        no_crash('check_buffer', check_buffer, ctx)


# a memo of resolved prefix lookups added to LogLevelFilterPredicate (shared by a mutant and a silent variant)
_E_INIT = (FIL, "        self._logLevelsByNamespace: Dict[str, NamedConstant] = {}\n        self.defaultLogLevel",
           "        self._logLevelsByNamespace: Dict[str, NamedConstant] = {}\n        self._memo: Dict[str, NamedConstant] = {}\n        self.defaultLogLevel")
_E_LOOKUP_OLD = ("        segments = namespace.split(\".\")\n        index = len(segments) - 1\n\n        while index > 0:\n            namespace = \".\".join(segments[:index])\n"
                 "            if namespace in self._logLevelsByNamespace:\n                return self._logLevelsByNamespace[namespace]\n            index -= 1\n\n"
                 "        return self._logLevelsByNamespace[\"\"]\n")
_E_LOOKUP_NEW = ("        if namespace in self._memo:\n            return self._memo[namespace]\n        found = self._logLevelsByNamespace[\"\"]\n"
                 "        segments = namespace.split(\".\")\n        for index in range(len(segments) - 1, 0, -1):\n            prefix = \".\".join(segments[:index])\n"
                 "            if prefix in self._logLevelsByNamespace:\n                found = self._logLevelsByNamespace[prefix]\n                break\n"
                 "        self._memo[namespace] = found\n        return found\n")
_E_CLEAR = (FIL, "        self._logLevelsByNamespace.clear()\n", "        self._logLevelsByNamespace.clear()\n        self._memo.clear()\n")
_E_SET_OLD = "        if namespace:\n            self._logLevelsByNamespace[namespace] = level\n        else:\n            self._logLevelsByNamespace[\"\"] = level\n"
_E_SET_STALE = ("        if namespace:\n            self._logLevelsByNamespace[namespace] = level\n            self._memo.pop(namespace, None)\n"
                "        else:\n            self._logLevelsByNamespace[\"\"] = level\n            self._memo.clear()\n")
_E_SET_FLUSH = "        self._memo.clear()\n" + _E_SET_OLD

# round-3 shapes (shared by a silent variant and the mutant that breaks the same shape)
_ACC_IMPORT = (FIL, "from functools import partial\n", "from functools import partial\nfrom itertools import accumulate\n")


def _acc_lookup(order):
    return ("        parents = list(accumulate(namespace.split(\".\")[:-1], lambda a, b: a + \".\" + b))\n"
            f"        best = next((p for p in {order} if p in self._logLevelsByNamespace), \"\")\n"
            "        return self._logLevelsByNamespace[best]\n")


_GEN_OLD = "        for observer in self._observers:\n            if trace is not None:\n                trace(observer)\n\n            try:\n"
_GEN_NEW = "        for observer in self._each(event):\n            try:\n"


def _gen_method(source):
    return (OBS, "    def _errorLoggerForObserver(self, observer: ILogObserver) -> Logger:\n",
            "    def _each(self, event):\n        traced = \"log_trace\" in event\n"
            f"        for candidate in {source}:\n            if traced:\n                event[\"log_trace\"].append((self, candidate))\n            yield candidate\n\n"
            "    def _errorLoggerForObserver(self, observer: ILogObserver) -> Logger:\n")


_ROUTE_OLD = ("        if self._shouldLogEvent(event):\n            if \"log_trace\" in event:\n                event[\"log_trace\"].append((self, self._observer))\n"
              "            self._observer(event)\n        else:\n            self._negativeObserver(event)\n")


def _route(a, b):
    return (f"        if self._shouldLogEvent(event):\n            if \"log_trace\" in event:\n                event[\"log_trace\"].append((self, self._observer))\n"
            f"            target = {a}\n        else:\n            target = {b}\n        target(event)\n")


MUTANTS = [
    Mutant("observer-call-outside-try", OBS, "            try:\n                observer(event)\n            except Exception:\n                brokenObservers.append((observer, Failure()))\n",
           "            observer(event)\n", expect_rule="publisher/delivery"),
    Mutant("handler-narrowed-to-valueerror", OBS, "            except Exception:\n                brokenObservers.append", "            except ValueError:\n                brokenObservers.append",
           expect_rule="publisher/delivery"),
    Mutant("reversed-iteration", OBS, "        for observer in self._observers:\n            if trace", "        for observer in reversed(self._observers):\n            if trace",
           expect_rule="publisher/delivery"),
    Mutant("report-to-the-broken-observer", OBS, "if obs is not observer)", "if obs is observer)", expect_rule="publisher/"),
    Mutant("report-inside-loop", OBS, "                brokenObservers.append((observer, Failure()))\n\n        for brokenObserver, failure in brokenObservers:\n            errorLogger = self._errorLoggerForObserver(brokenObserver)\n            errorLogger.failure(\n                OBSERVER_DISABLED,\n                failure=failure,\n                observer=brokenObserver,\n            )\n",
           "                brokenObservers.append((observer, Failure()))\n\n            for brokenObserver, failure in brokenObservers:\n                errorLogger = self._errorLoggerForObserver(brokenObserver)\n                errorLogger.failure(\n                    OBSERVER_DISABLED,\n                    failure=failure,\n                    observer=brokenObserver,\n                )\n            del brokenObservers[:]\n",
           expect_rule="publisher/failure-reports"),
    Mutant("stop-after-first-failure", OBS, "                brokenObservers.append((observer, Failure()))\n\n        for brokenObserver", "                brokenObservers.append((observer, Failure()))\n                break\n\n        for brokenObserver",
           expect_rule="publisher/"),
    Mutant("add-observer-at-front", OBS, "            self._observers.append(observer)", "            self._observers.insert(0, observer)", expect_rule="publisher/"),
    Mutant("add-observer-without-dedupe", OBS, "        if observer not in self._observers:\n            self._observers.append(observer)", "        self._observers.append(observer)",
           expect_rule="publisher/"),
    Mutant("failure-not-recorded", OBS, "                brokenObservers.append((observer, Failure()))\n", "                pass\n", expect_rule="publisher/failure-reports"),
    Mutant("filter-le", FIL, "        if eventLevel < namespaceLevel:", "        if eventLevel <= namespaceLevel:", expect_rule="filter/level-decision"),
    Mutant("filter-operands-swapped", FIL, "        if eventLevel < namespaceLevel:", "        if namespaceLevel < eventLevel:", expect_rule="filter/level-decision"),
    Mutant("prefix-loop-counts-up", FIL, "        index = len(segments) - 1\n\n        while index > 0:\n            namespace = \".\".join(segments[:index])\n            if namespace in self._logLevelsByNamespace:\n                return self._logLevelsByNamespace[namespace]\n            index -= 1\n",
           "        index = 1\n\n        while index < len(segments):\n            namespace = \".\".join(segments[:index])\n            if namespace in self._logLevelsByNamespace:\n                return self._logLevelsByNamespace[namespace]\n            index += 1\n",
           expect_rule="filter/most-specific-prefix"),
    Mutant("prefix-loop-skips-top-package", FIL, "        while index > 0:", "        while index > 1:", expect_rule="filter/most-specific-prefix"),
    Mutant("prefix-loop-starts-one-short", FIL, "        index = len(segments) - 1\n", "        index = len(segments) - 2\n", expect_rule="filter/most-specific-prefix"),
    Mutant("prefix-exact-match-dropped", FIL, "        if namespace in self._logLevelsByNamespace:\n            return self._logLevelsByNamespace[namespace]\n\n        segments", "        segments",
           expect_rule="filter/most-specific-prefix"),
    Mutant("prefix-decrement-dropped", FIL, "                return self._logLevelsByNamespace[namespace]\n            index -= 1\n", "                return self._logLevelsByNamespace[namespace]\n            index -= 0\n",
           expect_rule="filter/most-specific-prefix"),
    Mutant("prefix-memo-keeps-descendants-stale", FIL, _E_LOOKUP_OLD, _E_LOOKUP_NEW, expect_rule="filter/most-specific-prefix",
           more=[_E_INIT, _E_CLEAR, (FIL, _E_SET_OLD, _E_SET_STALE)]),
    Mutant("accumulate-lookup-least-specific-first", FIL, _E_LOOKUP_OLD, _acc_lookup("parents"), more=[_ACC_IMPORT], expect_rule="filter/most-specific-prefix"),
    Mutant("fan-out-generator-reversed", OBS, _GEN_OLD, _GEN_NEW, more=[_gen_method("reversed(self._observers)")], expect_rule="publisher/forward-iteration"),
    Mutant("chosen-recipient-swapped", FIL, _ROUTE_OLD, _route("self._negativeObserver", "self._observer"), expect_rule="filter/forwards-iff-should-log"),
    Mutant("verdicts-swapped", FIL, "        if result == PredicateResult.yes:\n            return True\n        if result == PredicateResult.no:\n            return False\n",
           "        if result == PredicateResult.yes:\n            return False\n        if result == PredicateResult.no:\n            return True\n", expect_rule="filter/predicate-verdicts"),
    Mutant("replay-drains-history", BUF, "        for event in self._buffer:\n            otherObserver(event)", "        while self._buffer:\n            otherObserver(self._buffer.popleft())",
           expect_rule="history/"),
    Mutant("remove-observer-swaps-with-last", OBS, "        try:\n            self._observers.remove(observer)\n        except ValueError:\n            pass\n",
           "        try:\n            i = self._observers.index(observer)\n        except ValueError:\n            return\n        self._observers[i] = self._observers[-1]\n        del self._observers[-1]\n",
           expect_rule="publisher/"),
    Mutant("history-appendleft", BUF, "        self._buffer.append(event)", "        self._buffer.appendleft(event)", expect_rule="history/"),
    Mutant("history-replay-reversed", BUF, "        for event in self._buffer:", "        for event in reversed(self._buffer):", expect_rule="history/"),
    Mutant("history-maxlen-off-by-one", BUF, "deque(maxlen=size)", "deque(maxlen=size and size - 1)", expect_rule="history/"),
]
SILENT = [
    Silent("filter-comparison-rewritten", FIL, "        if eventLevel < namespaceLevel:\n            return PredicateResult.no\n\n        return PredicateResult.maybe",
           "        if not namespaceLevel > eventLevel:\n            return PredicateResult.maybe\n        return PredicateResult.no"),
    Silent("prefix-loop-as-for-range", FIL, "        index = len(segments) - 1\n\n        while index > 0:\n            namespace = \".\".join(segments[:index])\n            if namespace in self._logLevelsByNamespace:\n                return self._logLevelsByNamespace[namespace]\n            index -= 1\n",
           "        for index in range(len(segments) - 1, 0, -1):\n            namespace = \".\".join(segments[:index])\n            if namespace in self._logLevelsByNamespace:\n                return self._logLevelsByNamespace[namespace]\n"),
    Silent("prefix-loop-down-to-zero", FIL, "        while index > 0:", "        while index >= 0:"),
    Silent("publisher-renamed-locals", OBS, "        for observer in self._observers:\n            if trace is not None:\n                trace(observer)\n\n            try:\n                observer(event)\n            except Exception:\n                brokenObservers.append((observer, Failure()))\n",
           "        for obs in self._observers:\n            if trace is not None:\n                trace(obs)\n            try:\n                obs(event)\n            except BaseException:\n                brokenObservers.append((obs, Failure()))\n"),
    Silent("prefix-memo-flushed-on-every-change", FIL, _E_LOOKUP_OLD, _E_LOOKUP_NEW, more=[_E_INIT, _E_CLEAR, (FIL, _E_SET_OLD, _E_SET_FLUSH)]),
    Silent("level-decision-as-conditional-expression", FIL, "        if eventLevel < namespaceLevel:\n            return PredicateResult.no\n\n        return PredicateResult.maybe",
           "        return PredicateResult.no if eventLevel < namespaceLevel else PredicateResult.maybe"),
    Silent("remove-observer-tests-membership", OBS, "        try:\n            self._observers.remove(observer)\n        except ValueError:\n            pass\n",
           "        if observer in self._observers:\n            self._observers.remove(observer)\n"),
    Silent("failure-reporting-in-private-method", OBS, "        for brokenObserver, failure in brokenObservers:\n            errorLogger = self._errorLoggerForObserver(brokenObserver)\n            errorLogger.failure(\n                OBSERVER_DISABLED,\n                failure=failure,\n                observer=brokenObserver,\n            )\n",
           "        self._tellOthers(brokenObservers)\n\n    def _tellOthers(self, broken):\n        for culprit, why in broken:\n            self._errorLoggerForObserver(culprit).failure(OBSERVER_DISABLED, failure=why, observer=culprit)\n"),
    Silent("error-publisher-built-by-explicit-loop", OBS, "        errorPublisher = LogPublisher(\n            *(obs for obs in self._observers if obs is not observer)\n        )\n",
           "        others = []\n        for each in self._observers:\n            if each is observer:\n                continue\n            others.append(each)\n        errorPublisher = LogPublisher(*others)\n"),
    Silent("replay-through-module-helper", BUF, "        for event in self._buffer:\n            otherObserver(event)", "        _each(self._buffer, otherObserver)\n\n\ndef _each(items, sink):\n    for item in items:\n        sink(item)"),
    Silent("level-stored-under-computed-key", FIL, _E_SET_OLD, "        where = namespace or \"\"\n        self._logLevelsByNamespace[where] = level\n"),
    Silent("prefixes-from-a-private-generator", FIL, _E_LOOKUP_OLD,
           "        for candidate in _outward(namespace):\n            if candidate in self._logLevelsByNamespace:\n                return self._logLevelsByNamespace[candidate]\n        return self._logLevelsByNamespace[\"\"]\n",
           more=[(FIL, "class PredicateResult(Names):\n", "def _outward(name):\n    parts = name.split(\".\")\n    while len(parts) > 1:\n        parts.pop()\n        yield \".\".join(parts)\n\n\nclass PredicateResult(Names):\n")]),
    Silent("remove-observer-with-suppress", OBS, "        try:\n            self._observers.remove(observer)\n        except ValueError:\n            pass\n",
           "        with suppress(ValueError):\n            self._observers.remove(observer)\n", more=[(OBS, "from typing import Callable, Optional\n", "from contextlib import suppress\nfrom typing import Callable, Optional\n")]),
    Silent("accumulate-lookup-most-specific-first", FIL, _E_LOOKUP_OLD, _acc_lookup("reversed(parents)"), more=[_ACC_IMPORT]),
    Silent("fan-out-through-private-generator", OBS, _GEN_OLD, _GEN_NEW, more=[_gen_method("self._observers")]),
    Silent("routing-through-chosen-recipient", FIL, _ROUTE_OLD, _route("self._observer", "self._negativeObserver")),
    Silent("history-positional-deque", BUF, "deque(maxlen=size)", "deque([], size)"),
]
