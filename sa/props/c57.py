"""C57 - Log observers receive every event; filters honour namespace hierarchy."""
from __future__ import annotations

from sa.selftest import Mutant, Silent
from sa.source import AnalysisError
from sa.props._lib_k import Interp, Nonterminating, freeze

PROPERTY = "C57"
OBS = "logger/_observer.py"
FIL = "logger/_filter.py"
BUF = "logger/_buffer.py"
TECHNIQUE = "concrete interpretation of publisher, filters, history over all short histories"
EXPLANATION = (
    "All three anchored classes are interpreted from their AST (private helpers and module functions followed) against recording "
    "observer models and compared with the specification. LogPublisher: every history of <= 4 addObserver / removeObserver calls "
    "over two healthy and two raising observers (states de-duplicated); in every reached state a plain and a traced event are "
    "published and the global journal must be: each registered observer exactly once in registration order with the event itself, "
    "then, per raising observer, a failure event (OBSERVER_DISABLED, its Failure, observer=it) to every other observer, recursively; "
    "log_trace must list (publisher, observer) per delivery; constructor order, non-callable rejection. LogLevelFilterPredicate: "
    "every history of length <= 5 of set / clear / query on a three-namespace prefix chain with two levels against the "
    "most-specific-configured-prefix oracle, and __call__ == `no` exactly when eventLevel < that level. shouldLogEvent / "
    "FilteringLogObserver: all predicate-result sequences of length <= 3 (first yes/no decides, predicates asked in order and no "
    "further, invalid result raises, wrapped vs negative observer, trace). LimitedHistoryLogObserver: sizes 1, 2, 3, None, default "
    "x 6 events, two replays after each event must both yield the last N events oldest first. Not decided: observer lists mutated "
    "during dispatch, behaviour of twisted.logger.Logger beyond failure() emitting one event to its observer (modelled)."
)
ASSUMPTIONS = [
    "observers are called synchronously; BaseException (KeyboardInterrupt, SystemExit) deliberately propagates",
    "LogLevel constants are ordered by severity (NamedConstant ordering)",
]
QO = "twisted.logger._observer.LogPublisher."
QF = "twisted.logger._filter."
QB = "twisted.logger._buffer.LimitedHistoryLogObserver."


# ---- models of the collaborators (python objects driven by the interpreted code) -----------------------------------------
class _Boom(Exception):
    """Raised by the failing observers: caught by `except Exception` / BaseException only."""


class _Rec:
    """A log observer model: records (its name, the event object) in a shared journal, optionally raises."""

    def __init__(self, name, journal, raises=False):
        self.name, self.journal, self.raises = name, journal, raises

    def __call__(self, event):
        self.journal.append((self, event))
        if self.raises:
            raise _Boom(self.name)

    def __repr__(self):
        return f"<{self.name}>"


class _FailureModel:
    def __init__(self):
        import sys
        self.value = sys.exc_info()[1]


class _LoggerModel:
    """twisted.logger.Logger as far as LogPublisher uses it: failure(format, failure, **kw) emits one event to its observer."""

    def __init__(self, namespace=None, source=None, observer=None):
        self.observer = observer

    def failure(self, format, failure=None, level=None, **kwargs):
        event = dict(kwargs)
        event.update(log_format=format, log_failure=failure, log_level="critical")
        self.observer(event)

    def __repr__(self):
        return "<Logger>"


def _publisher_interp(ctx):
    mod = ctx.mod(OBS)
    it = Interp({}, budget=4000000)
    it.load(mod)
    it.globals.update({"Failure": _FailureModel, "Logger": _LoggerModel, "implementer": lambda *a: (lambda x: x)})
    ctx.need("LogPublisher" in it.globals, "class LogPublisher")
    for meth in ("__call__", "addObserver", "removeObserver"):
        ctx.func(OBS, f"LogPublisher.{meth}")
    return it


def check_publisher(ctx):
    """LogPublisher interpreted over every history (<= 4 operations) of addObserver / removeObserver, with an event
    published in every reached state; the journal of deliveries is compared with the specification."""
    import copy
    it = _publisher_interp(ctx)
    q = "twisted.logger._observer.LogPublisher"
    disabled = it.globals.get("OBSERVER_DISABLED")
    journal = []
    obs = {"A": _Rec("A", journal), "B": _Rec("B!", journal, True), "C": _Rec("C", journal), "D": _Rec("D!", journal, True)}

    def spec(listed, tag, out):
        """every observer once, in order, the broken ones reported afterwards to all the others"""
        broken = []
        for o in listed:
            out.append((o.name, tag))
            if o.raises:
                broken.append(o)
        for b in broken:
            spec([x for x in listed if x is not b], ("failure of", b.name), out)

    def observed(root_event):
        out = []
        for o, ev in journal:
            if ev is root_event:
                out.append((o.name, "event"))
            else:
                f = ev.get("log_failure") if isinstance(ev, dict) else None
                about = ev.get("observer") if isinstance(ev, dict) else None
                ok = isinstance(f, _FailureModel) and isinstance(f.value, _Boom) and isinstance(about, _Rec) and f.value.args == (about.name,) \
                    and ev.get("log_format") == disabled
                out.append((o.name, ("failure of", about.name) if ok else ("unexpected event", repr(ev)[:80])))
        return out

    def clone(p):
        p2 = copy.copy(p)
        object.__setattr__(p2, "attrs", {k: (list(v) if isinstance(v, list) else v) for k, v in p.attrs.items()})
        return p2

    def attempt(fn):
        try:
            fn()
            return None
        except Nonterminating:
            return "does not terminate"
        except AnalysisError:
            raise
        except BaseException as e:
            return f"raises {type(e).__name__}({e})"
    problems = {}
    per_list = {}

    def note(kind, hist, text):
        problems.setdefault(kind, (hist, text))
        if kind in ("delivery", "failure-reports"):
            per_list.setdefault((kind, cur[0]), (hist, text))
    cur = [()]
    start = it.globals["LogPublisher"]()
    seen = set()
    lists_seen = set()
    frontier = [(start, (), ())]
    n_states = 0
    for depth in range(0, 5):
        nxt = []
        for pub, listed, hist in frontier:
            key = (tuple(o.name for o in listed), freeze({k: v for k, v in pub.attrs.items() if k != "log"}))
            if key in seen:
                continue
            seen.add(key)
            n_states += 1
            cur[0] = tuple(o.name for o in listed)
            lists_seen.add(cur[0])
            # publish a plain event and a traced one
            for traced in (False, True):
                ev = {"n": 1, "log_trace": []} if traced else {"n": 1}
                del journal[:]
                p2 = clone(pub)
                err = attempt(lambda: it.getattr_(p2, "__call__")(ev))
                want = []
                spec(list(listed), "event", want)
                got = observed(ev)
                if err is not None:
                    note("delivery", hist, f"publishing an event {err}")
                elif [g for g in got if g[1] == "event"] != [w for w in want if w[1] == "event"]:
                    note("delivery", hist, f"observers {[o.name for o in listed]} received the event as {[g[0] for g in got if g[1] == 'event']}: every observer must get it exactly "
                                           "once, in registration order, whether or not others raise")
                elif got != want:
                    note("failure-reports", hist, f"deliveries {got} differ from {want}: each failure must be reported, after the event reached everyone, to every other observer")
                if traced and err is None:
                    tr = ev["log_trace"]
                    ok = len(tr) == len(listed) and all(isinstance(x, tuple) and len(x) == 2 and x[0] is p2 and x[1] is o for x, o in zip(tr, listed))
                    if not ok:
                        note("trace", hist, f"log_trace records {[(repr(x[1]) if isinstance(x, tuple) and len(x) == 2 else x) for x in tr]} for observers {[o.name for o in listed]}")
            if depth == 4:
                continue
            for name, o in obs.items():
                p2 = clone(pub)
                err = attempt(lambda: it.getattr_(p2, "addObserver")(o))
                if err is not None:
                    note("registration", hist + (f"add {name}",), f"addObserver {err}")
                else:
                    nxt.append((p2, listed if o in listed else listed + (o,), hist + (f"add {o.name}",)))
                p3 = clone(pub)
                err = attempt(lambda: it.getattr_(p3, "removeObserver")(o))
                if err is not None:
                    note("registration", hist + (f"remove {name}",), f"removeObserver {err}")
                else:
                    nxt.append((p3, tuple(x for x in listed if x is not o), hist + (f"remove {o.name}",)))
        frontier = nxt
    # a publisher constructed with observers
    del journal[:]
    p0 = it.globals["LogPublisher"](obs["C"], obs["A"])
    ev = {"n": 2}
    err = attempt(lambda: it.getattr_(p0, "__call__")(ev))
    if err is not None or observed(ev) != [("C", "event"), ("A", "event")]:
        note("registration", ("LogPublisher(C, A)",), f"constructor observers are not served in the order given ({err or observed(ev)})")
    err = attempt(lambda: it.getattr_(p0, "addObserver")(5))
    if err is None or "TypeError" not in err:
        note("registration", ("addObserver(5)",), "a non-callable observer is accepted")
    labels = {"delivery": ("publisher/delivery", "every observer receives each event exactly once in registration order, even when others raise"),
              "failure-reports": ("publisher/failure-reports", "failures are reported after the fan-out to every other observer"),
              "registration": ("publisher/registration", "addObserver appends once, removeObserver removes, order is kept"),
              "trace": ("publisher/trace", "log_trace records (publisher, observer) per delivery")}
    for kind, (rule, what) in labels.items():
        if kind in ("delivery", "failure-reports"):
            for names in sorted(lists_seen):
                b = per_list.get((kind, names))
                ctx.check(b is None, rule, f"{q} | observers registered: [{', '.join(names)}]", (f"after [{' ; '.join(b[0])}]: {b[1]}" if b else ""), detail=what)
            continue
        b = problems.get(kind)
        ctx.check(b is None, rule, f"{q} | {what}", (f"after [{' ; '.join(b[0])}]: {b[1]}" if b else ""), detail=f"{n_states} publisher states explored")
    # the same journal discrimination per operation for mutant naming is not needed: the history is the witness
    ctx.extra["publisher_states_explored"] = n_states


def check_filtering(ctx):
    """shouldLogEvent and FilteringLogObserver interpreted over all predicate-result sequences of length <= 3."""
    import functools
    import itertools
    import types
    mod = ctx.mod(FIL)
    it = Interp({}, budget=2000000)
    it.load(mod)
    res = types.SimpleNamespace(yes="yes", no="no", maybe="maybe")
    it.globals.update({"PredicateResult": res, "partial": functools.partial, "implementer": lambda *a: (lambda x: x),
                       "LogLevel": types.SimpleNamespace(info=1), "bitbucketLogObserver": lambda event: None})
    ctx.func(FIL, "shouldLogEvent")
    ctx.func(FIL, "FilteringLogObserver.__call__")
    qs = QF + "shouldLogEvent"
    qo = QF + "FilteringLogObserver"
    bad_s = bad_o = bad_t = None
    n = 0
    for k in range(0, 4):
        for seq in itertools.product(("yes", "no", "maybe"), repeat=k):
            asked = []
            preds = [(lambda ev, r=r, i=i: (asked.append(i), r)[1]) for i, r in enumerate(seq)]
            decisive = next((i for i, r in enumerate(seq) if r != "maybe"), None)
            want = True if decisive is None else seq[decisive] == "yes"
            want_asked = list(range(len(seq) if decisive is None else decisive + 1))
            event = {"n": 1}
            try:
                got = it.globals["shouldLogEvent"](preds, event)
            except Exception as e:
                got = f"raises {type(e).__name__}"
            n += 1
            if (got is not want or asked != want_asked) and bad_s is None:
                bad_s = (seq, got, asked)
            journal = []
            pos, neg = _Rec("wrapped", journal), _Rec("negative", journal)
            for traced in (False, True):
                del journal[:]
                del asked[:]
                ev = {"n": 2, "log_trace": []} if traced else {"n": 2}
                try:
                    flt = it.globals["FilteringLogObserver"](pos, preds, neg)
                    it.getattr_(flt, "__call__")(ev)
                    got2 = [(o.name, e is ev) for o, e in journal]
                except Exception as e:
                    got2 = f"raises {type(e).__name__}: {e}"
                    flt = None
                if got2 != [("wrapped" if want else "negative", True)] and bad_o is None:
                    bad_o = (seq, got2)
                if traced and flt is not None and want and bad_t is None:
                    tr = ev["log_trace"]
                    if not (len(tr) == 1 and tr[0][0] is flt and tr[0][1] is pos):
                        bad_t = (seq, tr)
    try:
        it.globals["shouldLogEvent"]([lambda ev: "bogus"], {})
        invalid = "accepted"
    except TypeError:
        invalid = None
    except Exception as e:
        invalid = f"raises {type(e).__name__}"
    ctx.check(bad_s is None, "filter/predicate-verdicts", qs,
              (f"predicate results {bad_s[0]} give {bad_s[1]!r} after asking predicates {bad_s[2]}: the first yes/no decides, only maybe consults the next, none means log" if bad_s else ""),
              detail=f"{n} result sequences")
    ctx.check(invalid is None, "filter/predicate-verdicts", qs + " | invalid result", f"a result that is not a PredicateResult is {invalid} instead of raising TypeError")
    ctx.check(bad_o is None, "filter/forwards-iff-should-log", qo + ".__call__",
              (f"with predicate results {bad_o[0]} the event goes to {bad_o[1]}: the wrapped observer gets it exactly when shouldLogEvent says so, otherwise the negative observer" if bad_o else ""))
    ctx.check(bad_t is None, "filter/forwards-iff-should-log", qo + ".__call__ | log_trace",
              (f"log_trace after forwarding is {bad_t[1]}" if bad_t else ""))


def check_buffer(ctx):
    """LimitedHistoryLogObserver interpreted: after each of 6 events, two replays must each yield the last N in order."""
    import collections
    mod = ctx.mod(BUF)
    it = Interp({}, budget=1000000)
    it.load(mod)
    it.globals.update({"deque": collections.deque, "implementer": lambda *a: (lambda x: x)})
    ctx.func(BUF, "LimitedHistoryLogObserver.replayTo")
    q = "twisted.logger._buffer.LimitedHistoryLogObserver"
    bad = None
    for size in (1, 2, 3, None, "default"):
        try:
            h = it.globals["LimitedHistoryLogObserver"]() if size == "default" else it.globals["LimitedHistoryLogObserver"](size)
        except Exception as e:
            bad = bad or (size, 0, f"constructor raises {type(e).__name__}: {e}", "")
            continue
        events = []
        for i in range(1, 7):
            ev = {"n": i}
            events.append(ev)
            try:
                it.getattr_(h, "__call__")(ev)
                want = events if size in (None, "default") else events[-size:]
                for attempt in (1, 2):
                    got = []
                    it.getattr_(h, "replayTo")(got.append)
                    if not (len(got) == len(want) and all(a is b for a, b in zip(got, want))) and bad is None:
                        bad = (size, i, [g.get("n") if isinstance(g, dict) else g for g in got], f"replay #{attempt}, expected {[w['n'] for w in want]}")
            except Nonterminating:
                bad = bad or (size, i, "does not terminate", "")
            except Exception as e:
                bad = bad or (size, i, f"raises {type(e).__name__}: {e}", "")
    ctx.check(bad is None, "history/last-n-in-order", q,
              (f"LimitedHistoryLogObserver({bad[0]}) after {bad[1]} events replays {bad[2]} ({bad[3]}): every replay must yield exactly the last N events, oldest first" if bad else ""),
              detail="sizes 1, 2, 3, None, default x 6 events x 2 replays")
    d = it.globals.get("_DEFAULT_BUFFER_MAXIMUM")
    ctx.check(isinstance(d, int) and d >= 1, "history/last-n-in-order", q + " | default size", f"default buffer size is {d!r}")


def _freeze_obj(o):
    return freeze(o.attrs)


def check_filter_histories(ctx):
    """Concrete interpretation of LogLevelFilterPredicate over every short history of set / clear / query."""
    import copy
    import types
    mod = ctx.mod(FIL)
    q = QF + "LogLevelFilterPredicate.logLevelForNamespace"
    qc = QF + "LogLevelFilterPredicate.__call__"

    class InvalidLogLevelError(Exception):
        pass
    levels = types.SimpleNamespace(debug=0, info=1, warn=2, iterconstants=lambda: [0, 1, 2])
    results = types.SimpleNamespace(yes="yes", no="no", maybe="maybe")
    it = Interp({"LogLevel": levels, "InvalidLogLevelError": InvalidLogLevelError, "PredicateResult": results}, budget=3000000)
    it.load(mod, only={"LogLevelFilterPredicate"})
    ctx.need("LogLevelFilterPredicate" in it.globals, "class LogLevelFilterPredicate")
    cls = it.globals["LogLevelFilterPredicate"]
    for meth in ("logLevelForNamespace", "setLogLevelForNamespace", "clearLogLevels", "__call__"):
        ctx.func(FIL, f"LogLevelFilterPredicate.{meth}")
    obj0 = cls()
    default = 1
    chain = ["a", "a.b", "a.b.c"]
    queries = ["", "a", "a.b", "a.b.c", "a.b.c.d", "ab"]
    ops = [("set", ns, lv) for ns in [""] + chain for lv in (0, 2)] + [("clear",)] + [("query", ns) for ns in queries]

    def oracle(conf, ns):
        if not ns:
            return conf[""]
        parts = ns.split(".")
        for n in range(len(parts), 0, -1):
            p = ".".join(parts[:n])
            if p in conf:
                return conf[p]
        return conf[""]

    def clone(o):
        o2 = copy.copy(o)
        o2.attrs = copy.deepcopy(o.attrs)
        return o2

    def call(o, meth, *args):
        try:
            return it.getattr_(o, meth)(*args)
        except Nonterminating:
            return "does not terminate"
        except (KeyError, IndexError, TypeError, ValueError, AttributeError) as e:
            return f"raises {type(e).__name__}: {e}"
    bad_q, bad_c = {}, {}
    start = (obj0, {"": default}, ())
    seen = {(_freeze_obj(obj0), freeze(start[1]))}
    frontier = [start]
    n_hist = n_eval = 0
    for depth in range(0, 5):
        nxt = []
        for o, conf, hist in frontier:
            n_hist += 1
            # decisions of __call__ in this state (evaluated on copies)
            for ns in chain + ["a.b.c.d"]:
                for lv in (0, 1, 2):
                    got = call(clone(o), "__call__", {"log_level": lv, "log_namespace": ns})
                    n_eval += 1
                    want = "no" if lv < oracle(conf, ns) else "maybe"
                    if got != want:
                        bad_c.setdefault(ns, (hist, lv, oracle(conf, ns), got))
            for op in ops:
                o2, conf2 = clone(o), dict(conf)
                if op[0] == "set":
                    r = call(o2, "setLogLevelForNamespace", op[1], op[2])
                    conf2[op[1]] = op[2]
                    if r is not None:
                        bad_q.setdefault(op[1], (hist + (op,), "-", r))
                elif op[0] == "clear":
                    r = call(o2, "clearLogLevels")
                    conf2 = {"": default}
                    if r is not None:
                        bad_q.setdefault("<clear>", (hist + (op,), "-", r))
                else:
                    got = call(o2, "logLevelForNamespace", op[1])
                    n_eval += 1
                    want = oracle(conf, op[1])
                    if got != want:
                        bad_q.setdefault(op[1], (hist + (op,), want, got))
                        continue
                key = (_freeze_obj(o2), freeze(conf2))
                if key not in seen and depth < 4:
                    seen.add(key)
                    nxt.append((o2, conf2, hist + (op,)))
        frontier = nxt

    def show(h):
        return " ; ".join(f"set({x[1]!r},{x[2]})" if x[0] == "set" else ("clear()" if x[0] == "clear" else f"query({x[1]!r})") for x in h)
    for ns in queries:
        b = bad_q.get(ns)
        ctx.check(b is None, "filter/most-specific-prefix", f"{q} | namespace={ns!r}",
                  (f"after {show(b[0])} the level for {ns!r} must be that of its most specific configured prefix ({b[1]}) but the lookup yields {b[2]!r}" if b else ""),
                  detail="all histories of length <= 5 agree with the most-specific-configured-prefix oracle")
    for k in ("<clear>",):
        if k in bad_q:
            ctx.violation("filter/most-specific-prefix", f"{q} | {k}", f"configuration call fails: {bad_q[k][2]} after {show(bad_q[k][0])}")
    for ns in chain + ["a.b.c.d"]:
        b = bad_c.get(ns)
        ctx.check(b is None, "filter/level-decision", f"{qc} | namespace={ns!r}",
                  (f"after {show(b[0])} an event of level {b[1]} in {ns!r} (configured threshold {b[2]}) is answered {b[3]!r}; it must be "
                   f"{'no' if b[1] < b[2] else 'maybe'} (pass exactly when eventLevel >= threshold)" if b else ""),
                  detail="decision == (eventLevel >= most specific configured level) in every explored state")
    ctx.extra["filter_states_explored"] = len(seen)
    ctx.extra["filter_evaluations"] = n_eval


def check(ctx):
    with ctx.section("LogPublisher"):
        check_publisher(ctx)
    with ctx.section("LogLevelFilterPredicate histories"):
        check_filter_histories(ctx)
    with ctx.section("shouldLogEvent / FilteringLogObserver"):
        check_filtering(ctx)
    with ctx.section("LimitedHistoryLogObserver"):
        check_buffer(ctx)


# a memo of resolved prefix lookups added to LogLevelFilterPredicate (shared by a mutant and a silent variant)
_E_INIT = (FIL, "        self._logLevelsByNamespace: Dict[str, NamedConstant] = {}\n        self.defaultLogLevel",
           "        self._logLevelsByNamespace: Dict[str, NamedConstant] = {}\n        self._memo: Dict[str, NamedConstant] = {}\n        self.defaultLogLevel")
_E_LOOKUP_OLD = ("        segments = namespace.split(\".\")\n        index = len(segments) - 1\n\n        while index > 0:\n            namespace = \".\".join(segments[:index])\n"
                 "            if namespace in self._logLevelsByNamespace:\n                return self._logLevelsByNamespace[namespace]\n            index -= 1\n\n"
                 "        return self._logLevelsByNamespace[\"\"]\n")
_E_LOOKUP_NEW = ("        if namespace in self._memo:\n            return self._memo[namespace]\n        found = self._logLevelsByNamespace[\"\"]\n"
                 "        segments = namespace.split(\".\")\n        for index in range(len(segments) - 1, 0, -1):\n            prefix = \".\".join(segments[:index])\n"
                 "            if prefix in self._logLevelsByNamespace:\n                found = self._logLevelsByNamespace[prefix]\n                break\n"
                 "        self._memo[namespace] = found\n        return found\n")
_E_CLEAR = (FIL, "        self._logLevelsByNamespace.clear()\n", "        self._logLevelsByNamespace.clear()\n        self._memo.clear()\n")
_E_SET_OLD = "        if namespace:\n            self._logLevelsByNamespace[namespace] = level\n        else:\n            self._logLevelsByNamespace[\"\"] = level\n"
_E_SET_STALE = ("        if namespace:\n            self._logLevelsByNamespace[namespace] = level\n            self._memo.pop(namespace, None)\n"
                "        else:\n            self._logLevelsByNamespace[\"\"] = level\n            self._memo.clear()\n")
_E_SET_FLUSH = "        self._memo.clear()\n" + _E_SET_OLD

MUTANTS = [
    Mutant("observer-call-outside-try", OBS, "            try:\n                observer(event)\n            except Exception:\n                brokenObservers.append((observer, Failure()))\n",
           "            observer(event)\n", expect_rule="publisher/delivery"),
    Mutant("handler-narrowed-to-valueerror", OBS, "            except Exception:\n                brokenObservers.append", "            except ValueError:\n                brokenObservers.append",
           expect_rule="publisher/delivery"),
    Mutant("reversed-iteration", OBS, "        for observer in self._observers:\n            if trace", "        for observer in reversed(self._observers):\n            if trace",
           expect_rule="publisher/delivery"),
    Mutant("report-to-the-broken-observer", OBS, "if obs is not observer)", "if obs is observer)", expect_rule="publisher/"),
    Mutant("report-inside-loop", OBS, "                brokenObservers.append((observer, Failure()))\n\n        for brokenObserver, failure in brokenObservers:\n            errorLogger = self._errorLoggerForObserver(brokenObserver)\n            errorLogger.failure(\n                OBSERVER_DISABLED,\n                failure=failure,\n                observer=brokenObserver,\n            )\n",
           "                brokenObservers.append((observer, Failure()))\n\n            for brokenObserver, failure in brokenObservers:\n                errorLogger = self._errorLoggerForObserver(brokenObserver)\n                errorLogger.failure(\n                    OBSERVER_DISABLED,\n                    failure=failure,\n                    observer=brokenObserver,\n                )\n            del brokenObservers[:]\n",
           expect_rule="publisher/failure-reports"),
    Mutant("stop-after-first-failure", OBS, "                brokenObservers.append((observer, Failure()))\n\n        for brokenObserver", "                brokenObservers.append((observer, Failure()))\n                break\n\n        for brokenObserver",
           expect_rule="publisher/"),
    Mutant("add-observer-at-front", OBS, "            self._observers.append(observer)", "            self._observers.insert(0, observer)", expect_rule="publisher/"),
    Mutant("add-observer-without-dedupe", OBS, "        if observer not in self._observers:\n            self._observers.append(observer)", "        self._observers.append(observer)",
           expect_rule="publisher/"),
    Mutant("failure-not-recorded", OBS, "                brokenObservers.append((observer, Failure()))\n", "                pass\n", expect_rule="publisher/failure-reports"),
    Mutant("filter-le", FIL, "        if eventLevel < namespaceLevel:", "        if eventLevel <= namespaceLevel:", expect_rule="filter/level-decision"),
    Mutant("filter-operands-swapped", FIL, "        if eventLevel < namespaceLevel:", "        if namespaceLevel < eventLevel:", expect_rule="filter/level-decision"),
    Mutant("prefix-loop-counts-up", FIL, "        index = len(segments) - 1\n\n        while index > 0:\n            namespace = \".\".join(segments[:index])\n            if namespace in self._logLevelsByNamespace:\n                return self._logLevelsByNamespace[namespace]\n            index -= 1\n",
           "        index = 1\n\n        while index < len(segments):\n            namespace = \".\".join(segments[:index])\n            if namespace in self._logLevelsByNamespace:\n                return self._logLevelsByNamespace[namespace]\n            index += 1\n",
           expect_rule="filter/most-specific-prefix"),
    Mutant("prefix-loop-skips-top-package", FIL, "        while index > 0:", "        while index > 1:", expect_rule="filter/most-specific-prefix"),
    Mutant("prefix-loop-starts-one-short", FIL, "        index = len(segments) - 1\n", "        index = len(segments) - 2\n", expect_rule="filter/most-specific-prefix"),
    Mutant("prefix-exact-match-dropped", FIL, "        if namespace in self._logLevelsByNamespace:\n            return self._logLevelsByNamespace[namespace]\n\n        segments", "        segments",
           expect_rule="filter/most-specific-prefix"),
    Mutant("prefix-decrement-dropped", FIL, "                return self._logLevelsByNamespace[namespace]\n            index -= 1\n", "                return self._logLevelsByNamespace[namespace]\n            index -= 0\n",
           expect_rule="filter/most-specific-prefix"),
    Mutant("prefix-memo-keeps-descendants-stale", FIL, _E_LOOKUP_OLD, _E_LOOKUP_NEW, expect_rule="filter/most-specific-prefix",
           more=[_E_INIT, _E_CLEAR, (FIL, _E_SET_OLD, _E_SET_STALE)]),
    Mutant("verdicts-swapped", FIL, "        if result == PredicateResult.yes:\n            return True\n        if result == PredicateResult.no:\n            return False\n",
           "        if result == PredicateResult.yes:\n            return False\n        if result == PredicateResult.no:\n            return True\n", expect_rule="filter/predicate-verdicts"),
    Mutant("replay-drains-history", BUF, "        for event in self._buffer:\n            otherObserver(event)", "        while self._buffer:\n            otherObserver(self._buffer.popleft())",
           expect_rule="history/"),
    Mutant("remove-observer-swaps-with-last", OBS, "        try:\n            self._observers.remove(observer)\n        except ValueError:\n            pass\n",
           "        try:\n            i = self._observers.index(observer)\n        except ValueError:\n            return\n        self._observers[i] = self._observers[-1]\n        del self._observers[-1]\n",
           expect_rule="publisher/"),
    Mutant("history-appendleft", BUF, "        self._buffer.append(event)", "        self._buffer.appendleft(event)", expect_rule="history/"),
    Mutant("history-replay-reversed", BUF, "        for event in self._buffer:", "        for event in reversed(self._buffer):", expect_rule="history/"),
    Mutant("history-maxlen-off-by-one", BUF, "deque(maxlen=size)", "deque(maxlen=size and size - 1)", expect_rule="history/"),
]
SILENT = [
    Silent("filter-comparison-rewritten", FIL, "        if eventLevel < namespaceLevel:\n            return PredicateResult.no\n\n        return PredicateResult.maybe",
           "        if not namespaceLevel > eventLevel:\n            return PredicateResult.maybe\n        return PredicateResult.no"),
    Silent("prefix-loop-as-for-range", FIL, "        index = len(segments) - 1\n\n        while index > 0:\n            namespace = \".\".join(segments[:index])\n            if namespace in self._logLevelsByNamespace:\n                return self._logLevelsByNamespace[namespace]\n            index -= 1\n",
           "        for index in range(len(segments) - 1, 0, -1):\n            namespace = \".\".join(segments[:index])\n            if namespace in self._logLevelsByNamespace:\n                return self._logLevelsByNamespace[namespace]\n"),
    Silent("prefix-loop-down-to-zero", FIL, "        while index > 0:", "        while index >= 0:"),
    Silent("publisher-renamed-locals", OBS, "        for observer in self._observers:\n            if trace is not None:\n                trace(observer)\n\n            try:\n                observer(event)\n            except Exception:\n                brokenObservers.append((observer, Failure()))\n",
           "        for obs in self._observers:\n            if trace is not None:\n                trace(obs)\n            try:\n                obs(event)\n            except BaseException:\n                brokenObservers.append((obs, Failure()))\n"),
    Silent("prefix-memo-flushed-on-every-change", FIL, _E_LOOKUP_OLD, _E_LOOKUP_NEW, more=[_E_INIT, _E_CLEAR, (FIL, _E_SET_OLD, _E_SET_FLUSH)]),
    Silent("level-decision-as-conditional-expression", FIL, "        if eventLevel < namespaceLevel:\n            return PredicateResult.no\n\n        return PredicateResult.maybe",
           "        return PredicateResult.no if eventLevel < namespaceLevel else PredicateResult.maybe"),
    Silent("remove-observer-tests-membership", OBS, "        try:\n            self._observers.remove(observer)\n        except ValueError:\n            pass\n",
           "        if observer in self._observers:\n            self._observers.remove(observer)\n"),
    Silent("failure-reporting-in-private-method", OBS, "        for brokenObserver, failure in brokenObservers:\n            errorLogger = self._errorLoggerForObserver(brokenObserver)\n            errorLogger.failure(\n                OBSERVER_DISABLED,\n                failure=failure,\n                observer=brokenObserver,\n            )\n",
           "        self._tellOthers(brokenObservers)\n\n    def _tellOthers(self, broken):\n        for culprit, why in broken:\n            self._errorLoggerForObserver(culprit).failure(OBSERVER_DISABLED, failure=why, observer=culprit)\n"),
    Silent("error-publisher-built-by-explicit-loop", OBS, "        errorPublisher = LogPublisher(\n            *(obs for obs in self._observers if obs is not observer)\n        )\n",
           "        others = []\n        for each in self._observers:\n            if each is observer:\n                continue\n            others.append(each)\n        errorPublisher = LogPublisher(*others)\n"),
    Silent("replay-through-module-helper", BUF, "        for event in self._buffer:\n            otherObserver(event)", "        _each(self._buffer, otherObserver)\n\n\ndef _each(items, sink):\n    for item in items:\n        sink(item)"),
    Silent("level-stored-under-computed-key", FIL, _E_SET_OLD, "        where = namespace or \"\"\n        self._logLevelsByNamespace[where] = level\n"),
    Silent("history-positional-deque", BUF, "deque(maxlen=size)", "deque([], size)"),
]
