"""C57 - Log observers receive every event; filters honour namespace hierarchy."""
from __future__ import annotations

import ast

from sa.astx import call_name, dotted, src, walk_local
from sa.effects import class_accesses
from sa.selftest import Mutant, Silent
from sa.props._lib_k import LEVELS, Interp, Nonterminating, freeze, protection

PROPERTY = "C57"
OBS = "logger/_observer.py"
FIL = "logger/_filter.py"
BUF = "logger/_buffer.py"
TECHNIQUE = "CFG path rules, who-may-write, concrete interpretation of filter over short histories"
EXPLANATION = (
    "LogPublisher.__call__: every observer(event) call-out of the fan-out loop lies in a try whose handler stops Exception "
    "without re-raising and records (observer, Failure()); exactly one call per iteration, the loop walks self._observers "
    "forward and cannot be left early; _observers is only appended to (de-duplicated), removed from or rebuilt from the "
    "constructor arguments; failures are reported only after the fan-out loop, once each, through a publisher built from every "
    "observer except (identity) the broken one. LogLevelFilterPredicate: the class is interpreted concretely (instance attributes from __init__ carried "
    "across calls) over every history of length <= 5 of setLogLevelForNamespace / clearLogLevels / logLevelForNamespace on a prefix "
    "chain of three namespaces and two levels (states de-duplicated); every query must equal the most-specific-configured-prefix "
    "oracle computed from the configuration history alone and terminate, and in every explored state __call__ must answer `no` "
    "exactly when eventLevel < that level and `maybe` otherwise; set/clear write the table under the given key. shouldLogEvent / FilteringLogObserver route yes/no/maybe correctly. LimitedHistoryLogObserver: deque(maxlen=size), "
    "append at the right end, forward replay, one call per event. Not decided: observer lists mutated during dispatch, "
    "behaviour of observers themselves."
)
ASSUMPTIONS = [
    "observers are called synchronously; BaseException (KeyboardInterrupt, SystemExit) deliberately propagates",
    "LogLevel constants are ordered by severity (NamedConstant ordering)",
]
QO = "twisted.logger._observer.LogPublisher."
QF = "twisted.logger._filter."
QB = "twisted.logger._buffer.LimitedHistoryLogObserver."


def _is_self_attr(n, name):
    return isinstance(n, ast.Attribute) and n.attr == name and isinstance(n.value, ast.Name) and n.value.id == "self"


def _no_exc(a, b, l):
    return l != "exc"


def check_publisher(ctx):
    mod = ctx.mod(OBS)
    cls = ctx.cls(OBS, "LogPublisher")
    f = ctx.func(OBS, "LogPublisher.__call__")
    g = ctx.cfg(f)
    q = QO + "__call__"
    ev = f.args.args[1].arg
    loops = [n for n in walk_local(f) if isinstance(n, ast.For)]
    fan = [lp for lp in loops if _is_self_attr(lp.iter, "_observers")]
    ctx.check(len(fan) == 1, "publisher/forward-iteration", q,
              "the fan-out loop does not iterate self._observers itself, front to back (registration order)"
              if not fan else "more than one fan-out loop")
    if len(fan) != 1:
        # a loop over a transformed sequence: name it
        for lp in loops:
            if "_observers" in src(lp.iter):
                ctx.violation("publisher/forward-iteration", ctx.construct(q, lp.iter), "observers are visited through a transformed sequence, not in registration order")
        return
    lp = fan[0]
    ctx.need(isinstance(lp.target, ast.Name), "fan-out loop variable")
    ov = lp.target.id
    head = g.ids_of(lp)[0]
    calls = [c for c in ast.walk(lp) if isinstance(c, ast.Call) and isinstance(c.func, ast.Name) and c.func.id == ov]
    ctx.check(len(calls) == 1, "publisher/one-delivery-per-observer", q, f"{len(calls)} observer(...) call sites in the fan-out loop (must be exactly one)")
    for c in calls:
        k = ctx.construct(q, c)
        ctx.check(len(c.args) == 1 and src(c.args[0]) == ev and not c.keywords, "publisher/delivers-the-event", k, "the observer is not called with the event itself")
        lv = protection(c, f)
        ctx.check(LEVELS[lv] >= 1, "publisher/observer-failure-contained", k,
                  "an exception raised by one observer leaves the fan-out loop: the remaining observers never see the event",
                  detail=f"handler level {lv}")
        cid = g.ids_of(c)
        # each iteration makes the call: from the iteration start to the next head without the call
        starts = [d for d, l in g.succ[head] if l == "iter"]
        p = g.path([s for s in starts if s not in cid], [head, g.exit], avoid=cid, edge_ok=_no_exc)
        ctx.check(p is None, "publisher/one-delivery-per-observer", k + " | every iteration", "an observer can be skipped", witness=g.describe(p))
        p = g.path(cid, cid, avoid=[head], strict=True)
        ctx.check(p is None, "publisher/one-delivery-per-observer", k + " | not repeated", "an observer can receive the event twice", witness=g.describe(p))
    # the loop cannot be left other than by exhaustion (explicit raise / return / break inside it)
    body_nodes = [n.id for n in g.nodes if n.ast is not None and n.kind in ("stmt", "test", "handler") and any(n.ast is x for x in ast.walk(lp)) and g.reachable(n.id)]
    done = {d for d, l in g.succ[head] if l == "done"}
    p = g.path(body_nodes, [g.exit, g.raise_exit] + list(done), avoid=[head], edge_ok=_no_exc)
    ctx.check(p is None, "publisher/loop-runs-to-completion", q + " | fan-out loop", "the fan-out loop can be left before every observer was served",
              witness=g.describe(p))
    # handlers around the call: record the failure
    tries = [t for t in ast.walk(lp) if isinstance(t, ast.Try) and calls and any(x is calls[0] for b in t.body for x in ast.walk(b))]
    rec_list = None
    for t in tries:
        for h in t.handlers:
            apps = [c for b in h.body for c in ast.walk(b) if isinstance(c, ast.Call) and isinstance(c.func, ast.Attribute) and c.func.attr == "append"]
            ok = False
            for a in apps:
                if len(a.args) == 1 and isinstance(a.args[0], ast.Tuple) and len(a.args[0].elts) == 2 and src(a.args[0].elts[0]) == ov \
                        and isinstance(a.args[0].elts[1], ast.Call) and call_name(a.args[0].elts[1]) == "Failure" and not a.args[0].elts[1].args:
                    ok = True
                    rec_list = src(a.func.value)
            ctx.check(ok, "publisher/failure-recorded", ctx.construct(q, h.type if h.type is not None else "except:"),
                      "a failing observer is swallowed without (observer, Failure()) being recorded for the report")
    # report loop: after the fan-out loop, over the recorded list
    reps = [l2 for l2 in loops if l2 is not lp and rec_list is not None and src(l2.iter) == rec_list]
    ctx.check(len(reps) == 1, "publisher/failures-reported-after-loop", q + " | report loop",
              "the recorded failures are not reported by one loop over the list of broken observers")
    if len(reps) == 1:
        rp = reps[0]
        ctx.check(not any(x is rp for x in ast.walk(lp)), "publisher/failures-reported-after-loop", ctx.construct(q, rp.iter) + " | placement",
                  "failures are reported inside the fan-out loop (error events overtake the event being delivered)")
        rhead = g.ids_of(rp)[0]
        p = g.path([g.entry], [rhead], avoid=[head])
        ctx.check(p is None, "publisher/failures-reported-after-loop", q + " | report loop after fan-out", "the report loop can run without the fan-out", witness=g.describe(p))
        ctx.need(isinstance(rp.target, ast.Tuple) and len(rp.target.elts) == 2, "report loop unpacks (observer, failure)")
        bo, fl = src(rp.target.elts[0]), src(rp.target.elts[1])
        mk = [c for c in ast.walk(rp) if isinstance(c, ast.Call) and call_name(c) == "self._errorLoggerForObserver"]
        ctx.check(len(mk) == 1 and len(mk[0].args) == 1 and src(mk[0].args[0]) == bo, "publisher/report-excludes-broken-observer", q + " | _errorLoggerForObserver(...)",
                  "the error logger is not built for the broken observer of this record")
        fc = [c for c in ast.walk(rp) if isinstance(c, ast.Call) and isinstance(c.func, ast.Attribute) and c.func.attr == "failure"]
        okf = len(fc) == 1 and {k.arg: src(k.value) for k in fc[0].keywords}.get("failure") == fl
        ctx.check(okf, "publisher/failure-reported", q + " | errorLogger.failure(...)", "the recorded Failure is not what is reported")
        if fc:
            fid = g.ids_of(fc[0])
            st = [d for d, l in g.succ[rhead] if l == "iter"]
            p = g.path([s for s in st if s not in fid], [rhead, g.exit], avoid=fid, edge_ok=_no_exc)
            ctx.check(p is None, "publisher/failure-reported", q + " | every record", "a recorded failure can go unreported", witness=g.describe(p))
    # fan-out not after an early return
    ctx.check(g.must_pass([g.entry], [head], exc=False) is None, "publisher/loop-runs-to-completion", q + " | reached",
              "__call__ can return without fanning the event out", witness=g.describe(g.must_pass([g.entry], [head], exc=False)))

    # _errorLoggerForObserver: all observers but (identity) the broken one, in order
    e = ctx.func(OBS, "LogPublisher._errorLoggerForObserver")
    qe = QO + "_errorLoggerForObserver"
    par = e.args.args[1].arg
    gens = [n for n in ast.walk(e) if isinstance(n, (ast.GeneratorExp, ast.ListComp))]
    ok = False
    for gn in gens:
        if len(gn.generators) == 1 and _is_self_attr(gn.generators[0].iter, "_observers") and isinstance(gn.generators[0].target, ast.Name):
            v = gn.generators[0].target.id
            conds = gn.generators[0].ifs
            if src(gn.elt) == v and len(conds) == 1 and isinstance(conds[0], ast.Compare) and len(conds[0].ops) == 1 and isinstance(conds[0].ops[0], ast.IsNot) \
                    and {src(conds[0].left), src(conds[0].comparators[0])} == {v, par}:
                ok = True
    ctx.check(ok, "publisher/report-excludes-broken-observer", qe,
              "the error publisher is not exactly 'every registered observer that is not (identity) the broken one, in order': the failure is "
              "reported to the broken observer itself or withheld from healthy ones")
    pubs = [c for c in ast.walk(e) if isinstance(c, ast.Call) and call_name(c) == "LogPublisher"]
    ctx.check(len(pubs) == 1 and len(pubs[0].args) == 1 and isinstance(pubs[0].args[0], ast.Starred), "publisher/report-excludes-broken-observer", qe + " | LogPublisher(*...)",
              "the filtered observers are not handed to a fresh LogPublisher")
    rets = [r for r in ast.walk(e) if isinstance(r, ast.Return)]
    ctx.check(len(rets) == 1 and isinstance(rets[0].value, ast.Call) and call_name(rets[0].value) == "Logger"
              and any(k.arg == "observer" for k in rets[0].value.keywords), "publisher/report-excludes-broken-observer", qe + " | return Logger(observer=...)",
              "the error logger does not publish to the filtered publisher")

    # who may write _observers, and how
    acc = class_accesses(mod, cls, {"_observers"}, receivers={"self"})
    allowed = {("LogPublisher.__init__", "assign"), ("LogPublisher.addObserver", "append"), ("LogPublisher.removeObserver", "remove")}
    for a in acc:
        ctx.check((a.func, a.kind) in allowed, "publisher/registration-order-preserved", ctx.construct("twisted.logger._observer." + a.func, a.node),
                  f"self._observers is modified by '{a.kind}' in {a.func}: registration order / single registration is no longer an invariant")
    ctx.floor("publisher/registration-order-preserved", len(acc), 3)
    init = ctx.func(OBS, "LogPublisher.__init__")
    va = init.args.vararg.arg if init.args.vararg else None
    ia = [a for a in acc if a.func == "LogPublisher.__init__"]
    ctx.check(bool(ia) and va is not None and src(ia[0].node.value) == f"list({va})", "publisher/registration-order-preserved", QO + "__init__ | initial list",
              "the initial observer list is not list(observers)")
    add = ctx.func(OBS, "LogPublisher.addObserver")
    ga = ctx.cfg(add)
    op = add.args.args[1].arg
    for n in ga.find(lambda x: isinstance(x, ast.Call) and isinstance(x.func, ast.Attribute) and x.func.attr == "append" and _is_self_attr(x.func.value, "_observers")):
        c = next(x for x in walk_local(ga.node(n).ast) if isinstance(x, ast.Call) and getattr(x.func, "attr", "") == "append")
        ctx.check(len(c.args) == 1 and src(c.args[0]) == op, "publisher/registration-order-preserved", ctx.construct(QO + "addObserver", c), "something else than the observer is registered")
        ctx.check(ga.guarded(n, lambda t: src(t) == f"{op} in self._observers", False) or ga.guarded(n, lambda t: src(t) == f"{op} not in self._observers", True),
                  "publisher/single-registration", ctx.construct(QO + "addObserver", c),
                  "an observer can be registered twice and would then receive every event twice")


def _freeze_obj(o):
    return freeze(o.attrs)


def check_filter_histories(ctx):
    """Concrete interpretation of LogLevelFilterPredicate over every short history of set / clear / query."""
    import copy
    import types
    mod = ctx.mod(FIL)
    q = QF + "LogLevelFilterPredicate.logLevelForNamespace"
    qc = QF + "LogLevelFilterPredicate.__call__"

    class InvalidLogLevelError(Exception):
        pass
    levels = types.SimpleNamespace(debug=0, info=1, warn=2, iterconstants=lambda: [0, 1, 2])
    results = types.SimpleNamespace(yes="yes", no="no", maybe="maybe")
    it = Interp({"LogLevel": levels, "InvalidLogLevelError": InvalidLogLevelError, "PredicateResult": results}, budget=3000000)
    it.load(mod, only={"LogLevelFilterPredicate"})
    ctx.need("LogLevelFilterPredicate" in it.globals, "class LogLevelFilterPredicate")
    cls = it.globals["LogLevelFilterPredicate"]
    for meth in ("logLevelForNamespace", "setLogLevelForNamespace", "clearLogLevels", "__call__"):
        ctx.func(FIL, f"LogLevelFilterPredicate.{meth}")
    obj0 = cls()
    default = 1
    chain = ["a", "a.b", "a.b.c"]
    queries = ["", "a", "a.b", "a.b.c", "a.b.c.d", "ab"]
    ops = [("set", ns, lv) for ns in [""] + chain for lv in (0, 2)] + [("clear",)] + [("query", ns) for ns in queries]

    def oracle(conf, ns):
        if not ns:
            return conf[""]
        parts = ns.split(".")
        for n in range(len(parts), 0, -1):
            p = ".".join(parts[:n])
            if p in conf:
                return conf[p]
        return conf[""]

    def clone(o):
        o2 = copy.copy(o)
        o2.attrs = copy.deepcopy(o.attrs)
        return o2

    def call(o, meth, *args):
        try:
            return it.getattr_(o, meth)(*args)
        except Nonterminating:
            return "does not terminate"
        except (KeyError, IndexError, TypeError, ValueError, AttributeError) as e:
            return f"raises {type(e).__name__}: {e}"
    bad_q, bad_c = {}, {}
    start = (obj0, {"": default}, ())
    seen = {(_freeze_obj(obj0), freeze(start[1]))}
    frontier = [start]
    n_hist = n_eval = 0
    for depth in range(0, 5):
        nxt = []
        for o, conf, hist in frontier:
            n_hist += 1
            # decisions of __call__ in this state (evaluated on copies)
            for ns in chain + ["a.b.c.d"]:
                for lv in (0, 1, 2):
                    got = call(clone(o), "__call__", {"log_level": lv, "log_namespace": ns})
                    n_eval += 1
                    want = "no" if lv < oracle(conf, ns) else "maybe"
                    if got != want:
                        bad_c.setdefault(ns, (hist, lv, oracle(conf, ns), got))
            for op in ops:
                o2, conf2 = clone(o), dict(conf)
                if op[0] == "set":
                    r = call(o2, "setLogLevelForNamespace", op[1], op[2])
                    conf2[op[1]] = op[2]
                    if r is not None:
                        bad_q.setdefault(op[1], (hist + (op,), "-", r))
                elif op[0] == "clear":
                    r = call(o2, "clearLogLevels")
                    conf2 = {"": default}
                    if r is not None:
                        bad_q.setdefault("<clear>", (hist + (op,), "-", r))
                else:
                    got = call(o2, "logLevelForNamespace", op[1])
                    n_eval += 1
                    want = oracle(conf, op[1])
                    if got != want:
                        bad_q.setdefault(op[1], (hist + (op,), want, got))
                        continue
                key = (_freeze_obj(o2), freeze(conf2))
                if key not in seen and depth < 4:
                    seen.add(key)
                    nxt.append((o2, conf2, hist + (op,)))
        frontier = nxt

    def show(h):
        return " ; ".join(f"set({x[1]!r},{x[2]})" if x[0] == "set" else ("clear()" if x[0] == "clear" else f"query({x[1]!r})") for x in h)
    for ns in queries:
        b = bad_q.get(ns)
        ctx.check(b is None, "filter/most-specific-prefix", f"{q} | namespace={ns!r}",
                  (f"after {show(b[0])} the level for {ns!r} must be that of its most specific configured prefix ({b[1]}) but the lookup yields {b[2]!r}" if b else ""),
                  detail="all histories of length <= 5 agree with the most-specific-configured-prefix oracle")
    for k in ("<clear>",):
        if k in bad_q:
            ctx.violation("filter/most-specific-prefix", f"{q} | {k}", f"configuration call fails: {bad_q[k][2]} after {show(bad_q[k][0])}")
    for ns in chain + ["a.b.c.d"]:
        b = bad_c.get(ns)
        ctx.check(b is None, "filter/level-decision", f"{qc} | namespace={ns!r}",
                  (f"after {show(b[0])} an event of level {b[1]} in {ns!r} (configured threshold {b[2]}) is answered {b[3]!r}; it must be "
                   f"{'no' if b[1] < b[2] else 'maybe'} (pass exactly when eventLevel >= threshold)" if b else ""),
                  detail="decision == (eventLevel >= most specific configured level) in every explored state")
    ctx.extra["filter_states_explored"] = len(seen)
    ctx.extra["filter_evaluations"] = n_eval


def check_filter(ctx):
    cls = ctx.cls(FIL, "LogLevelFilterPredicate")
    mod = ctx.mod(FIL)
    # table writers
    acc = class_accesses(mod, cls, {"_logLevelsByNamespace"}, receivers={"self"})
    for a in acc:
        where = a.func.split(".")[-1]
        k = ctx.construct(QF + a.func, a.node)
        if a.kind == "setitem" and where == "setLogLevelForNamespace":
            s = ctx.func(FIL, "LogLevelFilterPredicate.setLogLevelForNamespace")
            pn, pl = s.args.args[1].arg, s.args.args[2].arg
            key = a.node.targets[0].slice
            okk = src(key) == pn or (isinstance(key, ast.Constant) and key.value == "")
            ctx.check(okk and src(a.node.value) == pl, "filter/table-written-under-namespace", k, "the level is stored under a different key / with a different value than given")
        elif a.kind == "setitem" and where == "clearLogLevels":
            key = a.node.targets[0].slice
            ctx.check(isinstance(key, ast.Constant) and key.value == "" and src(a.node.value) == "self.defaultLogLevel", "filter/table-written-under-namespace", k,
                      "clearLogLevels does not restore the default level under the '' key")
        elif a.kind == "clear" and where == "clearLogLevels":
            ctx.ok("filter/table-written-under-namespace", k)
        elif where == "__init__" and a.kind in ("assign", "rebind-empty"):
            ctx.ok("filter/table-written-under-namespace", k)
        else:
            ctx.violation("filter/table-written-under-namespace", k, f"unexpected '{a.kind}' of the namespace table in {a.func}")
    ctx.floor("filter/table-written-under-namespace", len(acc), 4)
    s = ctx.func(FIL, "LogLevelFilterPredicate.setLogLevelForNamespace")
    gs = ctx.cfg(s)
    pn = s.args.args[1].arg
    for n in gs.ids(lambda n: n.kind == "stmt" and isinstance(n.ast, ast.Assign) and isinstance(n.ast.targets[0], ast.Subscript)):
        key = gs.node(n).ast.targets[0].slice
        if src(key) == pn:
            continue
        ctx.check(gs.guarded(n, lambda t: src(t) == pn, False), "filter/table-written-under-namespace", ctx.construct(QF + "LogLevelFilterPredicate.setLogLevelForNamespace", gs.node(n).ast) + " | only for ''",
                  "a non-empty namespace is stored under the default key")

    # shouldLogEvent + FilteringLogObserver
    sh = ctx.func(FIL, "shouldLogEvent")
    g2 = ctx.cfg(sh)
    qs = QF + "shouldLogEvent"
    loops = [n for n in walk_local(sh) if isinstance(n, ast.For)]
    ctx.need(len(loops) == 1, "predicate loop of shouldLogEvent")
    lp = loops[0]
    head = g2.ids_of(lp)[0]

    def guard_eq(n, const, pol):
        return g2.guarded(n, lambda t: isinstance(t, ast.Compare) and len(t.ops) == 1 and isinstance(t.ops[0], (ast.Eq, ast.Is))
                          and (dotted(t.comparators[0]) or dotted(t.left) or "").endswith("PredicateResult." + const), pol)
    for r in g2.ids(lambda n: n.kind == "stmt" and isinstance(n.ast, ast.Return)):
        node = g2.node(r).ast
        inside = any(x is node for x in ast.walk(lp))
        v = node.value.value if isinstance(node.value, ast.Constant) else None
        if inside:
            ctx.check((v is True and guard_eq(r, "yes", True)) or (v is False and guard_eq(r, "no", True)), "filter/predicate-verdicts", ctx.construct(qs, node),
                      "a predicate verdict is mapped to the wrong decision (yes must log, no must drop)")
        else:
            ctx.check(v is True, "filter/predicate-verdicts", ctx.construct(qs, node) + " | default", "with only `maybe` answers the event must be logged")
    conts = g2.ids(lambda n: n.kind == "stmt" and isinstance(n.ast, ast.Continue))
    for cn in conts:
        ctx.check(guard_eq(cn, "maybe", True), "filter/predicate-verdicts", ctx.construct(qs, g2.node(cn).ast), "the next predicate is consulted after a verdict other than maybe")
    pc = [c for c in ast.walk(lp) if isinstance(c, ast.Call) and isinstance(c.func, ast.Name) and isinstance(lp.target, ast.Name) and c.func.id == lp.target.id]
    ctx.check(len(pc) == 1 and len(pc[0].args) == 1 and src(pc[0].args[0]) == sh.args.args[1].arg, "filter/predicate-verdicts", qs + " | predicate(event)",
              "each predicate is not asked exactly once about the event")

    fo = ctx.func(FIL, "FilteringLogObserver.__call__")
    g3 = ctx.cfg(fo)
    qo = QF + "FilteringLogObserver.__call__"
    e3 = fo.args.args[1].arg

    def is_should(t):
        return isinstance(t, ast.Call) and call_name(t) == "self._shouldLogEvent" and len(t.args) == 1 and src(t.args[0]) == e3
    pos = g3.find(lambda x: isinstance(x, ast.Call) and call_name(x) == "self._observer")
    neg = g3.find(lambda x: isinstance(x, ast.Call) and call_name(x) == "self._negativeObserver")
    ctx.check(bool(pos) and all(g3.guarded(n, is_should, True) for n in pos), "filter/forwards-iff-should-log", qo + " | self._observer(event)",
              "the wrapped observer is not called exactly under shouldLogEvent(event)")
    ctx.check(bool(neg) and all(g3.guarded(n, is_should, False) for n in neg), "filter/forwards-iff-should-log", qo + " | self._negativeObserver(event)",
              "the negative observer is not called exactly when shouldLogEvent(event) is false")
    w = g3.must_pass([g3.entry], set(pos) | set(neg), exc=False)
    ctx.check(w is None, "filter/forwards-iff-should-log", qo + " | every event routed", "an event can be routed to neither observer", witness=g3.describe(w))
    ini = ctx.func(FIL, "FilteringLogObserver.__init__")
    part = [c for c in ast.walk(ini) if isinstance(c, ast.Call) and call_name(c) == "partial"]
    ctx.check(len(part) == 1 and len(part[0].args) == 2 and src(part[0].args[0]) == "shouldLogEvent" and ini.args.args[2].arg in src(part[0].args[1]),
              "filter/forwards-iff-should-log", QF + "FilteringLogObserver.__init__ | partial(shouldLogEvent, ...)", "the decision function is not shouldLogEvent over the given predicates")


def check_buffer(ctx):
    mod = ctx.mod(BUF)
    cls = ctx.cls(BUF, "LimitedHistoryLogObserver")
    acc = class_accesses(mod, cls, {"_buffer"}, receivers={"self"})
    init = ctx.func(BUF, "LimitedHistoryLogObserver.__init__")
    size = init.args.args[1].arg
    for a in acc:
        k = ctx.construct("twisted.logger._buffer." + a.func, a.node)
        if a.func.endswith("__init__") and a.kind in ("assign", "rebind-empty"):
            v = a.node.value
            kws = {x.arg: x.value for x in v.keywords} if isinstance(v, ast.Call) else {}
            ok = isinstance(v, ast.Call) and call_name(v) in ("deque", "collections.deque") and \
                ((not v.args and "maxlen" in kws and src(kws["maxlen"]) == size) or (len(v.args) == 2 and src(v.args[1]) == size and isinstance(v.args[0], (ast.List, ast.Tuple)) and not v.args[0].elts))
            ctx.check(ok, "history/bounded-by-size", k, "the history is not an (initially empty) deque bounded by exactly `size`: more or fewer than the last N events are kept")
        elif a.func.endswith("__call__") and a.kind == "append":
            c = ctx.func(BUF, "LimitedHistoryLogObserver.__call__")
            ctx.check(len(a.node.args) == 1 and src(a.node.args[0]) == c.args.args[1].arg, "history/appends-at-the-end", k, "something else than the event is recorded")
        else:
            ctx.violation("history/appends-at-the-end", k, f"the history buffer is modified by '{a.kind}' in {a.func}: it no longer holds the last N events oldest-first")
    ctx.floor("history/writers", len(acc), 2)
    c = ctx.func(BUF, "LimitedHistoryLogObserver.__call__")
    g = ctx.cfg(c)
    app = g.find(lambda x: isinstance(x, ast.Call) and isinstance(x.func, ast.Attribute) and x.func.attr == "append" and _is_self_attr(x.func.value, "_buffer"))
    w = g.must_pass([g.entry], app, exc=False)
    ctx.check(bool(app) and w is None, "history/appends-at-the-end", QB + "__call__", "an event can be dropped without being recorded", witness=g.describe(w))
    r = ctx.func(BUF, "LimitedHistoryLogObserver.replayTo")
    gr = ctx.cfg(r)
    qr = QB + "replayTo"
    other = r.args.args[1].arg
    loops = [n for n in walk_local(r) if isinstance(n, ast.For)]
    ok = len(loops) == 1 and _is_self_attr(loops[0].iter, "_buffer") and isinstance(loops[0].target, ast.Name)
    ctx.check(ok, "history/replays-forward", qr, "replay does not walk the buffer itself front (oldest) to back (newest)")
    if ok:
        lp = loops[0]
        calls = [x for x in ast.walk(lp) if isinstance(x, ast.Call) and isinstance(x.func, ast.Name) and x.func.id == other]
        ctx.check(len(calls) == 1 and len(calls[0].args) == 1 and src(calls[0].args[0]) == lp.target.id, "history/replays-each-once", qr + " | otherObserver(event)",
                  "each buffered event is not passed exactly once to the other observer")
        if len(calls) == 1:
            head = gr.ids_of(lp)[0]
            cid = gr.ids_of(calls[0])
            st = [d for d, l in gr.succ[head] if l == "iter"]
            p = gr.path([s for s in st if s not in cid], [head, gr.exit], avoid=cid, edge_ok=_no_exc)
            ctx.check(p is None, "history/replays-each-once", qr + " | every event", "a buffered event can be skipped", witness=gr.describe(p))
            body = [n.id for n in gr.nodes if n.ast is not None and n.kind in ("stmt", "test") and any(n.ast is x for x in ast.walk(lp)) and gr.reachable(n.id)]
            p = gr.path(body, [gr.exit] + [d for d, l in gr.succ[head] if l == "done"], avoid=[head], edge_ok=_no_exc)
            ctx.check(p is None, "history/replays-each-once", qr + " | runs to completion", "the replay can stop early", witness=gr.describe(p))


def check(ctx):
    with ctx.section("LogPublisher"):
        check_publisher(ctx)
    with ctx.section("LogLevelFilterPredicate histories"):
        check_filter_histories(ctx)
    with ctx.section("filter structure"):
        check_filter(ctx)
    with ctx.section("LimitedHistoryLogObserver"):
        check_buffer(ctx)


# a memo of resolved prefix lookups added to LogLevelFilterPredicate (shared by a mutant and a silent variant)
_E_INIT = (FIL, "        self._logLevelsByNamespace: Dict[str, NamedConstant] = {}\n        self.defaultLogLevel",
           "        self._logLevelsByNamespace: Dict[str, NamedConstant] = {}\n        self._memo: Dict[str, NamedConstant] = {}\n        self.defaultLogLevel")
_E_LOOKUP_OLD = ("        segments = namespace.split(\".\")\n        index = len(segments) - 1\n\n        while index > 0:\n            namespace = \".\".join(segments[:index])\n"
                 "            if namespace in self._logLevelsByNamespace:\n                return self._logLevelsByNamespace[namespace]\n            index -= 1\n\n"
                 "        return self._logLevelsByNamespace[\"\"]\n")
_E_LOOKUP_NEW = ("        if namespace in self._memo:\n            return self._memo[namespace]\n        found = self._logLevelsByNamespace[\"\"]\n"
                 "        segments = namespace.split(\".\")\n        for index in range(len(segments) - 1, 0, -1):\n            prefix = \".\".join(segments[:index])\n"
                 "            if prefix in self._logLevelsByNamespace:\n                found = self._logLevelsByNamespace[prefix]\n                break\n"
                 "        self._memo[namespace] = found\n        return found\n")
_E_CLEAR = (FIL, "        self._logLevelsByNamespace.clear()\n", "        self._logLevelsByNamespace.clear()\n        self._memo.clear()\n")
_E_SET_OLD = "        if namespace:\n            self._logLevelsByNamespace[namespace] = level\n        else:\n            self._logLevelsByNamespace[\"\"] = level\n"
_E_SET_STALE = ("        if namespace:\n            self._logLevelsByNamespace[namespace] = level\n            self._memo.pop(namespace, None)\n"
                "        else:\n            self._logLevelsByNamespace[\"\"] = level\n            self._memo.clear()\n")
_E_SET_FLUSH = "        self._memo.clear()\n" + _E_SET_OLD

MUTANTS = [
    Mutant("observer-call-outside-try", OBS, "            try:\n                observer(event)\n            except Exception:\n                brokenObservers.append((observer, Failure()))\n",
           "            observer(event)\n", expect_rule="publisher/observer-failure-contained"),
    Mutant("handler-narrowed-to-valueerror", OBS, "            except Exception:\n                brokenObservers.append", "            except ValueError:\n                brokenObservers.append",
           expect_rule="publisher/observer-failure-contained"),
    Mutant("reversed-iteration", OBS, "        for observer in self._observers:\n            if trace", "        for observer in reversed(self._observers):\n            if trace",
           expect_rule="publisher/forward-iteration"),
    Mutant("report-to-the-broken-observer", OBS, "if obs is not observer)", "if obs is observer)", expect_rule="publisher/report-excludes-broken-observer"),
    Mutant("report-inside-loop", OBS, "                brokenObservers.append((observer, Failure()))\n\n        for brokenObserver, failure in brokenObservers:\n            errorLogger = self._errorLoggerForObserver(brokenObserver)\n            errorLogger.failure(\n                OBSERVER_DISABLED,\n                failure=failure,\n                observer=brokenObserver,\n            )\n",
           "                brokenObservers.append((observer, Failure()))\n\n            for brokenObserver, failure in brokenObservers:\n                errorLogger = self._errorLoggerForObserver(brokenObserver)\n                errorLogger.failure(\n                    OBSERVER_DISABLED,\n                    failure=failure,\n                    observer=brokenObserver,\n                )\n            del brokenObservers[:]\n",
           expect_rule="publisher/failures-reported-after-loop"),
    Mutant("stop-after-first-failure", OBS, "                brokenObservers.append((observer, Failure()))\n\n        for brokenObserver", "                brokenObservers.append((observer, Failure()))\n                break\n\n        for brokenObserver",
           expect_rule="publisher/loop-runs-to-completion"),
    Mutant("add-observer-at-front", OBS, "            self._observers.append(observer)", "            self._observers.insert(0, observer)", expect_rule="publisher/registration-order-preserved"),
    Mutant("add-observer-without-dedupe", OBS, "        if observer not in self._observers:\n            self._observers.append(observer)", "        self._observers.append(observer)",
           expect_rule="publisher/single-registration"),
    Mutant("failure-not-recorded", OBS, "                brokenObservers.append((observer, Failure()))\n", "                pass\n", expect_rule="publisher/failure-recorded"),
    Mutant("filter-le", FIL, "        if eventLevel < namespaceLevel:", "        if eventLevel <= namespaceLevel:", expect_rule="filter/level-decision"),
    Mutant("filter-operands-swapped", FIL, "        if eventLevel < namespaceLevel:", "        if namespaceLevel < eventLevel:", expect_rule="filter/level-decision"),
    Mutant("prefix-loop-counts-up", FIL, "        index = len(segments) - 1\n\n        while index > 0:\n            namespace = \".\".join(segments[:index])\n            if namespace in self._logLevelsByNamespace:\n                return self._logLevelsByNamespace[namespace]\n            index -= 1\n",
           "        index = 1\n\n        while index < len(segments):\n            namespace = \".\".join(segments[:index])\n            if namespace in self._logLevelsByNamespace:\n                return self._logLevelsByNamespace[namespace]\n            index += 1\n",
           expect_rule="filter/most-specific-prefix"),
    Mutant("prefix-loop-skips-top-package", FIL, "        while index > 0:", "        while index > 1:", expect_rule="filter/most-specific-prefix"),
    Mutant("prefix-loop-starts-one-short", FIL, "        index = len(segments) - 1\n", "        index = len(segments) - 2\n", expect_rule="filter/most-specific-prefix"),
    Mutant("prefix-exact-match-dropped", FIL, "        if namespace in self._logLevelsByNamespace:\n            return self._logLevelsByNamespace[namespace]\n\n        segments", "        segments",
           expect_rule="filter/most-specific-prefix"),
    Mutant("prefix-decrement-dropped", FIL, "                return self._logLevelsByNamespace[namespace]\n            index -= 1\n", "                return self._logLevelsByNamespace[namespace]\n            index -= 0\n",
           expect_rule="filter/most-specific-prefix"),
    Mutant("prefix-memo-keeps-descendants-stale", FIL, _E_LOOKUP_OLD, _E_LOOKUP_NEW, expect_rule="filter/most-specific-prefix",
           more=[_E_INIT, _E_CLEAR, (FIL, _E_SET_OLD, _E_SET_STALE)]),
    Mutant("verdicts-swapped", FIL, "        if result == PredicateResult.yes:\n            return True\n        if result == PredicateResult.no:\n            return False\n",
           "        if result == PredicateResult.yes:\n            return False\n        if result == PredicateResult.no:\n            return True\n", expect_rule="filter/predicate-verdicts"),
    Mutant("replay-drains-history", BUF, "        for event in self._buffer:\n            otherObserver(event)", "        while self._buffer:\n            otherObserver(self._buffer.popleft())",
           expect_rule="history/"),
    Mutant("remove-observer-swaps-with-last", OBS, "        try:\n            self._observers.remove(observer)\n        except ValueError:\n            pass\n",
           "        try:\n            i = self._observers.index(observer)\n        except ValueError:\n            return\n        self._observers[i] = self._observers[-1]\n        del self._observers[-1]\n",
           expect_rule="publisher/registration-order-preserved"),
    Mutant("history-appendleft", BUF, "        self._buffer.append(event)", "        self._buffer.appendleft(event)", expect_rule="history/appends-at-the-end"),
    Mutant("history-replay-reversed", BUF, "        for event in self._buffer:", "        for event in reversed(self._buffer):", expect_rule="history/replays-forward"),
    Mutant("history-maxlen-off-by-one", BUF, "deque(maxlen=size)", "deque(maxlen=size and size - 1)", expect_rule="history/bounded-by-size"),
]
SILENT = [
    Silent("filter-comparison-rewritten", FIL, "        if eventLevel < namespaceLevel:\n            return PredicateResult.no\n\n        return PredicateResult.maybe",
           "        if not namespaceLevel > eventLevel:\n            return PredicateResult.maybe\n        return PredicateResult.no"),
    Silent("prefix-loop-as-for-range", FIL, "        index = len(segments) - 1\n\n        while index > 0:\n            namespace = \".\".join(segments[:index])\n            if namespace in self._logLevelsByNamespace:\n                return self._logLevelsByNamespace[namespace]\n            index -= 1\n",
           "        for index in range(len(segments) - 1, 0, -1):\n            namespace = \".\".join(segments[:index])\n            if namespace in self._logLevelsByNamespace:\n                return self._logLevelsByNamespace[namespace]\n"),
    Silent("prefix-loop-down-to-zero", FIL, "        while index > 0:", "        while index >= 0:"),
    Silent("publisher-renamed-locals", OBS, "        for observer in self._observers:\n            if trace is not None:\n                trace(observer)\n\n            try:\n                observer(event)\n            except Exception:\n                brokenObservers.append((observer, Failure()))\n",
           "        for obs in self._observers:\n            if trace is not None:\n                trace(obs)\n            try:\n                obs(event)\n            except BaseException:\n                brokenObservers.append((obs, Failure()))\n"),
    Silent("prefix-memo-flushed-on-every-change", FIL, _E_LOOKUP_OLD, _E_LOOKUP_NEW, more=[_E_INIT, _E_CLEAR, (FIL, _E_SET_OLD, _E_SET_FLUSH)]),
    Silent("level-decision-as-conditional-expression", FIL, "        if eventLevel < namespaceLevel:\n            return PredicateResult.no\n\n        return PredicateResult.maybe",
           "        return PredicateResult.no if eventLevel < namespaceLevel else PredicateResult.maybe"),
    Silent("remove-observer-tests-membership", OBS, "        try:\n            self._observers.remove(observer)\n        except ValueError:\n            pass\n",
           "        if observer in self._observers:\n            self._observers.remove(observer)\n"),
    Silent("history-positional-deque", BUF, "deque(maxlen=size)", "deque([], size)"),
]
