"""C57 - Log observers receive every event; filters honour namespace hierarchy."""
from __future__ import annotations

import ast
import itertools

from sa.astx import call_name, dotted, lin_expect, lincmp, src, walk_local
from sa.effects import class_accesses
from sa.selftest import Mutant, Silent
from sa.props._lib_k import LEVELS, MiniInterp, Nonterminating, handler_names, protection

PROPERTY = "C57"
OBS = "logger/_observer.py"
FIL = "logger/_filter.py"
BUF = "logger/_buffer.py"
TECHNIQUE = "CFG path rules + who-may-write + exhaustive finite evaluation of the prefix lookup"
EXPLANATION = (
    "LogPublisher.__call__: every observer(event) call-out of the fan-out loop lies in a try whose handler stops Exception "
    "without re-raising and records (observer, Failure()); exactly one call per iteration, the loop walks self._observers "
    "forward and cannot be left early; _observers is only appended to (de-duplicated), removed from or rebuilt from the "
    "constructor arguments; failures are reported only after the fan-out loop, once each, through a publisher built from every "
    "observer except (identity) the broken one. LogLevelFilterPredicate: logLevelForNamespace is executed by a small concrete "
    "interpreter over all namespaces of depth 0-4 x all 16 configurations of their prefixes and must return the most specific "
    "configured prefix (else the default) and terminate; __call__ answers `no` exactly under namespaceLevel - eventLevel >= 1 "
    "(normalised comparison) with the level looked up for the event's own namespace; set/clear write the table under the given "
    "key. shouldLogEvent / FilteringLogObserver route yes/no/maybe correctly. LimitedHistoryLogObserver: deque(maxlen=size), "
    "append at the right end, forward replay, one call per event. Not decided: observer lists mutated during dispatch, "
    "behaviour of observers themselves."
)
ASSUMPTIONS = [
    "observers are called synchronously; BaseException (KeyboardInterrupt, SystemExit) deliberately propagates",
    "LogLevel constants are ordered by severity (NamedConstant ordering)",
]
QO = "twisted.logger._observer.LogPublisher."
QF = "twisted.logger._filter."
QB = "twisted.logger._buffer.LimitedHistoryLogObserver."


def _is_self_attr(n, name):
    return isinstance(n, ast.Attribute) and n.attr == name and isinstance(n.value, ast.Name) and n.value.id == "self"


def _no_exc(a, b, l):
    return l != "exc"


def check_publisher(ctx):
    mod = ctx.mod(OBS)
    cls = ctx.cls(OBS, "LogPublisher")
    f = ctx.func(OBS, "LogPublisher.__call__")
    g = ctx.cfg(f)
    q = QO + "__call__"
    ev = f.args.args[1].arg
    loops = [n for n in walk_local(f) if isinstance(n, ast.For)]
    fan = [lp for lp in loops if _is_self_attr(lp.iter, "_observers")]
    ctx.check(len(fan) == 1, "publisher/forward-iteration", q,
              "the fan-out loop does not iterate self._observers itself, front to back (registration order)"
              if not fan else "more than one fan-out loop")
    if len(fan) != 1:
        # a loop over a transformed sequence: name it
        for lp in loops:
            if "_observers" in src(lp.iter):
                ctx.violation("publisher/forward-iteration", ctx.construct(q, lp.iter), "observers are visited through a transformed sequence, not in registration order")
        return
    lp = fan[0]
    ctx.need(isinstance(lp.target, ast.Name), "fan-out loop variable")
    ov = lp.target.id
    head = g.ids_of(lp)[0]
    calls = [c for c in ast.walk(lp) if isinstance(c, ast.Call) and isinstance(c.func, ast.Name) and c.func.id == ov]
    ctx.check(len(calls) == 1, "publisher/one-delivery-per-observer", q, f"{len(calls)} observer(...) call sites in the fan-out loop (must be exactly one)")
    for c in calls:
        k = ctx.construct(q, c)
        ctx.check(len(c.args) == 1 and src(c.args[0]) == ev and not c.keywords, "publisher/delivers-the-event", k, "the observer is not called with the event itself")
        lv = protection(c, f)
        ctx.check(LEVELS[lv] >= 1, "publisher/observer-failure-contained", k,
                  "an exception raised by one observer leaves the fan-out loop: the remaining observers never see the event",
                  detail=f"handler level {lv}")
        cid = g.ids_of(c)
        # each iteration makes the call: from the iteration start to the next head without the call
        starts = [d for d, l in g.succ[head] if l == "iter"]
        p = g.path([s for s in starts if s not in cid], [head, g.exit], avoid=cid, edge_ok=_no_exc)
        ctx.check(p is None, "publisher/one-delivery-per-observer", k + " | every iteration", "an observer can be skipped", witness=g.describe(p))
        p = g.path(cid, cid, avoid=[head], strict=True)
        ctx.check(p is None, "publisher/one-delivery-per-observer", k + " | not repeated", "an observer can receive the event twice", witness=g.describe(p))
    # the loop cannot be left other than by exhaustion (explicit raise / return / break inside it)
    body_nodes = [n.id for n in g.nodes if n.ast is not None and n.kind in ("stmt", "test", "handler") and any(n.ast is x for x in ast.walk(lp)) and g.reachable(n.id)]
    done = {d for d, l in g.succ[head] if l == "done"}
    p = g.path(body_nodes, [g.exit, g.raise_exit] + list(done), avoid=[head], edge_ok=_no_exc)
    ctx.check(p is None, "publisher/loop-runs-to-completion", q + " | fan-out loop", "the fan-out loop can be left before every observer was served",
              witness=g.describe(p))
    # handlers around the call: record the failure
    tries = [t for t in ast.walk(lp) if isinstance(t, ast.Try) and calls and any(x is calls[0] for b in t.body for x in ast.walk(b))]
    rec_list = None
    for t in tries:
        for h in t.handlers:
            apps = [c for b in h.body for c in ast.walk(b) if isinstance(c, ast.Call) and isinstance(c.func, ast.Attribute) and c.func.attr == "append"]
            ok = False
            for a in apps:
                if len(a.args) == 1 and isinstance(a.args[0], ast.Tuple) and len(a.args[0].elts) == 2 and src(a.args[0].elts[0]) == ov \
                        and isinstance(a.args[0].elts[1], ast.Call) and call_name(a.args[0].elts[1]) == "Failure" and not a.args[0].elts[1].args:
                    ok = True
                    rec_list = src(a.func.value)
            ctx.check(ok, "publisher/failure-recorded", ctx.construct(q, h.type if h.type is not None else "except:"),
                      "a failing observer is swallowed without (observer, Failure()) being recorded for the report")
    # report loop: after the fan-out loop, over the recorded list
    reps = [l2 for l2 in loops if l2 is not lp and rec_list is not None and src(l2.iter) == rec_list]
    ctx.check(len(reps) == 1, "publisher/failures-reported-after-loop", q + " | report loop",
              "the recorded failures are not reported by one loop over the list of broken observers")
    if len(reps) == 1:
        rp = reps[0]
        ctx.check(not any(x is rp for x in ast.walk(lp)), "publisher/failures-reported-after-loop", ctx.construct(q, rp.iter) + " | placement",
                  "failures are reported inside the fan-out loop (error events overtake the event being delivered)")
        rhead = g.ids_of(rp)[0]
        p = g.path([g.entry], [rhead], avoid=[head])
        ctx.check(p is None, "publisher/failures-reported-after-loop", q + " | report loop after fan-out", "the report loop can run without the fan-out", witness=g.describe(p))
        ctx.need(isinstance(rp.target, ast.Tuple) and len(rp.target.elts) == 2, "report loop unpacks (observer, failure)")
        bo, fl = src(rp.target.elts[0]), src(rp.target.elts[1])
        mk = [c for c in ast.walk(rp) if isinstance(c, ast.Call) and call_name(c) == "self._errorLoggerForObserver"]
        ctx.check(len(mk) == 1 and len(mk[0].args) == 1 and src(mk[0].args[0]) == bo, "publisher/report-excludes-broken-observer", q + " | _errorLoggerForObserver(...)",
                  "the error logger is not built for the broken observer of this record")
        fc = [c for c in ast.walk(rp) if isinstance(c, ast.Call) and isinstance(c.func, ast.Attribute) and c.func.attr == "failure"]
        okf = len(fc) == 1 and {k.arg: src(k.value) for k in fc[0].keywords}.get("failure") == fl
        ctx.check(okf, "publisher/failure-reported", q + " | errorLogger.failure(...)", "the recorded Failure is not what is reported")
        if fc:
            fid = g.ids_of(fc[0])
            st = [d for d, l in g.succ[rhead] if l == "iter"]
            p = g.path([s for s in st if s not in fid], [rhead, g.exit], avoid=fid, edge_ok=_no_exc)
            ctx.check(p is None, "publisher/failure-reported", q + " | every record", "a recorded failure can go unreported", witness=g.describe(p))
    # fan-out not after an early return
    ctx.check(g.must_pass([g.entry], [head], exc=False) is None, "publisher/loop-runs-to-completion", q + " | reached",
              "__call__ can return without fanning the event out", witness=g.describe(g.must_pass([g.entry], [head], exc=False)))

    # _errorLoggerForObserver: all observers but (identity) the broken one, in order
    e = ctx.func(OBS, "LogPublisher._errorLoggerForObserver")
    qe = QO + "_errorLoggerForObserver"
    par = e.args.args[1].arg
    gens = [n for n in ast.walk(e) if isinstance(n, (ast.GeneratorExp, ast.ListComp))]
    ok = False
    for gn in gens:
        if len(gn.generators) == 1 and _is_self_attr(gn.generators[0].iter, "_observers") and isinstance(gn.generators[0].target, ast.Name):
            v = gn.generators[0].target.id
            conds = gn.generators[0].ifs
            if src(gn.elt) == v and len(conds) == 1 and isinstance(conds[0], ast.Compare) and len(conds[0].ops) == 1 and isinstance(conds[0].ops[0], ast.IsNot) \
                    and {src(conds[0].left), src(conds[0].comparators[0])} == {v, par}:
                ok = True
    ctx.check(ok, "publisher/report-excludes-broken-observer", qe,
              "the error publisher is not exactly 'every registered observer that is not (identity) the broken one, in order': the failure is "
              "reported to the broken observer itself or withheld from healthy ones")
    pubs = [c for c in ast.walk(e) if isinstance(c, ast.Call) and call_name(c) == "LogPublisher"]
    ctx.check(len(pubs) == 1 and len(pubs[0].args) == 1 and isinstance(pubs[0].args[0], ast.Starred), "publisher/report-excludes-broken-observer", qe + " | LogPublisher(*...)",
              "the filtered observers are not handed to a fresh LogPublisher")
    rets = [r for r in ast.walk(e) if isinstance(r, ast.Return)]
    ctx.check(len(rets) == 1 and isinstance(rets[0].value, ast.Call) and call_name(rets[0].value) == "Logger"
              and any(k.arg == "observer" for k in rets[0].value.keywords), "publisher/report-excludes-broken-observer", qe + " | return Logger(observer=...)",
              "the error logger does not publish to the filtered publisher")

    # who may write _observers, and how
    acc = class_accesses(mod, cls, {"_observers"}, receivers={"self"})
    allowed = {("LogPublisher.__init__", "assign"), ("LogPublisher.addObserver", "append"), ("LogPublisher.removeObserver", "remove")}
    for a in acc:
        ctx.check((a.func, a.kind) in allowed, "publisher/registration-order-preserved", ctx.construct("twisted.logger._observer." + a.func, a.node),
                  f"self._observers is modified by '{a.kind}' in {a.func}: registration order / single registration is no longer an invariant")
    ctx.floor("publisher/registration-order-preserved", len(acc), 3)
    init = ctx.func(OBS, "LogPublisher.__init__")
    va = init.args.vararg.arg if init.args.vararg else None
    ia = [a for a in acc if a.func == "LogPublisher.__init__"]
    ctx.check(bool(ia) and va is not None and src(ia[0].node.value) == f"list({va})", "publisher/registration-order-preserved", QO + "__init__ | initial list",
              "the initial observer list is not list(observers)")
    add = ctx.func(OBS, "LogPublisher.addObserver")
    ga = ctx.cfg(add)
    op = add.args.args[1].arg
    for n in ga.find(lambda x: isinstance(x, ast.Call) and isinstance(x.func, ast.Attribute) and x.func.attr == "append" and _is_self_attr(x.func.value, "_observers")):
        c = next(x for x in walk_local(ga.node(n).ast) if isinstance(x, ast.Call) and getattr(x.func, "attr", "") == "append")
        ctx.check(len(c.args) == 1 and src(c.args[0]) == op, "publisher/registration-order-preserved", ctx.construct(QO + "addObserver", c), "something else than the observer is registered")
        ctx.check(ga.guarded(n, lambda t: src(t) == f"{op} in self._observers", False) or ga.guarded(n, lambda t: src(t) == f"{op} not in self._observers", True),
                  "publisher/single-registration", ctx.construct(QO + "addObserver", c),
                  "an observer can be registered twice and would then receive every event twice")


def check_filter(ctx):
    cls = ctx.cls(FIL, "LogLevelFilterPredicate")
    mod = ctx.mod(FIL)
    f = ctx.func(FIL, "LogLevelFilterPredicate.logLevelForNamespace")
    q = QF + "LogLevelFilterPredicate.logLevelForNamespace"
    par = f.args.args[1].arg
    table = "self._logLevelsByNamespace"
    full = ["a", "b", "c", "d"]
    prefixes = [".".join(full[:i]) for i in range(1, 5)]
    n_eval = 0
    for depth in range(0, 5):
        ns = ".".join(full[:depth])
        bad = None
        own = prefixes[:depth]
        for r in range(0, 5):
            for combo in itertools.combinations(prefixes, r):
                conf = set(combo) | {""}
                want = next((p for p in reversed(own) if p in conf), "")
                it = MiniInterp(f, table, conf)
                try:
                    got = it.run({par: ns})
                except Nonterminating:
                    got = "does not terminate"
                n_eval += 1
                if got != ("level", want) and bad is None:
                    bad = (sorted(conf), want, got)
        ctx.check(bad is None, "filter/most-specific-prefix", f"{q} | namespace={ns!r}",
                  (f"with levels configured for {bad[0]} the lookup for {ns!r} should use the entry {bad[1]!r} but yields {bad[2]!r}" if bad else ""),
                  detail="16 configurations agree with the most-specific-configured-prefix rule")
    ctx.extra["prefix_lookup_evaluations"] = n_eval

    # __call__
    c = ctx.func(FIL, "LogLevelFilterPredicate.__call__")
    g = ctx.cfg(c)
    qc = QF + "LogLevelFilterPredicate.__call__"
    ev = c.args.args[1].arg

    def var_from(pred):
        for st in walk_local(c):
            if isinstance(st, ast.Assign) and len(st.targets) == 1 and isinstance(st.targets[0], ast.Name) and pred(st.value):
                return st.targets[0].id, st
        return None, None

    def is_get(key):
        return lambda v: isinstance(v, ast.Call) and call_name(v) == f"{ev}.get" and v.args and isinstance(v.args[0], ast.Constant) and v.args[0].value == key
    lvl, _ = var_from(is_get("log_level"))
    nsv, _ = var_from(is_get("log_namespace"))
    nlv, nl_st = var_from(lambda v: isinstance(v, ast.Call) and call_name(v) == "self.logLevelForNamespace")
    ctx.need(lvl and nsv and nlv, "locals for event level, namespace and namespace level in LogLevelFilterPredicate.__call__")
    ctx.check(len(nl_st.value.args) == 1 and src(nl_st.value.args[0]) == nsv, "filter/looks-up-event-namespace", ctx.construct(qc, nl_st),
              "the threshold is not looked up for the event's own log_namespace")
    nl_id = g.ids_of(nl_st)
    rets = g.ids(lambda n: n.kind == "stmt" and isinstance(n.ast, ast.Return))
    want_no = lin_expect({nlv: 1, lvl: -1}, 1)
    want_pass = lin_expect({lvl: 1, nlv: -1}, 0)
    n_cmp = 0
    for r in rets:
        if not g.path(nl_id, [r], strict=True):
            continue  # decided before the threshold is known (missing level / namespace)
        val = (dotted(g.node(r).ast.value) or "").split(".")[-1]
        forms = [lincmp(g.node(t).ast, negate=(lab == "F")) for t, lab in g.edge_guards(r)]
        forms = [x for x in forms if x is not None]
        if val == "no":
            n_cmp += 1
            ctx.check(want_no in forms, "filter/level-comparison", ctx.construct(qc, g.node(r).ast),
                      "the event is rejected under a condition other than eventLevel < namespaceLevel (e.g. events exactly at the configured level are dropped)",
                      detail="guard normalises to namespaceLevel - eventLevel >= 1")
        else:
            n_cmp += 1
            ctx.check(want_pass in forms, "filter/level-comparison", ctx.construct(qc, g.node(r).ast),
                      "the event passes although eventLevel >= namespaceLevel is not established (events below the configured level get through)",
                      detail="guard normalises to eventLevel - namespaceLevel >= 0")
            ctx.check(val == "maybe", "filter/level-comparison", ctx.construct(qc, g.node(r).ast) + " | verdict", "a sufficient level must answer `maybe` (let other predicates decide)")
    ctx.check(n_cmp >= 2, "filter/level-comparison", qc, "__call__ no longer has both a rejecting and a passing exit after the level lookup")

    # table writers
    acc = class_accesses(mod, cls, {"_logLevelsByNamespace"}, receivers={"self"})
    for a in acc:
        where = a.func.split(".")[-1]
        k = ctx.construct(QF + a.func, a.node)
        if a.kind == "setitem" and where == "setLogLevelForNamespace":
            s = ctx.func(FIL, "LogLevelFilterPredicate.setLogLevelForNamespace")
            pn, pl = s.args.args[1].arg, s.args.args[2].arg
            key = a.node.targets[0].slice
            okk = src(key) == pn or (isinstance(key, ast.Constant) and key.value == "")
            ctx.check(okk and src(a.node.value) == pl, "filter/table-written-under-namespace", k, "the level is stored under a different key / with a different value than given")
        elif a.kind == "setitem" and where == "clearLogLevels":
            key = a.node.targets[0].slice
            ctx.check(isinstance(key, ast.Constant) and key.value == "" and src(a.node.value) == "self.defaultLogLevel", "filter/table-written-under-namespace", k,
                      "clearLogLevels does not restore the default level under the '' key")
        elif a.kind == "clear" and where == "clearLogLevels":
            ctx.ok("filter/table-written-under-namespace", k)
        elif where == "__init__" and a.kind in ("assign", "rebind-empty"):
            ctx.ok("filter/table-written-under-namespace", k)
        else:
            ctx.violation("filter/table-written-under-namespace", k, f"unexpected '{a.kind}' of the namespace table in {a.func}")
    ctx.floor("filter/table-written-under-namespace", len(acc), 4)
    s = ctx.func(FIL, "LogLevelFilterPredicate.setLogLevelForNamespace")
    gs = ctx.cfg(s)
    pn = s.args.args[1].arg
    for n in gs.ids(lambda n: n.kind == "stmt" and isinstance(n.ast, ast.Assign) and isinstance(n.ast.targets[0], ast.Subscript)):
        key = gs.node(n).ast.targets[0].slice
        if src(key) == pn:
            continue
        ctx.check(gs.guarded(n, lambda t: src(t) == pn, False), "filter/table-written-under-namespace", ctx.construct(QF + "LogLevelFilterPredicate.setLogLevelForNamespace", gs.node(n).ast) + " | only for ''",
                  "a non-empty namespace is stored under the default key")

    # shouldLogEvent + FilteringLogObserver
    sh = ctx.func(FIL, "shouldLogEvent")
    g2 = ctx.cfg(sh)
    qs = QF + "shouldLogEvent"
    loops = [n for n in walk_local(sh) if isinstance(n, ast.For)]
    ctx.need(len(loops) == 1, "predicate loop of shouldLogEvent")
    lp = loops[0]
    head = g2.ids_of(lp)[0]

    def guard_eq(n, const, pol):
        return g2.guarded(n, lambda t: isinstance(t, ast.Compare) and len(t.ops) == 1 and isinstance(t.ops[0], (ast.Eq, ast.Is))
                          and (dotted(t.comparators[0]) or dotted(t.left) or "").endswith("PredicateResult." + const), pol)
    for r in g2.ids(lambda n: n.kind == "stmt" and isinstance(n.ast, ast.Return)):
        node = g2.node(r).ast
        inside = any(x is node for x in ast.walk(lp))
        v = node.value.value if isinstance(node.value, ast.Constant) else None
        if inside:
            ctx.check((v is True and guard_eq(r, "yes", True)) or (v is False and guard_eq(r, "no", True)), "filter/predicate-verdicts", ctx.construct(qs, node),
                      "a predicate verdict is mapped to the wrong decision (yes must log, no must drop)")
        else:
            ctx.check(v is True, "filter/predicate-verdicts", ctx.construct(qs, node) + " | default", "with only `maybe` answers the event must be logged")
    conts = g2.ids(lambda n: n.kind == "stmt" and isinstance(n.ast, ast.Continue))
    for cn in conts:
        ctx.check(guard_eq(cn, "maybe", True), "filter/predicate-verdicts", ctx.construct(qs, g2.node(cn).ast), "the next predicate is consulted after a verdict other than maybe")
    pc = [c for c in ast.walk(lp) if isinstance(c, ast.Call) and isinstance(c.func, ast.Name) and isinstance(lp.target, ast.Name) and c.func.id == lp.target.id]
    ctx.check(len(pc) == 1 and len(pc[0].args) == 1 and src(pc[0].args[0]) == sh.args.args[1].arg, "filter/predicate-verdicts", qs + " | predicate(event)",
              "each predicate is not asked exactly once about the event")

    fo = ctx.func(FIL, "FilteringLogObserver.__call__")
    g3 = ctx.cfg(fo)
    qo = QF + "FilteringLogObserver.__call__"
    e3 = fo.args.args[1].arg

    def is_should(t):
        return isinstance(t, ast.Call) and call_name(t) == "self._shouldLogEvent" and len(t.args) == 1 and src(t.args[0]) == e3
    pos = g3.find(lambda x: isinstance(x, ast.Call) and call_name(x) == "self._observer")
    neg = g3.find(lambda x: isinstance(x, ast.Call) and call_name(x) == "self._negativeObserver")
    ctx.check(bool(pos) and all(g3.guarded(n, is_should, True) for n in pos), "filter/forwards-iff-should-log", qo + " | self._observer(event)",
              "the wrapped observer is not called exactly under shouldLogEvent(event)")
    ctx.check(bool(neg) and all(g3.guarded(n, is_should, False) for n in neg), "filter/forwards-iff-should-log", qo + " | self._negativeObserver(event)",
              "the negative observer is not called exactly when shouldLogEvent(event) is false")
    w = g3.must_pass([g3.entry], set(pos) | set(neg), exc=False)
    ctx.check(w is None, "filter/forwards-iff-should-log", qo + " | every event routed", "an event can be routed to neither observer", witness=g3.describe(w))
    ini = ctx.func(FIL, "FilteringLogObserver.__init__")
    part = [c for c in ast.walk(ini) if isinstance(c, ast.Call) and call_name(c) == "partial"]
    ctx.check(len(part) == 1 and len(part[0].args) == 2 and src(part[0].args[0]) == "shouldLogEvent" and ini.args.args[2].arg in src(part[0].args[1]),
              "filter/forwards-iff-should-log", QF + "FilteringLogObserver.__init__ | partial(shouldLogEvent, ...)", "the decision function is not shouldLogEvent over the given predicates")


def check_buffer(ctx):
    mod = ctx.mod(BUF)
    cls = ctx.cls(BUF, "LimitedHistoryLogObserver")
    acc = class_accesses(mod, cls, {"_buffer"}, receivers={"self"})
    init = ctx.func(BUF, "LimitedHistoryLogObserver.__init__")
    size = init.args.args[1].arg
    for a in acc:
        k = ctx.construct("twisted.logger._buffer." + a.func, a.node)
        if a.func.endswith("__init__") and a.kind in ("assign", "rebind-empty"):
            v = a.node.value
            kws = {x.arg: x.value for x in v.keywords} if isinstance(v, ast.Call) else {}
            ok = isinstance(v, ast.Call) and call_name(v) in ("deque", "collections.deque") and \
                ((not v.args and "maxlen" in kws and src(kws["maxlen"]) == size) or (len(v.args) == 2 and src(v.args[1]) == size and isinstance(v.args[0], (ast.List, ast.Tuple)) and not v.args[0].elts))
            ctx.check(ok, "history/bounded-by-size", k, "the history is not an (initially empty) deque bounded by exactly `size`: more or fewer than the last N events are kept")
        elif a.func.endswith("__call__") and a.kind == "append":
            c = ctx.func(BUF, "LimitedHistoryLogObserver.__call__")
            ctx.check(len(a.node.args) == 1 and src(a.node.args[0]) == c.args.args[1].arg, "history/appends-at-the-end", k, "something else than the event is recorded")
        else:
            ctx.violation("history/appends-at-the-end", k, f"the history buffer is modified by '{a.kind}' in {a.func}: it no longer holds the last N events oldest-first")
    ctx.floor("history/writers", len(acc), 2)
    c = ctx.func(BUF, "LimitedHistoryLogObserver.__call__")
    g = ctx.cfg(c)
    app = g.find(lambda x: isinstance(x, ast.Call) and isinstance(x.func, ast.Attribute) and x.func.attr == "append" and _is_self_attr(x.func.value, "_buffer"))
    w = g.must_pass([g.entry], app, exc=False)
    ctx.check(bool(app) and w is None, "history/appends-at-the-end", QB + "__call__", "an event can be dropped without being recorded", witness=g.describe(w))
    r = ctx.func(BUF, "LimitedHistoryLogObserver.replayTo")
    gr = ctx.cfg(r)
    qr = QB + "replayTo"
    other = r.args.args[1].arg
    loops = [n for n in walk_local(r) if isinstance(n, ast.For)]
    ok = len(loops) == 1 and _is_self_attr(loops[0].iter, "_buffer") and isinstance(loops[0].target, ast.Name)
    ctx.check(ok, "history/replays-forward", qr, "replay does not walk the buffer itself front (oldest) to back (newest)")
    if ok:
        lp = loops[0]
        calls = [x for x in ast.walk(lp) if isinstance(x, ast.Call) and isinstance(x.func, ast.Name) and x.func.id == other]
        ctx.check(len(calls) == 1 and len(calls[0].args) == 1 and src(calls[0].args[0]) == lp.target.id, "history/replays-each-once", qr + " | otherObserver(event)",
                  "each buffered event is not passed exactly once to the other observer")
        if len(calls) == 1:
            head = gr.ids_of(lp)[0]
            cid = gr.ids_of(calls[0])
            st = [d for d, l in gr.succ[head] if l == "iter"]
            p = gr.path([s for s in st if s not in cid], [head, gr.exit], avoid=cid, edge_ok=_no_exc)
            ctx.check(p is None, "history/replays-each-once", qr + " | every event", "a buffered event can be skipped", witness=gr.describe(p))
            body = [n.id for n in gr.nodes if n.ast is not None and n.kind in ("stmt", "test") and any(n.ast is x for x in ast.walk(lp)) and gr.reachable(n.id)]
            p = gr.path(body, [gr.exit] + [d for d, l in gr.succ[head] if l == "done"], avoid=[head], edge_ok=_no_exc)
            ctx.check(p is None, "history/replays-each-once", qr + " | runs to completion", "the replay can stop early", witness=gr.describe(p))


def check(ctx):
    check_publisher(ctx)
    check_filter(ctx)
    check_buffer(ctx)


MUTANTS = [
    Mutant("observer-call-outside-try", OBS, "            try:\n                observer(event)\n            except Exception:\n                brokenObservers.append((observer, Failure()))\n",
           "            observer(event)\n", expect_rule="publisher/observer-failure-contained"),
    Mutant("handler-narrowed-to-valueerror", OBS, "            except Exception:\n                brokenObservers.append", "            except ValueError:\n                brokenObservers.append",
           expect_rule="publisher/observer-failure-contained"),
    Mutant("reversed-iteration", OBS, "        for observer in self._observers:\n            if trace", "        for observer in reversed(self._observers):\n            if trace",
           expect_rule="publisher/forward-iteration"),
    Mutant("report-to-the-broken-observer", OBS, "if obs is not observer)", "if obs is observer)", expect_rule="publisher/report-excludes-broken-observer"),
    Mutant("report-inside-loop", OBS, "                brokenObservers.append((observer, Failure()))\n\n        for brokenObserver, failure in brokenObservers:\n            errorLogger = self._errorLoggerForObserver(brokenObserver)\n            errorLogger.failure(\n                OBSERVER_DISABLED,\n                failure=failure,\n                observer=brokenObserver,\n            )\n",
           "                brokenObservers.append((observer, Failure()))\n\n            for brokenObserver, failure in brokenObservers:\n                errorLogger = self._errorLoggerForObserver(brokenObserver)\n                errorLogger.failure(\n                    OBSERVER_DISABLED,\n                    failure=failure,\n                    observer=brokenObserver,\n                )\n            del brokenObservers[:]\n",
           expect_rule="publisher/failures-reported-after-loop"),
    Mutant("stop-after-first-failure", OBS, "                brokenObservers.append((observer, Failure()))\n\n        for brokenObserver", "                brokenObservers.append((observer, Failure()))\n                break\n\n        for brokenObserver",
           expect_rule="publisher/loop-runs-to-completion"),
    Mutant("add-observer-at-front", OBS, "            self._observers.append(observer)", "            self._observers.insert(0, observer)", expect_rule="publisher/registration-order-preserved"),
    Mutant("add-observer-without-dedupe", OBS, "        if observer not in self._observers:\n            self._observers.append(observer)", "        self._observers.append(observer)",
           expect_rule="publisher/single-registration"),
    Mutant("failure-not-recorded", OBS, "                brokenObservers.append((observer, Failure()))\n", "                pass\n", expect_rule="publisher/failure-recorded"),
    Mutant("filter-le", FIL, "        if eventLevel < namespaceLevel:", "        if eventLevel <= namespaceLevel:", expect_rule="filter/level-comparison"),
    Mutant("filter-operands-swapped", FIL, "        if eventLevel < namespaceLevel:", "        if namespaceLevel < eventLevel:", expect_rule="filter/level-comparison"),
    Mutant("prefix-loop-counts-up", FIL, "        index = len(segments) - 1\n\n        while index > 0:\n            namespace = \".\".join(segments[:index])\n            if namespace in self._logLevelsByNamespace:\n                return self._logLevelsByNamespace[namespace]\n            index -= 1\n",
           "        index = 1\n\n        while index < len(segments):\n            namespace = \".\".join(segments[:index])\n            if namespace in self._logLevelsByNamespace:\n                return self._logLevelsByNamespace[namespace]\n            index += 1\n",
           expect_rule="filter/most-specific-prefix"),
    Mutant("prefix-loop-skips-top-package", FIL, "        while index > 0:", "        while index > 1:", expect_rule="filter/most-specific-prefix"),
    Mutant("prefix-loop-starts-one-short", FIL, "        index = len(segments) - 1\n", "        index = len(segments) - 2\n", expect_rule="filter/most-specific-prefix"),
    Mutant("prefix-exact-match-dropped", FIL, "        if namespace in self._logLevelsByNamespace:\n            return self._logLevelsByNamespace[namespace]\n\n        segments", "        segments",
           expect_rule="filter/most-specific-prefix"),
    Mutant("prefix-decrement-dropped", FIL, "                return self._logLevelsByNamespace[namespace]\n            index -= 1\n", "                return self._logLevelsByNamespace[namespace]\n            index -= 0\n",
           expect_rule="filter/most-specific-prefix"),
    Mutant("verdicts-swapped", FIL, "        if result == PredicateResult.yes:\n            return True\n        if result == PredicateResult.no:\n            return False\n",
           "        if result == PredicateResult.yes:\n            return False\n        if result == PredicateResult.no:\n            return True\n", expect_rule="filter/predicate-verdicts"),
    Mutant("history-appendleft", BUF, "        self._buffer.append(event)", "        self._buffer.appendleft(event)", expect_rule="history/appends-at-the-end"),
    Mutant("history-replay-reversed", BUF, "        for event in self._buffer:", "        for event in reversed(self._buffer):", expect_rule="history/replays-forward"),
    Mutant("history-maxlen-off-by-one", BUF, "deque(maxlen=size)", "deque(maxlen=size and size - 1)", expect_rule="history/bounded-by-size"),
]
SILENT = [
    Silent("filter-comparison-rewritten", FIL, "        if eventLevel < namespaceLevel:\n            return PredicateResult.no\n\n        return PredicateResult.maybe",
           "        if not namespaceLevel > eventLevel:\n            return PredicateResult.maybe\n        return PredicateResult.no"),
    Silent("prefix-loop-as-for-range", FIL, "        index = len(segments) - 1\n\n        while index > 0:\n            namespace = \".\".join(segments[:index])\n            if namespace in self._logLevelsByNamespace:\n                return self._logLevelsByNamespace[namespace]\n            index -= 1\n",
           "        for index in range(len(segments) - 1, 0, -1):\n            namespace = \".\".join(segments[:index])\n            if namespace in self._logLevelsByNamespace:\n                return self._logLevelsByNamespace[namespace]\n"),
    Silent("prefix-loop-down-to-zero", FIL, "        while index > 0:", "        while index >= 0:"),
    Silent("publisher-renamed-locals", OBS, "        for observer in self._observers:\n            if trace is not None:\n                trace(observer)\n\n            try:\n                observer(event)\n            except Exception:\n                brokenObservers.append((observer, Failure()))\n",
           "        for obs in self._observers:\n            if trace is not None:\n                trace(obs)\n            try:\n                obs(event)\n            except BaseException:\n                brokenObservers.append((obs, Failure()))\n"),
    Silent("history-positional-deque", BUF, "deque(maxlen=size)", "deque([], size)"),
]
