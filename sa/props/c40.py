"""C40 - SMTP transfers message bodies transparently (dot-stuffing writer <-> reader, DATA-mode routing)."""
from __future__ import annotations

import ast

from sa.astx import call_attr, call_name, src, statements, walk_local
from sa.effects import class_accesses
from sa.selftest import Mutant, Silent
from sa.source import AnalysisError, class_assigns, methods
from sa.props._lib_i import (sect, NotPure, Raised, class_env, eval_block, guards_hold, is_self_attr, module_env, peval, words)

PROPERTY = "C40"
INCLUDE = [("C16", ("line", "pause"), "SMTP (LineOnlyReceiver) and SMTPClient (LineReceiver) sit on the line receivers of protocols/basic.py; "
            "their framing clauses are necessary for 'any segmentation of the network stream'")]
SMTP = "mail/smtp.py"
BASIC = "protocols/basic.py"
TECHNIQUE = "finite evaluation of stuffing rewrite + CFG dominance / who-may-write on DATA mode"
EXPLANATION = (
    "Writer: SMTPClient.transformChunk (any idiom: replace chain, precompiled class-level regex, carried state) is evaluated on "
    "every chunking of all bodies over {'.', LF, other} up to length 4 against the RFC 5321 4.5.2 reference (LF -> CRLF, a '.' at "
    "line start doubled): no '.' elsewhere may be doubled, no other byte changed, every line-start '.' whose line start lies inside "
    "its chunk doubled; a line-start '.' that is the first byte of a chunk must be doubled too (today it is not: known finding F40). finishedFileTransfer is evaluated for every kind of last byte; smtpState_data must wire "
    "both into FileSender, whose resumeProducing must transform every chunk it writes and remember the last written byte. "
    "Reader: in SMTP.dataLineReceived the end-of-data actions are guarded by exactly line == b'.', exactly one leading '.' is "
    "stripped from other dot-lines, every other line reaches message.lineReceived(line); lineReceived dispatches state_<mode> "
    "and state_DATA is dataLineReceived; self.mode has an allow-list of writers and do_DATA arms DATA mode and the per-message "
    "state before 354. Not decided: end-to-end body equality, LineOnlyReceiver framing (C16), over-long lines."
)
ASSUMPTIONS = [
    "bodies are LF-terminated lines without CR and no line exceeds MAX_LENGTH (lineLengthExceeded legitimately leaves DATA mode)",
    "LineOnlyReceiver delivers every CRLF-delimited line to lineReceived (property C16)",
]

BODY_ALPHABET = (b".", b"\n", b"a")
READER_LINES = [b"", b".", b"..", b".a", b"a", b"a.", b"...", b". ", b".\r", b" .", b".."+b"a"]
CLIENT_CLASSES = ["SMTPClient", "ESMTPClient", "SenderMixin", "SMTPSender", "ESMTPSender"]
SERVER_CLASSES = ["SMTP", "ESMTP"]
MODE_WRITERS = {
    # (class.function, value) pairs allowed to write self.mode, one line of reason each
    ("SMTP.__init__", "COMMAND"): "initial mode",
    ("SMTP.do_DATA", "DATA"): "the DATA command",
    ("SMTP.do_DATA", "COMMAND"): "message factory failed before 354 was sent (checked: only in handlers, never followed by 354)",
    ("SMTP.dataLineReceived", "COMMAND"): "the terminating '.' (checked: guarded by line == b'.')",
    ("SMTP.lineLengthExceeded", "COMMAND"): "over-long line aborts the transfer (outside the quantifier, see ASSUMPTIONS)",
    ("ESMTP.ext_AUTH", "AUTH"): "AUTH command, reachable only through state_COMMAND",
    ("ESMTP.state_AUTH", "COMMAND"): "end of the AUTH exchange",
}


def _reference(body: bytes, delim: bytes, line_start: bool) -> bytes:
    """RFC 5321 4.5.2 sender side for an LF-delimited body; ``line_start``: is the first byte at a line start."""
    out = b""
    at_start = line_start
    for i in range(len(body)):
        b = body[i:i + 1]
        if b == b"\n":
            out += delim
            at_start = True
        else:
            if b == b"." and at_start:
                out += b"."
            out += b
            at_start = False
    return out


def _delims(ctx):
    """(server line delimiter, client line delimiter) resolved through the class hierarchy."""
    smod = ctx.mod(SMTP)

    def resolve(cls_name, base_name):
        for cn in ([cls_name] + (["ESMTP"] if cls_name == "SMTP" else ["ESMTPClient"])):
            c = smod.find(cn)
            if isinstance(c, ast.ClassDef) and "delimiter" in class_assigns(c):
                try:
                    return peval(class_assigns(c)["delimiter"], {})
                except (NotPure, Raised):
                    raise AnalysisError(f"C40: {cn}.delimiter is not a constant")
        base = ctx.cls(BASIC, base_name)
        ctx.need("delimiter" in class_assigns(base), f"{base_name}.delimiter")
        return peval(class_assigns(base)["delimiter"], {})

    srv_cls = ctx.cls(SMTP, "SMTP")
    cli_cls = ctx.cls(SMTP, "SMTPClient")
    ctx.need(any(src(b).endswith("LineOnlyReceiver") for b in srv_cls.bases), "SMTP derives from LineOnlyReceiver")
    ctx.need(any(src(b).endswith("LineReceiver") for b in cli_cls.bases), "SMTPClient derives from LineReceiver")
    return resolve("SMTP", "LineOnlyReceiver"), resolve("SMTPClient", "LineReceiver")


def _definitions(ctx, classes, name):
    """[(class name, function)] for every definition of ``name`` in the listed classes (aliases followed)."""
    mod = ctx.mod(SMTP)
    out = []
    for cn in classes:
        c = mod.find(cn)
        if not isinstance(c, ast.ClassDef):
            continue
        ms = methods(c)
        if name in ms:
            out.append((cn, ms[name]))
        elif name in class_assigns(c) and isinstance(class_assigns(c)[name], ast.Name) and class_assigns(c)[name].id in ms:
            out.append((cn, ms[class_assigns(c)[name].id]))
    return out


# ---- writer ---------------------------------------------------------------------------------------------

def _stuffing_pattern(body: bytes, delim: bytes, cut):
    """Regex accepting exactly the transmissions of ``body`` (read in chunks of sizes ``cut``) that convert LF -> delim, change
    no other byte, never double a '.' that is not at a line start, double every line-start '.' whose line start is visible
    inside its chunk, and double - or (the F40 weakness) fail to double - a line-start '.' that is the first byte of a chunk."""
    import re
    starts = set()
    pos = 0
    for c in cut:
        starts.add(pos)
        pos += c
    pat = b""
    at_start = True
    for i in range(len(body)):
        b = body[i:i + 1]
        if b == b"\n":
            pat += re.escape(delim)
            at_start = True
        else:
            if b == b"." and at_start:
                pat += b"(\\.)?" if i in starts else b"\\."
            pat += re.escape(b)
            at_start = False
    return re.compile(pat, re.DOTALL)


def _check_transform(ctx, cn, f, delim_srv):
    q = f"twisted.mail.smtp.{cn}.{f.name}"
    ctx.functions.add(f"{SMTP}:{cn}.{f.name}")
    params = [a.arg for a in f.args.args]
    ctx.need(len(params) == 2, f"{q}(self, chunk)")
    chunk = params[1]
    mod = ctx.mod(SMTP)
    chain = [ctx.cls(SMTP, "SMTPClient")] + ([mod.find(cn)] if cn != "SMTPClient" and isinstance(mod.find(cn), ast.ClassDef) else [])
    base_env = class_env(chain, module_env(mod))            # class-level constants (e.g. a precompiled regex) as self.<name>
    state = sorted({t.attr for st in statements(f) for t in _targets(st) if is_self_attr(t)})
    ignore = {c for c in (call_name(x) for x in ast.walk(f) if isinstance(x, ast.Call)) if c and c.startswith("self.") and c.count(".") == 1
              and not any(c == "self." + s for s in state) and c not in base_env}

    def run(value, env_state):
        env = dict(base_env)
        env.update(env_state)
        env[chunk] = value
        r = eval_block(f.body, env, funcs=None, ignore=ignore)
        if not r.returned:
            raise AnalysisError(f"{q}: no value returned for chunk {value!r}")
        return r.value, {k: env[k] for k in env if k.startswith("self.") and k[5:] in state}

    init = _initial_state(ctx, cn, state) if state else {}
    over = under = None
    n_eval = 0
    for w in words(BODY_ALPHABET, 4):
        body = b"".join(w)
        want = _reference(body, delim_srv, line_start=True)
        for cut in _chunkings(len(body)):
            pattern = _stuffing_pattern(body, delim_srv, cut)
            st = dict(init)
            got = b""
            pos = 0
            for c in cut:
                o, st = run(body[pos:pos + c], st)
                if not isinstance(o, bytes):
                    raise AnalysisError(f"{q}: returns {type(o).__name__} for a bytes chunk")
                got += o
                pos += c
            n_eval += 1
            if got == want:
                continue
            if pattern.fullmatch(got):
                under = under or (body, cut, got, want)
            else:
                over = over or (body, cut, got, want)
        if over and under:
            break
    ctx.check(over is None, "stuffing/writer-semantics", q,
              over and f"body {over[0]!r} read in chunks of sizes {over[1]} is sent as {over[2]!r}; required {over[3]!r}: only LF -> CRLF and doubling of a "
              "'.' at a line start are allowed (a '.' elsewhere must not be doubled, no other byte may change)",
              detail=f"{n_eval} (body, chunking) pairs over {{'.', LF, 'a'}}^<=4")
    ctx.check(under is None, "chunk/stateful-context", f"{q} | <chunk-local context pattern>",
              under and f"body {under[0]!r} read in chunks of sizes {under[1]} is sent as {under[2]!r} instead of {under[3]!r}: the transformer is applied to each "
              "FileSender read chunk separately and only sees line starts inside the chunk, so a '.' that is the first byte of the message, or the first byte of a "
              "chunk that follows a line end, is sent un-stuffed (the server strips it, or takes a lone '.' line as end of data and reads the rest of the body "
              "as commands)")


def _targets(st):
    if isinstance(st, ast.Assign):
        return list(st.targets)
    if isinstance(st, (ast.AugAssign, ast.AnnAssign)):
        return [st.target]
    return []


def _chunkings(n):
    if n == 0:
        yield ()
        return
    for first in range(1, n + 1):
        for rest in _chunkings(n - first):
            yield (first,) + rest


def _initial_state(ctx, cn, state):
    """Constant initial values of the carried-state attributes (class level or assigned in another method)."""
    mod = ctx.mod(SMTP)
    c = ctx.cls(SMTP, cn)
    init = {}
    for s in state:
        vals = []
        if s in class_assigns(c):
            vals.append(class_assigns(c)[s])
        for name, m in methods(c).items():
            if name in ("smtpState_data", "__init__", "connectionMade"):
                for st in statements(m):
                    if isinstance(st, ast.Assign) and any(is_self_attr(t, s) for t in st.targets):
                        vals.append(st.value)
        consts = set()
        for v in vals:
            try:
                consts.add(peval(v, {}))
            except (NotPure, Raised):
                raise AnalysisError(f"C40: initial value of self.{s} is not constant")
        if len(consts) != 1:
            raise AnalysisError(f"C40: cannot determine the initial value of carried state self.{s} ({consts})")
        init["self." + s] = consts.pop()
    return init


def _check_finish(ctx, cn, f, delim_cli, delim_srv):
    q = f"twisted.mail.smtp.{cn}.{f.name}"
    ctx.functions.add(f"{SMTP}:{cn}.{f.name}")
    params = [a.arg for a in f.args.args]
    ctx.need(len(params) == 2, f"{q}(self, lastsent)")
    for last in (b"\n", b"a", b".", b"\r", b"", ""):
        r = eval_block(f.body, {params[1]: last}, record={"self.sendLine", "self.transport.write"})
        wire = b""
        for name, args in r.calls:
            if len(args) != 1 or not isinstance(args[0], bytes):
                raise AnalysisError(f"{q}: unrecognised emission {name}{args}")
            wire += args[0] + (delim_cli if name == "self.sendLine" else b"")
        want = (b"" if last == b"\n" else delim_srv) + b"." + delim_srv
        ctx.check(wire == want, "terminator/emitted-on-own-line", f"{q} | last byte sent {last!r}",
                  f"after a body whose last transmitted byte is {last!r} the client sends {wire!r}; the server only ends the "
                  f"transfer on a line that is exactly '.', which needs {want!r}")


def _check_wiring(ctx, cn, f, delim_srv, delim_cli):
    """smtpState_data: FileSender gets self.<transform>; the resulting Deferred fires self.<finish>."""
    q = f"twisted.mail.smtp.{cn}.{f.name}"
    ctx.functions.add(f"{SMTP}:{cn}.{f.name}")
    begins = [c for c in ast.walk(f) if isinstance(c, ast.Call) and call_attr(c) == "beginFileTransfer"]
    ctx.need(begins, f"beginFileTransfer call in {q}")
    done = set()
    for b in begins:
        tr = b.args[2] if len(b.args) > 2 else next((k.value for k in b.keywords if k.arg == "transform"), None)
        ok = tr is not None and is_self_attr(tr)
        ctx.check(ok, "client/transform-wired", ctx.construct(q, b),
                  "the message file is handed to FileSender without the dot-stuffing / newline transformer: body lines go out "
                  "with bare LF and un-stuffed dots")
        cons = b.args[1] if len(b.args) > 1 else next((k.value for k in b.keywords if k.arg == "consumer"), None)
        ctx.check(cons is not None and src(cons) == "self.transport", "client/transform-wired", ctx.construct(q, b) + " | consumer",
                  "the body is not written to the connection's transport")
        if ok:
            for c2, tf in _definitions(ctx, CLIENT_CLASSES, tr.attr):
                if (c2, tf.name) not in done:
                    done.add((c2, tf.name))
                    _check_transform(ctx, c2, tf, delim_srv)
            ctx.check(bool(_definitions(ctx, CLIENT_CLASSES, tr.attr)), "client/transform-wired", ctx.construct(q, b) + " | resolves",
                      f"self.{tr.attr} is not defined in the SMTP client classes")
    cbs = [c for c in ast.walk(f) if isinstance(c, ast.Call) and call_attr(c) in ("addCallback", "addCallbacks", "addBoth") and c.args and is_self_attr(c.args[0])]
    ctx.check(bool(cbs), "client/finish-wired", q,
              "nothing is chained to the FileSender Deferred: the terminating '.' line is never sent, the transfer does not end")
    for c in cbs:
        defs = _definitions(ctx, CLIENT_CLASSES, c.args[0].attr)
        ctx.check(bool(defs), "client/finish-wired", ctx.construct(q, c), f"self.{c.args[0].attr} is not defined")
        for c2, ff in defs:
            if (c2, ff.name) not in done:
                done.add((c2, ff.name))
                _check_finish(ctx, c2, ff, delim_cli, delim_srv)


def _check_sendline(ctx, delim_cli):
    for cn, f in _definitions(ctx, CLIENT_CLASSES, "sendLine"):
        q = f"twisted.mail.smtp.{cn}.sendLine"
        g = ctx.cfg(f)
        p = f.args.args[1].arg
        ups = g.find(lambda x: isinstance(x, ast.Call) and call_attr(x) == "sendLine" and (call_name(x) or "").endswith("LineReceiver.sendLine")
                     and len(x.args) == 2 and src(x.args[1]) == p)
        wit = g.must_pass([g.entry], ups, exc=False)
        re = [s for s in statements(f) if any(isinstance(t, ast.Name) and t.id == p for t in _targets(s))]
        ctx.check(bool(ups) and wit is None and not re, "client/sendline-verbatim", q,
                  "the client's sendLine override does not pass the line unchanged to LineReceiver.sendLine on every path "
                  "(the terminating '.' line may be lost or altered)", witness=g.describe(wit))


# ---- FileSender -----------------------------------------------------------------------------------------

def _check_filesender(ctx):
    f = ctx.func(BASIC, "FileSender.resumeProducing")
    g = ctx.cfg(f)
    q = "twisted.protocols.basic.FileSender.resumeProducing"
    writes = g.find(lambda x: isinstance(x, ast.Call) and call_name(x) == "self.consumer.write")
    ctx.need(writes, "self.consumer.write(...) in FileSender.resumeProducing")
    reads = g.ids(lambda n: n.kind == "stmt" and isinstance(n.ast, ast.Assign) and isinstance(n.ast.value, ast.Call)
                  and call_name(n.ast.value) == "self.file.read")
    ctx.need(reads, "chunk = self.file.read(...) in FileSender.resumeProducing")
    transforms = g.ids(lambda n: n.kind == "stmt" and isinstance(n.ast, ast.Assign) and isinstance(n.ast.value, ast.Call)
                       and call_name(n.ast.value) == "self.transform")
    no_transform = []
    for t in g.ids(lambda n: n.kind == "test" and "self.transform" in src(n.ast)):
        try:
            lab = "T" if peval(g.node(t).ast, {"self.transform": None}) else "F"   # the edge taken when no transform is set
        except (NotPure, Raised):
            continue
        no_transform.append((t, lab))
    for w in writes:
        call = next(x for x in walk_local(g.node(w).ast) if isinstance(x, ast.Call) and call_name(x) == "self.consumer.write")
        var = src(call.args[0]) if call.args else ""
        tr_ok = [t for t in transforms if src(g.node(t).ast.targets[0]) == var and len(g.node(t).ast.value.args) == 1
                 and src(g.node(t).ast.value.args[0]) == var]
        wit = g.path(reads, [w], avoid=set(tr_ok), edge_ok=lambda a, b, l: l != "exc" and (a, l) not in no_transform)
        ctx.check(wit is None, "filesender/transform-every-chunk", ctx.construct(q, call),
                  "a chunk read from the file can reach consumer.write without passing through self.transform although a "
                  "transform is set (raw LF / un-stuffed dots on the wire)", witness=g.describe(wit))
        ctx.check(g.guarded(w, lambda e: src(e) == var, True), "filesender/write-nonempty", ctx.construct(q, call),
                  "an empty read (EOF) is written instead of ending the transfer")
        # last byte remembered after the write, from the written value
        lasts = g.ids(lambda n: n.kind == "stmt" and isinstance(n.ast, ast.Assign) and any(is_self_attr(t, "lastSent") for t in n.ast.targets))
        good = []
        for l in lasts:
            v = g.node(l).ast.value
            try:
                ok = all(peval(v, {var: s}) == s[-1:] for s in (b"abc", b"a", b"x\r\n", b"\n"))
            except (NotPure, Raised):
                ok = False
            ctx.check(ok, "filesender/last-byte", ctx.construct(q, g.node(l).ast),
                      "lastSent is not the last byte of the chunk just written: finishedFileTransfer decides from it whether the body "
                      "already ended a line, so the terminating '.' may be glued to the last line or preceded by a spurious blank line")
            if ok:
                good.append(l)
            ctx.check(not any(g.path([l], [t]) for t in transforms), "filesender/last-byte", ctx.construct(q, g.node(l).ast) + " | after transform",
                      "lastSent is taken before the chunk is transformed")
        wit = g.must_pass([w], good, exc=False)
        ctx.check(bool(good) and wit is None, "filesender/last-byte", ctx.construct(q, call) + " | remembered",
                  "a chunk can be written without its last byte being remembered in lastSent", witness=g.describe(wit))
    # completion: callback(self.lastSent) only at EOF
    cbs = g.find(lambda x: isinstance(x, ast.Call) and call_attr(x) == "callback" and (call_name(x) or "").startswith("self.deferred"))
    ctx.check(bool(cbs), "filesender/completion", q, "the transfer Deferred is never fired: the terminating '.' is never sent")
    for c in cbs:
        call = next(x for x in walk_local(g.node(c).ast) if isinstance(x, ast.Call) and call_attr(x) == "callback")
        ctx.check(len(call.args) == 1 and src(call.args[0]) == "self.lastSent", "filesender/completion", ctx.construct(q, call),
                  "the completion callback does not receive the last byte written")
        var = src(g.node(reads[0]).ast.targets[0])
        ctx.check(g.guarded(c, lambda e: src(e) == var, False), "filesender/completion", ctx.construct(q, call) + " | at EOF only",
                  "completion is signalled although the last read returned data (the terminator would be sent mid-body)")
    ctx.floor("filesender", len(writes) + len(cbs), 2)


# ---- reader -----------------------------------------------------------------------------------------------

def _check_reader(ctx, cn, f):
    q = f"twisted.mail.smtp.{cn}.{f.name}"
    ctx.functions.add(f"{SMTP}:{cn}.{f.name}")
    g = ctx.cfg(f)
    ctx.need(len(f.args.args) == 2, f"{q}(self, line)")
    line = f.args.args[1].arg
    is_line = lambda e: isinstance(e, ast.Name) and e.id == line  # noqa: E731
    strips = g.ids(lambda n: n.kind == "stmt" and isinstance(n.ast, (ast.Assign, ast.AugAssign)) and any(is_line(t) for t in _targets(n.ast)))
    ends = g.ids(lambda n: n.kind == "stmt" and isinstance(n.ast, ast.Assign) and any(is_self_attr(t, "mode") for t in n.ast.targets))
    eoms = g.find(lambda x: isinstance(x, ast.Call) and call_attr(x) == "eomReceived")
    # guards are evaluated on the value of `line` at function entry: no strip may precede them
    for site in ends + eoms + strips:
        for t, _ in g.edge_guards(site):
            if any(g.path([s], [t]) for s in strips):
                raise AnalysisError(f"{q}: a guard of {g.node(site).text()} is evaluated after `{line}` was rewritten (not modelled)")

    def sat(site):
        return [c for c in READER_LINES if guards_hold(g, site, {line: c})]

    ctx.check(bool(ends), "reader/terminator", q + " | end of DATA mode",
              "no statement leaves DATA mode: the terminating '.' never ends the transfer")
    for e in ends + eoms:
        s = sat(e)
        extra = [c for c in s if c != b"."]
        ctx.check(s == [b"."], "reader/terminator", ctx.construct(q, g.node(e).ast),
                  (f"the end-of-data action is also taken for body line(s) {extra!r}" if extra else
                   "the end-of-data action is not taken for the line b'.'") + " (the transfer must end exactly at the client's terminating '.')")
    ctx.check(bool(strips), "reader/strip-one-dot", q + " | de-stuffing",
              "the leading '.' added by the client's dot-stuffing is never removed: every dot-line arrives with an extra '.'")
    want = [c for c in READER_LINES if c[:1] == b"." and c != b"."]
    for sidx in strips:
        st = g.node(sidx).ast
        s = sat(sidx)
        bad = None
        if s != want:
            diff = sorted(set(s) ^ set(want))
            bad = f"de-stuffing is applied to the wrong set of lines (differs on {diff!r})"
        elif isinstance(st, ast.Assign):
            for c in want:
                try:
                    v = peval(st.value, {line: c})
                except (NotPure, Raised) as ex:
                    raise AnalysisError(f"{q}: de-stuffing expression not evaluable: {src(st)} ({ex})")
                if v != c[1:]:
                    bad = f"the stuffed line {c!r} is delivered as {v!r} instead of {c[1:]!r}"
                    break
        else:
            raise AnalysisError(f"{q}: de-stuffing statement shape not recognised: {src(st)}")
        ctx.check(bad is None, "reader/strip-one-dot", ctx.construct(q, st), bad or "")
    # every non-terminator line reaches message.lineReceived(line)
    deliver_calls = g.find(lambda x: isinstance(x, ast.Call) and call_attr(x) == "lineReceived" and len(x.args) == 1 and is_line(x.args[0]))
    deliver_loops = g.ids(lambda n: n.kind == "for" and any(isinstance(x, ast.Call) and call_attr(x) == "lineReceived" and len(x.args) == 1 and is_line(x.args[0])
                                                            for b in n.ast.body for x in ast.walk(b)))
    deliver = set(deliver_calls) | set(deliver_loops)
    ctx.check(bool(deliver), "reader/delivers-every-line", q, "body lines are never handed to the message objects")
    failed = [d for t in g.ids(lambda n: n.kind == "test" and src(n.ast) == "self.datafailed") for d, l in g.succ[t] if l == "T"]
    wit = g.must_pass([g.entry], deliver | set(ends) | set(failed), exc=False)
    ctx.check(wit is None, "reader/delivers-every-line", q + " | every path",
              "a body line that is not the terminator can be dropped without reaching message.lineReceived", witness=g.describe(wit))
    for d in sorted(deliver):
        w = next((g.path([d], [s]) for s in strips if g.path([d], [s])), None)
        ctx.check(w is None, "reader/delivers-every-line", ctx.construct(q, g.node(d).ast) + " | after de-stuffing",
                  "the line is delivered before its stuffing dot is removed", witness=g.describe(w))
        w = g.path(ends, [d], edge_ok=lambda a, b, l: l != "exc")
        ctx.check(w is None, "reader/terminator", ctx.construct(q, g.node(d).ast) + " | terminator not delivered",
                  "the terminating '.' line itself is delivered to the message as body content", witness=g.describe(w))


def _check_dispatch(ctx, env):
    mod = ctx.mod(SMTP)
    for cn, f in _definitions(ctx, SERVER_CLASSES, "lineReceived"):
        q = f"twisted.mail.smtp.{cn}.lineReceived"
        ctx.functions.add(f"{SMTP}:{cn}.lineReceived")
        g = ctx.cfg(f)
        line = f.args.args[1].arg

        def is_dispatch(x):
            return (isinstance(x, ast.Call) and isinstance(x.func, ast.Call) and call_name(x.func) == "getattr" and len(x.func.args) >= 2
                    and src(x.func.args[0]) == "self" and "self.mode" in src(x.func.args[1]))
        ds = g.find(is_dispatch)
        ctx.need(ds, f"getattr(self, 'state_' + self.mode)(line) in {q}")
        wit = g.must_pass([g.entry], ds, exc=False)
        ctx.check(wit is None, "dispatch/every-line-by-mode", q, "a received line can bypass the per-mode dispatch", witness=g.describe(wit))
        for d in ds:
            call = next(x for x in walk_local(g.node(d).ast) if is_dispatch(x))
            ctx.check(len(call.args) == 1 and src(call.args[0]) == line and not any(isinstance(t, ast.Name) and t.id == line for s in statements(f) for t in _targets(s)),
                      "dispatch/every-line-by-mode", ctx.construct(q, call), "the dispatched handler does not receive the line exactly as received")
            try:
                name = peval(call.func.args[1], {"self.mode": env.get("DATA")})
            except (NotPure, Raised) as ex:
                raise AnalysisError(f"{q}: handler name expression not evaluable ({ex})")
            ctx.check(env.get("DATA") is not None and name == "state_" + str(env.get("DATA")), "dispatch/data-mode-handler", ctx.construct(q, call) + " | name",
                      f"in DATA mode the dispatcher looks up {name!r}")
            # the handler is the analysed reader in every server class
            for sc in SERVER_CLASSES:
                c = ctx.cls(SMTP, sc)
                if sc == "SMTP" or name in methods(c) or name in class_assigns(c):
                    defs = _definitions(ctx, [sc], name)
                    ctx.check(bool(defs), "dispatch/data-mode-handler", f"twisted.mail.smtp.{sc}.{name}",
                              f"{sc}.{name} does not resolve to a method: a body line in DATA mode has no handler")
                    for c2, rf in defs:
                        _check_reader(ctx, c2, rf)
                        has_cmd = any(isinstance(x, ast.Call) and (call_attr(x) in ("lookupMethod", "state_COMMAND") or (call_attr(x) or "").startswith("do_"))
                                      for x in ast.walk(rf))
                        ctx.check(not has_cmd, "dispatch/no-command-in-data", f"twisted.mail.smtp.{c2}.{rf.name}",
                                  "the DATA-mode handler reaches the command interpreter: body content can run as an SMTP command")


def _check_mode_writers(ctx):
    mod = ctx.mod(SMTP)
    n = 0
    for sc in SERVER_CLASSES:
        c = ctx.cls(SMTP, sc)
        for a in class_accesses(mod, c, {"mode"}, receivers={"self"}):
            n += 1
            val = src(getattr(a.node, "value", None))
            ok = (a.func, val) in MODE_WRITERS and a.kind == "assign"
            ctx.check(ok, "who-may-write/mode", ctx.construct("twisted.mail.smtp." + a.func, a.node),
                      f"self.mode is set to {val} in {a.func}: an unexpected writer can end (or fail to start) DATA mode, so body lines "
                      "would be interpreted as SMTP commands or commands swallowed as body")
    ctx.floor("who-may-write/mode", n, 9)


def _check_do_data(ctx):
    f = ctx.func(SMTP, "SMTP.do_DATA")
    g = ctx.cfg(f)
    q = "twisted.mail.smtp.SMTP.do_DATA"
    go = g.find(lambda x: isinstance(x, ast.Call) and call_name(x) == "self.sendCode" and x.args and isinstance(x.args[0], ast.Constant) and x.args[0].value == 354)
    ctx.need(go, "self.sendCode(354, ...) in do_DATA")

    def assigns(attr, value=None):
        return g.ids(lambda n: n.kind == "stmt" and isinstance(n.ast, ast.Assign) and any(is_self_attr(t, attr) for t in n.ast.targets)
                     and (value is None or src(n.ast.value) == value))
    arm = assigns("mode", "DATA")
    ctx.check(bool(arm), "do_DATA/armed-before-354", q + " | self.mode = DATA", "DATA mode is never entered")
    for attr, nodes, why in (("mode", arm, "the server is still in COMMAND mode when the client is told to send the body: the first body lines are run as commands"),
                             ("__messages", assigns("__messages"), "the message list is not in place when body lines start to arrive"),
                             ("__inheader", assigns("__inheader"), "header-detection state of the previous message leaks into this one"),
                             ("__inbody", assigns("__inbody"), "header-detection state of the previous message leaks into this one")):
        wit = g.must_precede(nodes, go, exc=False)
        ctx.check(bool(nodes) and wit is None, "do_DATA/armed-before-354", f"{q} | self.{attr} before 354", why, witness=g.describe(wit))
    disarm = assigns("mode", "COMMAND")
    for a in arm:
        wit = g.must_pass([a], set(go) | set(disarm), to={g.exit}, exc=True)
        ctx.check(wit is None, "do_DATA/armed-implies-354", q + " | self.mode = DATA",
                  "do_DATA can return in DATA mode without having sent 354: the client's next commands are swallowed as body",
                  witness=g.describe(wit))
    for d in disarm:
        in_handler = any(g.node(x).kind == "handler" for x in g.dominators().get(d, ()))
        wit = g.path([d], go, edge_ok=lambda a, b, l: l != "exc")
        ctx.check(in_handler and wit is None, "do_DATA/disarm-only-on-failure", ctx.construct(q, g.node(d).ast) + (" | in handler" if in_handler else ""),
                  "DATA mode is left again on a path that still sends 354 (body would be read as commands)", witness=g.describe(wit))
    # precondition failure returns before arming
    early = g.find(lambda x: isinstance(x, ast.Call) and call_name(x) == "self.sendCode" and x.args and isinstance(x.args[0], ast.Constant) and x.args[0].value == 503)
    for e in early:
        wit = g.path([e], arm, edge_ok=lambda a, b, l: l != "exc")
        ctx.check(wit is None, "do_DATA/armed-implies-354", ctx.construct(q, g.node(e).ast),
                  "after refusing DATA with 503 the server still enters DATA mode", witness=g.describe(wit))


def check(ctx):
    env = module_env(ctx.mod(SMTP))
    ctx.need(env.get("DATA") == "DATA" and env.get("COMMAND") == "COMMAND", "module constants COMMAND, DATA")
    delim_srv, delim_cli = _delims(ctx)
    ctx.check(delim_srv == delim_cli == b"\r\n", "framing/delimiter-agreement", "twisted.mail.smtp.SMTP.delimiter ~ SMTPClient.delimiter",
              f"server splits lines at {delim_srv!r}, client terminates lines with {delim_cli!r}")
    wired = _definitions(ctx, CLIENT_CLASSES, "smtpState_data")
    ctx.need(wired, "SMTPClient.smtpState_data")
    for cn, f in wired:
        with sect(ctx, f"client wiring / writer ({cn})"):
            _check_wiring(ctx, cn, f, delim_srv, delim_cli)
    with sect(ctx, "client sendLine"):
        _check_sendline(ctx, delim_cli)
    with sect(ctx, "FileSender"):
        _check_filesender(ctx)
    with sect(ctx, "server dispatch / reader"):
        _check_dispatch(ctx, env)
    with sect(ctx, "mode writers"):
        _check_mode_writers(ctx)
    with sect(ctx, "do_DATA"):
        _check_do_data(ctx)


_TC = '        return chunk.replace(b"\\n", b"\\r\\n").replace(b"\\r\\n.", b"\\r\\n..")\n'
MUTANTS = [
    Mutant("stuff-before-newline-conversion", SMTP, _TC, '        return chunk.replace(b"\\r\\n.", b"\\r\\n..").replace(b"\\n", b"\\r\\n")\n',
           expect_rule="stuffing/writer-semantics"),
    Mutant("stuff-every-dot", SMTP, _TC, '        return chunk.replace(b"\\n", b"\\r\\n").replace(b".", b"..")\n', expect_rule="stuffing/writer-semantics"),
    Mutant("finish-condition-inverted", SMTP, '        if lastsent != b"\\n":\n            line = b"\\r\\n."\n', '        if lastsent == b"\\n":\n            line = b"\\r\\n."\n',
           expect_rule="terminator/emitted-on-own-line"),
    Mutant("finish-compares-str", SMTP, '        if lastsent != b"\\n":\n', '        if lastsent != "\\n":\n', expect_rule="terminator/emitted-on-own-line"),
    Mutant("terminator-prefix-match", SMTP, '            if line == b".":\n                self.mode = COMMAND\n', '            if line.rstrip() == b".":\n                self.mode = COMMAND\n',
           expect_rule="reader/terminator"),
    Mutant("terminator-any-dot-line", SMTP, '        if line[:1] == b".":\n            if line == b".":\n', '        if line[:1] == b".":\n            if line.strip(b".") == b"":\n',
           expect_rule="reader/terminator"),
    Mutant("strip-all-dots", SMTP, '            line = line[1:]\n\n        if self.datafailed:\n', '            line = line.lstrip(b".")\n\n        if self.datafailed:\n',
           expect_rule="reader/strip-one-dot"),
    Mutant("drop-destuffing", SMTP, '            line = line[1:]\n\n        if self.datafailed:\n', '\n        if self.datafailed:\n', expect_rule="reader/strip-one-dot"),
    Mutant("blank-line-dropped", SMTP, '            if not line:\n                self.__inbody = 1\n', '            if not line:\n                self.__inbody = 1\n                return\n',
           expect_rule="reader/delivers-every-line"),
    Mutant("mode-armed-after-354", SMTP, '        self.mode = DATA\n        helo, origin = self._helo, self._from\n', '        helo, origin = self._helo, self._from\n',
           more=[(SMTP, '        self.sendCode(354, b"Continue")\n', '        self.sendCode(354, b"Continue")\n        self.mode = DATA\n')], expect_rule="do_DATA/armed-before-354"),
    Mutant("rset-leaves-data-mode", SMTP, '        self._to = []\n        self.sendCode(250, b"I remember nothing.")\n', '        self._to = []\n        self.mode = COMMAND\n        self.sendCode(250, b"I remember nothing.")\n',
           expect_rule="who-may-write/mode"),
    Mutant("failure-keeps-data-mode", SMTP, '                self.sendCode(e.code, e.resp)\n                self.mode = COMMAND\n', '                self.sendCode(e.code, e.resp)\n',
           expect_rule="do_DATA/armed-implies-354"),
    Mutant("transform-not-wired", SMTP, 's.beginFileTransfer(self.getMailData(), self.transport, self.transformChunk)', 's.beginFileTransfer(self.getMailData(), self.transport)',
           expect_rule="client/transform-wired"),
    Mutant("lastsent-first-byte", BASIC, "        self.lastSent = chunk[-1:]\n", "        self.lastSent = chunk[:1]\n", expect_rule="filesender/last-byte"),
    Mutant("lastsent-before-transform", BASIC, "        if self.transform:\n            chunk = self.transform(chunk)\n        self.consumer.write(chunk)\n        self.lastSent = chunk[-1:]\n",
           "        self.lastSent = chunk[-1:]\n        if self.transform:\n            chunk = self.transform(chunk)\n        self.consumer.write(chunk)\n", expect_rule="filesender/last-byte"),
    Mutant("transform-only-first-chunk", BASIC, "        if self.transform:\n            chunk = self.transform(chunk)\n", "        if self.transform and not self.lastSent:\n            chunk = self.transform(chunk)\n",
           expect_rule="filesender/transform-every-chunk"),
    Mutant("stateful-repair-wrong-state", SMTP, _TC,
           '        chunk = chunk.replace(b"\\n", b"\\r\\n").replace(b"\\r\\n.", b"\\r\\n..")\n'
           '        if self._atLineStart and chunk[:1] == b".":\n            chunk = b"." + chunk\n'
           '        self._atLineStart = chunk[-1:] != b"\\n"\n        return chunk\n',
           more=[(SMTP, "    ## Helpers for FileSender\n    ##\n", "    ## Helpers for FileSender\n    ##\n    _atLineStart = True\n\n")],
           expect_rule="stuffing/writer-semantics"),
    Mutant("regex-stuffing-anchored-at-chunk-start", SMTP, _TC,
           '        chunk = self._lineStartDot.sub(b"..", chunk)\n        return chunk.replace(b"\\n", b"\\r\\n")\n',
           more=[(SMTP, "    ## Helpers for FileSender\n    ##\n", "    ## Helpers for FileSender\n    ##\n    _lineStartDot = re.compile(rb\"^\\.\", re.MULTILINE)\n\n")],
           expect_rule="stuffing/writer-semantics"),
    Mutant("header-state-not-reset", SMTP, "        self.__inheader = self.__inbody = 0\n        self.sendCode(354", "        self.__inbody = 0\n        self.sendCode(354", expect_rule="do_DATA/armed-before-354"),
]
SILENT = [
    Silent("f40-repaired-stateful-transform", SMTP, _TC,
           '        chunk = chunk.replace(b"\\n", b"\\r\\n").replace(b"\\r\\n.", b"\\r\\n..")\n'
           '        if self._atLineStart and chunk[:1] == b".":\n            chunk = b"." + chunk\n'
           '        self._atLineStart = chunk[-1:] == b"\\n"\n        return chunk\n',
           more=[(SMTP, "    ## Helpers for FileSender\n    ##\n", "    ## Helpers for FileSender\n    ##\n    _atLineStart = True\n\n")]),
    Silent("regex-stuffing-line-start-aware-across-chunks", SMTP, _TC,
           '        pad = b"" if self._atLineStart else b"x"\n        out = self._lineStartDot.sub(b"..", pad + chunk)[len(pad):]\n'
           '        self._atLineStart = chunk[-1:] == b"\\n"\n        return out.replace(b"\\n", b"\\r\\n")\n',
           more=[(SMTP, "    ## Helpers for FileSender\n    ##\n", "    ## Helpers for FileSender\n    ##\n    _lineStartDot = re.compile(rb\"^\\.\", re.MULTILINE)\n    _atLineStart = True\n\n")]),
    Silent("reader-startswith-and-inverted-test", SMTP, '        if line[:1] == b".":\n            if line == b".":\n', '        if line.startswith(b"."):\n            if not line != b".":\n'),
    Silent("stuff-then-convert", SMTP, _TC, '        return chunk.replace(b"\\n.", b"\\n..").replace(b"\\n", b"\\r\\n")\n'),
    Silent("finish-branches-swapped", SMTP, '        if lastsent != b"\\n":\n            line = b"\\r\\n."\n        else:\n            line = b"."\n',
           '        if lastsent == b"\\n":\n            line = b"."\n        else:\n            line = b"\\r\\n."\n'),
    Silent("filesender-rename-local", BASIC, "        if self.transform:\n            chunk = self.transform(chunk)\n        self.consumer.write(chunk)\n        self.lastSent = chunk[-1:]\n",
           "        if self.transform is not None and self.transform:\n            chunk = self.transform(chunk)\n        self.consumer.write(chunk)\n        self.lastSent = chunk[len(chunk) - 1 :]\n"),
]
