"""C40 - SMTP transfers message bodies transparently (dot-stuffing writer <-> reader, DATA-mode routing)."""
from __future__ import annotations

import ast

from sa.astx import call_attr, call_name, src, statements, walk_local
from sa.effects import class_accesses
from sa.selftest import Mutant, Silent
from sa.source import AnalysisError, class_assigns, methods
from sa.props._lib_i import (sect, COMPAT, Abstain, BlockRaised, FollowModule, Model, NotPure, Raised, bind_methods, class_env, domain_argument, eval_block, guards_hold,
                             is_self_attr, kinded, module_env, peval, structural, words)
from sa.props._lib_c import norm_class

PROPERTY = "C40"
INCLUDE = [("C16", ("line", "pause"), "SMTP (LineOnlyReceiver) and SMTPClient (LineReceiver) sit on the line receivers of protocols/basic.py; "
            "their framing clauses are necessary for 'any segmentation of the network stream'")]
RULE_KINDS = {
    "framing/": "structural", "dispatch/": "structural", "who-may-write/": "structural", "do_DATA/": "structural", "client/sendline-verbatim": "structural",
    "wiring/": "structural", "filesender-cfg/": "structural", "reader-cfg/": "structural",
    "reader-guards/": "finite-exhaustive",        # guard sets of the normalised handler over the complete set of line classes (domain argument checked)
    "stuffing/": "finite-exhaustive", "chunk/": "finite-exhaustive", "chunk/state-reset-per-message": "structural", "terminator/": "finite-exhaustive",
    "stuffing/writer-semantics (bounded)": "bounded", "terminator/emitted-on-own-line (bounded)": "bounded",
    "client/": "bounded", "filesender/": "bounded", "reader/": "bounded", "do_DATA-eval/": "bounded", "dispatch-eval/": "bounded",
    "transaction-state/": "structural", "transaction-eval/": "bounded",
}
SMTP = "mail/smtp.py"
BASIC = "protocols/basic.py"
TECHNIQUE = "CFG/def-use on normalised classes; finite-exhaustive stuffing over classes; bounded scenarios"
EXPLANATION = (
    'STRUCTURAL (for-all paths, on the class with private helpers inlined and temporaries substituted): smtpState_data hand'
    's FileSender a client method as transform and self.transport as consumer and chains a client method to the Deferred; i'
    'n FileSender.resumeProducing every read->write path passes the transform, lastSent is taken from the written chunk aft'
    'er the transform, completion only on the empty-read branch; in the DATA handler every non-terminator path reaches mess'
    'age.lineReceived after de-stuffing and the terminator is not delivered; lineReceived dispatches state_<mode>, state_DA'
    'TA is the handler and never reaches the command interpreter; self.mode writers are an allow-list closed over the intra'
    '-class call graph; do_DATA (normalised; absence-based verdicts abstain when a helper could not be inlined) arms DATA mode and the per-message state before 354 and leaves it again on every refusal; every attribute the DATA handler reads in a test (or iterates) guarding message.lineReceived and itself changes is written on every do_DATA path to 354 (else a note when the handler puts it back after end of data); delimiters agree. FINITE-EXHAUSTIVE (d'
    "omain premise checked on the code): the transformer mentions only '.', CR, LF, rewrites windows of <= 2 source units a"
    "nd carries one flag, so every body over {'.', LF, other}^<=4 under every chunking is a complete domain - no '.' off a "
    "line start doubled, no other byte changed, in-chunk line starts stuffed; a chunk-initial line-start '.' is not (known "
    "finding F40); the handler's guards read the line only by comparison with constants, so {empty, '.', '.'+rest, other} i"
    "s complete - end of data exactly at '.', one dot stripped; finishedFileTransfer compares its argument with constants o"
    'nly - every class of last byte. BOUNDED second layer (scenarios with recording stand-ins): wiring, FileSender call aft'
    'er call, the handler line by line incl. a refusing message sink, two messages on one connection the first refused mid-body. Not decided: end-to-end body equality, over-long line'
    's; LineOnlyReceiver framing is included from C16.'
)
ASSUMPTIONS = [
    "bodies are LF-terminated lines without CR and no line exceeds MAX_LENGTH (lineLengthExceeded legitimately leaves DATA mode)",
    "LineOnlyReceiver delivers every CRLF-delimited line to lineReceived (property C16)",
]

BODY_ALPHABET = (b".", b"\n", b"a")
READER_LINES = [b"", b".", b"..", b".a", b"a", b"a.", b"...", b". ", b".\r", b" .", b".."+b"a"]
CLIENT_CLASSES = ["SMTPClient", "ESMTPClient", "SenderMixin", "SMTPSender", "ESMTPSender"]
SERVER_CLASSES = ["SMTP", "ESMTP"]
MODE_WRITERS = {
    # (class.function, value) pairs allowed to write self.mode, one line of reason each
    ("SMTP.__init__", "COMMAND"): "initial mode",
    ("SMTP.do_DATA", "DATA"): "the DATA command",
    ("SMTP.do_DATA", "COMMAND"): "message factory failed before 354 was sent (checked: only in handlers, never followed by 354)",
    ("SMTP.dataLineReceived", "COMMAND"): "the terminating '.' (checked: guarded by line == b'.')",
    ("SMTP.lineLengthExceeded", "COMMAND"): "over-long line aborts the transfer (outside the quantifier, see ASSUMPTIONS)",
    ("ESMTP.ext_AUTH", "AUTH"): "AUTH command, reachable only through state_COMMAND",
    ("ESMTP.state_AUTH", "COMMAND"): "end of the AUTH exchange",
}


def _reference(body: bytes, delim: bytes, line_start: bool) -> bytes:
    """RFC 5321 4.5.2 sender side for an LF-delimited body; ``line_start``: is the first byte at a line start."""
    out = b""
    at_start = line_start
    for i in range(len(body)):
        b = body[i:i + 1]
        if b == b"\n":
            out += delim
            at_start = True
        else:
            if b == b"." and at_start:
                out += b"."
            out += b
            at_start = False
    return out


def _delims(ctx):
    """(server line delimiter, client line delimiter) resolved through the class hierarchy."""
    smod = ctx.mod(SMTP)

    def resolve(cls_name, base_name):
        for cn in ([cls_name] + (["ESMTP"] if cls_name == "SMTP" else ["ESMTPClient"])):
            c = smod.find(cn)
            if isinstance(c, ast.ClassDef) and "delimiter" in class_assigns(c):
                try:
                    return peval(class_assigns(c)["delimiter"], {})
                except (NotPure, Raised):
                    raise AnalysisError(f"C40: {cn}.delimiter is not a constant")
        base = ctx.cls(BASIC, base_name)
        ctx.need("delimiter" in class_assigns(base), f"{base_name}.delimiter")
        return peval(class_assigns(base)["delimiter"], {})

    srv_cls = ctx.cls(SMTP, "SMTP")
    cli_cls = ctx.cls(SMTP, "SMTPClient")
    ctx.need(any(src(b).endswith("LineOnlyReceiver") for b in srv_cls.bases), "SMTP derives from LineOnlyReceiver")
    ctx.need(any(src(b).endswith("LineReceiver") for b in cli_cls.bases), "SMTPClient derives from LineReceiver")
    return resolve("SMTP", "LineOnlyReceiver"), resolve("SMTPClient", "LineReceiver")


def _definitions(ctx, classes, name):
    """[(class name, function)] for every definition of ``name`` in the listed classes (aliases followed)."""
    mod = ctx.mod(SMTP)
    out = []
    for cn in classes:
        c = mod.find(cn)
        if not isinstance(c, ast.ClassDef):
            continue
        ms = methods(c)
        if name in ms:
            out.append((cn, ms[name]))
        elif name in class_assigns(c) and isinstance(class_assigns(c)[name], ast.Name) and class_assigns(c)[name].id in ms:
            out.append((cn, ms[class_assigns(c)[name].id]))
    return out


# ---- writer ---------------------------------------------------------------------------------------------

def _stuffing_pattern(body: bytes, delim: bytes, cut):
    """Regex accepting exactly the transmissions of ``body`` (read in chunks of sizes ``cut``) that convert LF -> delim, change
    no other byte, never double a '.' that is not at a line start, double every line-start '.' whose line start is visible
    inside its chunk, and double - or (the F40 weakness) fail to double - a line-start '.' that is the first byte of a chunk."""
    import re
    starts = set()
    pos = 0
    for c in cut:
        starts.add(pos)
        pos += c
    pat = b""
    at_start = True
    for i in range(len(body)):
        b = body[i:i + 1]
        if b == b"\n":
            pat += re.escape(delim)
            at_start = True
        else:
            if b == b"." and at_start:
                pat += b"(\\.)?" if i in starts else b"\\."
            pat += re.escape(b)
            at_start = False
    return re.compile(pat, re.DOTALL)


def _transform_domain_argument(f, base_env):
    """Premise that makes {'.', LF, other}^<=4 x every chunking a complete domain: the transformer mentions no byte other than
    '.', CR, LF (so all other bytes are treated alike, and CR is excluded by the property), rewrites with patterns of at most two
    source units (LF '.'), and carries at most one remembered unit of state (a flag computed from the chunk's edge)."""
    import re as _re
    consts = []
    for n in ast.walk(f):
        if isinstance(n, ast.Constant) and isinstance(n.value, bytes):
            consts.append(n.value)
        elif is_self_attr(n) and isinstance(n.ctx, ast.Load) and ("self." + n.attr) in base_env:
            v = base_env["self." + n.attr]
            stack = [v]
            while stack:
                x = stack.pop()
                if isinstance(x, (tuple, list)):
                    stack.extend(x)
                elif isinstance(x, bytes):
                    consts.append(x)
                elif isinstance(x, _re.Pattern) and isinstance(x.pattern, bytes):
                    consts.append(x.pattern.replace(b"^", b"").replace(b"\\", b"").replace(b"$", b""))
    extra = sorted({bytes([c]) for k in consts for c in k} - {b".", b"\r", b"\n"})
    if extra:
        return False, f"the transformer mentions byte(s) {extra!r} besides '.', CR, LF"
    if any(len(k.replace(b"\r", b"")) > 2 for k in consts):
        return False, "a rewrite pattern spans more than two source units"
    calls = {call_attr(c) for c in ast.walk(f) if isinstance(c, ast.Call)}
    odd = calls - {"replace", "sub", "resetTimeout", "startswith", "endswith", "len", None}
    if odd:
        return False, f"the transformer calls {sorted(odd)!r}"
    return True, "transformer constants lie in {'.', CR, LF}, patterns span <= 2 source units, state is one edge flag: bodies over {'.', LF, other} of length <= 4 under every chunking cover every window and every carried state"


def _check_transform(ctx, cn, f, delim_srv):
    q = f"twisted.mail.smtp.{cn}.{f.name}"
    ctx.functions.add(f"{SMTP}:{cn}.{f.name}")
    params = [a.arg for a in f.args.args]
    ctx.need(len(params) == 2, f"{q}(self, chunk)")
    chunk = params[1]
    mod = ctx.mod(SMTP)
    chain = [ctx.cls(SMTP, "SMTPClient")] + ([mod.find(cn)] if cn != "SMTPClient" and isinstance(mod.find(cn), ast.ClassDef) else [])
    base_env = class_env(chain, module_env(mod))            # class-level constants (e.g. a precompiled regex) as self.<name>
    state = sorted({t.attr for st in statements(f) for t in _targets(st) if is_self_attr(t)})
    ignore = {c for c in (call_name(x) for x in ast.walk(f) if isinstance(x, ast.Call)) if c and c.startswith("self.") and c.count(".") == 1
              and not any(c == "self." + s for s in state) and c not in base_env}

    def run(value, env_state):
        env = dict(base_env)
        env.update(env_state)
        env[chunk] = value
        r = eval_block(f.body, env, funcs=None, ignore=ignore)
        if not r.returned:
            raise AnalysisError(f"{q}: no value returned for chunk {value!r}")
        return r.value, {k: env[k] for k in env if k.startswith("self.") and k[5:] in state}

    init = _initial_state(ctx, cn, state) if state else {}
    exhaustive, why_dom = _transform_domain_argument(f, base_env)
    if not exhaustive:
        ctx.note(f"{q}: domain argument not established ({why_dom}); the chunking evaluation is bounded evidence")
    over = under = None
    n_eval = 0
    for w in words(BODY_ALPHABET, 4):
        body = b"".join(w)
        want = _reference(body, delim_srv, line_start=True)
        for cut in _chunkings(len(body)):
            pattern = _stuffing_pattern(body, delim_srv, cut)
            st = dict(init)
            got = b""
            pos = 0
            for c in cut:
                o, st = run(body[pos:pos + c], st)
                if not isinstance(o, bytes):
                    raise AnalysisError(f"{q}: returns {type(o).__name__} for a bytes chunk")
                got += o
                pos += c
            n_eval += 1
            if got == want:
                continue
            if pattern.fullmatch(got):
                under = under or (body, cut, got, want)
            else:
                over = over or (body, cut, got, want)
        if over and under:
            break
    ctx.check(over is None, kinded("stuffing/writer-semantics", exhaustive), q,
              over and f"body {over[0]!r} read in chunks of sizes {over[1]} is sent as {over[2]!r}; required {over[3]!r}: only LF -> CRLF and doubling of a "
              "'.' at a line start are allowed (a '.' elsewhere must not be doubled, no other byte may change)",
              detail=f"{n_eval} (body, chunking) pairs over {{'.', LF, 'a'}}^<=4; " + why_dom)
    ctx.check(under is None, "chunk/stateful-context", f"{q} | <chunk-local context pattern>",
              under and f"body {under[0]!r} read in chunks of sizes {under[1]} is sent as {under[2]!r} instead of {under[3]!r}: the transformer is applied to each "
              "FileSender read chunk separately and only sees line starts inside the chunk, so a '.' that is the first byte of the message, or the first byte of a "
              "chunk that follows a line end, is sent un-stuffed (the server strips it, or takes a lone '.' line as end of data and reads the rest of the body "
              "as commands)")


def _targets(st):
    if isinstance(st, ast.Assign):
        return list(st.targets)
    if isinstance(st, (ast.AugAssign, ast.AnnAssign)):
        return [st.target]
    return []


def _chunkings(n):
    if n == 0:
        yield ()
        return
    for first in range(1, n + 1):
        for rest in _chunkings(n - first):
            yield (first,) + rest


def _initial_state(ctx, cn, state):
    """Constant initial values of the carried-state attributes (class level or assigned in another method)."""
    mod = ctx.mod(SMTP)
    c = ctx.cls(SMTP, cn)
    init = {}
    for s in state:
        vals = []
        if s in class_assigns(c):
            vals.append(class_assigns(c)[s])
        for name, m in methods(c).items():
            if name in ("smtpState_data", "__init__", "connectionMade"):
                for st in statements(m):
                    if isinstance(st, ast.Assign) and any(is_self_attr(t, s) for t in st.targets):
                        vals.append(st.value)
        consts = set()
        for v in vals:
            try:
                consts.add(peval(v, {}))
            except (NotPure, Raised):
                raise AnalysisError(f"C40: initial value of self.{s} is not constant")
        if len(consts) != 1:
            raise AnalysisError(f"C40: cannot determine the initial value of carried state self.{s} ({consts})")
        init["self." + s] = consts.pop()
    return init


def _check_finish(ctx, cn, f, delim_cli, delim_srv):
    q = f"twisted.mail.smtp.{cn}.{f.name}"
    ctx.functions.add(f"{SMTP}:{cn}.{f.name}")
    params = [a.arg for a in f.args.args]
    ctx.need(len(params) == 2, f"{q}(self, lastsent)")
    exhaustive, why_dom = domain_argument([f], inputs={params[1]})
    consts = {n.value for n in ast.walk(f) if isinstance(n, ast.Constant) and isinstance(n.value, (bytes, str))}
    exhaustive = exhaustive and {c[-1:] for c in consts if c} <= {b"\n", b"\r", b".", "\n"}
    rule = kinded("terminator/emitted-on-own-line", exhaustive)
    for last in (b"\n", b"a", b".", b"\r", b"", ""):
        r = eval_block(f.body, {params[1]: last}, record={"self.sendLine", "self.transport.write"})
        wire = b""
        for name, args in r.calls:
            if len(args) != 1 or not isinstance(args[0], bytes):
                raise AnalysisError(f"{q}: unrecognised emission {name}{args}")
            wire += args[0] + (delim_cli if name == "self.sendLine" else b"")
        want = (b"" if last == b"\n" else delim_srv) + b"." + delim_srv
        ctx.check(wire == want, rule, f"{q} | last byte sent {last!r}",
                  f"after a body whose last transmitted byte is {last!r} the client sends {wire!r}; the server only ends the "
                  f"transfer on a line that is exactly '.', which needs {want!r}")



# ---- structural layer on the normalised view (private helpers inlined, pure temporaries substituted) -----------------------------

def _norm_method(ctx, rel, cls_name, name, keep):
    cls = norm_class(ctx, rel, cls_name, keep=keep)
    for st in ast.walk(cls):
        if isinstance(st, ast.FunctionDef) and st.name == name:
            return st
    raise Abstain(f"{cls_name}.{name} not found in the normalised class")


def _struct_wiring(ctx, cn, name):
    """smtpState_data on the normalised view: the FileSender call names the client's transformer and the transport, and a client
    method is chained to the Deferred it returns."""
    f = _norm_method(ctx, SMTP, cn, name, keep=(name, "transformChunk", "finishedFileTransfer", "sendLine", "getMailData"))
    q = f"twisted.mail.smtp.{cn}.{name}"
    begins = [c for c in ast.walk(f) if isinstance(c, ast.Call) and call_attr(c) == "beginFileTransfer"]
    if len(begins) != 1:
        raise Abstain(f"{len(begins)} beginFileTransfer call sites")
    b = begins[0]
    tr = b.args[2] if len(b.args) > 2 else next((k.value for k in b.keywords if k.arg == "transform"), None)
    ctx.check(tr is not None and is_self_attr(tr) and not (isinstance(tr, ast.Constant)), "wiring/transform-argument", q + " | FileSender transform argument",
              "the FileSender is started without a client method as transform argument: body lines go out with bare LF and un-stuffed dots")
    cons = b.args[1] if len(b.args) > 1 else next((k.value for k in b.keywords if k.arg == "consumer"), None)
    if cons is None:
        raise Abstain("consumer argument not found")
    ctx.check(src(cons) == "self.transport", "wiring/consumer-argument", q + " | FileSender consumer argument", f"the body is written to {src(cons)} instead of the connection's transport")
    adds = [c for c in ast.walk(f) if isinstance(c, ast.Call) and call_attr(c) in ("addCallback", "addCallbacks", "addBoth")]
    mine = [c for c in adds if c.args and is_self_attr(c.args[0])]
    if adds and not mine:
        raise Abstain("callbacks chained to the transfer Deferred are not plain client methods")
    ctx.check(bool(mine), "wiring/finisher-chained", q + " | callback on the transfer Deferred",
              "nothing is chained to the Deferred returned by beginFileTransfer: the terminating '.' line is never sent")
    if tr is not None and is_self_attr(tr):
        tdefs = _definitions(ctx, CLIENT_CLASSES, tr.attr)
        state = sorted({t.attr for _, tf in tdefs for st in statements(tf) for t in _targets(st) if is_self_attr(t)})
        g = ctx.cfg(f)
        starts = g.find(lambda x: isinstance(x, ast.Call) and call_attr(x) == "beginFileTransfer")
        for s_ in state:
            resets = g.ids(lambda n, s_=s_: n.kind == "stmt" and isinstance(n.ast, ast.Assign) and any(is_self_attr(t, s_) for t in n.ast.targets))
            wit = g.must_precede(resets, starts) if starts else None
            ctx.check(bool(resets) and wit is None, "chunk/state-reset-per-message", f"{q} | self.{s_} before the transfer starts",
                      f"the transformer carries self.{s_} from chunk to chunk, but {name} does not set it before starting the transfer: the second message on a connection starts "
                      "with whatever the first one left (a leading '.' is then not stuffed, or a mid-line one is)", witness=g.describe(wit))
    return (tr.attr if tr is not None and is_self_attr(tr) else None), [c.args[0].attr for c in mine]


def _struct_filesender(ctx):
    f = _norm_method(ctx, BASIC, "FileSender", "resumeProducing", keep=("resumeProducing", "beginFileTransfer", "stopProducing", "pauseProducing"))
    g = ctx.cfg(f)
    q = "twisted.protocols.basic.FileSender.resumeProducing"
    writes = g.find(lambda x: isinstance(x, ast.Call) and call_name(x) == "self.consumer.write")
    reads = g.ids(lambda n: n.kind == "stmt" and isinstance(n.ast, ast.Assign) and isinstance(n.ast.value, ast.Call) and call_name(n.ast.value) == "self.file.read")
    if not writes or not reads:
        raise Abstain("read / write statements of the plain shape `chunk = self.file.read(..)` / `self.consumer.write(chunk)` not found")
    transforms = g.ids(lambda n: n.kind == "stmt" and isinstance(n.ast, ast.Assign) and isinstance(n.ast.value, ast.Call) and call_name(n.ast.value) == "self.transform")
    no_transform = []
    for t in g.ids(lambda n: n.kind == "test" and "self.transform" in src(n.ast)):
        try:
            no_transform.append((t, "T" if peval(g.node(t).ast, {"self.transform": None}) else "F"))
        except (NotPure, Raised):
            raise Abstain(f"test on the transform not evaluable: {src(g.node(t).ast)}")
    for w in writes:
        call = next(x for x in walk_local(g.node(w).ast) if isinstance(x, ast.Call) and call_name(x) == "self.consumer.write")
        if not (call.args and isinstance(call.args[0], ast.Name)):
            raise Abstain("written value is not a plain local")
        var = call.args[0].id
        tr_ok = [t for t in transforms if src(g.node(t).ast.targets[0]) == var and len(g.node(t).ast.value.args) == 1 and src(g.node(t).ast.value.args[0]) == var]
        wit = g.path(reads, [w], avoid=set(tr_ok), edge_ok=lambda a, b, l: l != "exc" and (a, l) not in no_transform)
        ctx.check(wit is None, "filesender-cfg/transform-on-every-path", ctx.construct(q, call),
                  "a chunk read from the file can reach consumer.write without passing through self.transform although a transform is set", witness=g.describe(wit))
        lasts = g.ids(lambda n: n.kind == "stmt" and isinstance(n.ast, ast.Assign) and any(is_self_attr(t, "lastSent") for t in n.ast.targets))
        if not lasts:
            raise Abstain("no plain assignment to self.lastSent")
        good = [l for l in lasts if var in {n.id for n in ast.walk(g.node(l).ast.value) if isinstance(n, ast.Name)}]
        wit = g.must_pass([w], good, exc=False)
        ctx.check(bool(good) and wit is None, "filesender-cfg/last-byte-after-write", ctx.construct(q, call),
                  "a chunk can be written without lastSent being updated from it afterwards", witness=g.describe(wit))
        for l in good:
            ctx.check(not any(g.path([l], [t]) for t in transforms), "filesender-cfg/last-byte-after-write", ctx.construct(q, g.node(l).ast) + " | after transform",
                      "lastSent is taken before the chunk is transformed")
    cbs = g.find(lambda x: isinstance(x, ast.Call) and call_attr(x) == "callback" and (call_name(x) or "").startswith("self.deferred"))
    for c in cbs:
        var = src(g.node(reads[0]).ast.targets[0])
        ctx.check(g.guarded(c, lambda e: src(e) == var, False), "filesender-cfg/completion-only-at-eof", ctx.construct(q, g.node(c).ast),
                  "completion is signalled on a path on which the last read returned data")


def _struct_reader(ctx, cn, name):
    f = _norm_method(ctx, SMTP, cn, name, keep=(name, "lineReceived", "do_DATA", "sendCode", "_messageHandled", "_disconnect", "lineLengthExceeded"))
    q = f"twisted.mail.smtp.{cn}.{name}"
    g = ctx.cfg(f)
    line = f.args.args[1].arg
    is_line = lambda e: isinstance(e, ast.Name) and e.id == line  # noqa: E731
    helper_calls = [c for c in ast.walk(f) if isinstance(c, ast.Call) and (call_name(c) or "").startswith("self._") and call_name(c) not in ("self._messageHandled", "self._disconnect")]
    if helper_calls:
        raise Abstain(f"private helper {call_name(helper_calls[0])} could not be inlined")
    strips = g.ids(lambda n: n.kind == "stmt" and isinstance(n.ast, (ast.Assign, ast.AugAssign)) and any(is_line(t) for t in _targets(n.ast)))
    ends = g.ids(lambda n: n.kind == "stmt" and isinstance(n.ast, ast.Assign) and any(is_self_attr(t, "mode") for t in n.ast.targets))
    eoms = g.find(lambda x: isinstance(x, ast.Call) and call_attr(x) == "eomReceived")
    if not ends or not strips:
        raise Abstain("mode write / de-stuffing assignment not found")
    for site in ends + eoms + strips:
        for t, _ in g.edge_guards(site):
            if any(g.path([s], [t]) for s in strips):
                raise Abstain("a guard is evaluated after the line was rewritten")
    ok_dom, why = domain_argument([f], inputs={line})
    if not ok_dom:
        raise Abstain("domain argument fails: " + why)
    detail = f"line classes {{empty, '.', '.'+rest, other}} are complete: {why}"

    def sat(site):
        return [c for c in READER_LINES if guards_hold(g, site, {line: c})]
    in_handler = lambda n: any(g.node(x).kind == "handler" for x in g.dominators().get(n, ()))  # noqa: E731
    for e in ends + eoms:
        s_ = sat(e)
        extra = [c for c in s_ if c != b"."]
        ctx.check(s_ == [b"."] and not in_handler(e), "reader-guards/terminator", ctx.construct(q, g.node(e).ast),
                  (f"the end-of-data action is also taken for body line(s) {extra!r}" if extra else
                   ("the end-of-data action sits in an exception handler (taken when a message object refuses a line)" if in_handler(e) else "the end-of-data action is not taken for the line b'.'"))
                  + " (the transfer must end exactly at the client's terminating '.')", detail=detail)
    want = [c for c in READER_LINES if c[:1] == b"." and c != b"."]
    for sidx in strips:
        st = g.node(sidx).ast
        s_ = sat(sidx)
        bad = None
        if s_ != want:
            bad = f"de-stuffing is applied to the wrong set of lines (differs on {sorted(set(s_) ^ set(want))!r})"
        elif isinstance(st, ast.Assign):
            for c in want:
                try:
                    v = peval(st.value, {line: c})
                except (NotPure, Raised) as ex:
                    raise Abstain(f"de-stuffing expression not evaluable ({ex})")
                if v != c[1:]:
                    bad = f"the stuffed line {c!r} is delivered as {v!r} instead of {c[1:]!r}"
                    break
        else:
            raise Abstain("de-stuffing statement shape")
        ctx.check(bad is None, "reader-guards/strip-one-dot", ctx.construct(q, st), bad or "", detail=detail)
    deliver_calls = g.find(lambda x: isinstance(x, ast.Call) and call_attr(x) == "lineReceived" and len(x.args) == 1 and is_line(x.args[0]))
    deliver_loops = g.ids(lambda n: n.kind == "for" and any(isinstance(x, ast.Call) and call_attr(x) == "lineReceived" and len(x.args) == 1 and is_line(x.args[0])
                                                            for b in n.ast.body for x in ast.walk(b)))
    deliver = set(deliver_calls) | set(deliver_loops)
    if not deliver:
        raise Abstain("delivery loop not found")
    failed = [d for t in g.ids(lambda n: n.kind == "test" and src(n.ast) == "self.datafailed") for d, l in g.succ[t] if l == "T"]
    wit = g.must_pass([g.entry], deliver | set(ends) | set(failed), exc=False)
    ctx.check(wit is None, "reader-cfg/delivers-on-every-path", q, "a body line that is not the terminator can be dropped without reaching message.lineReceived", witness=g.describe(wit))
    for d in sorted(deliver):
        w = next((g.path([d], [s_]) for s_ in strips if g.path([d], [s_])), None)
        ctx.check(w is None, "reader-cfg/delivers-on-every-path", ctx.construct(q, g.node(d).ast) + " | after de-stuffing", "the line is delivered before its stuffing dot is removed", witness=g.describe(w))
        w = g.path(ends, [d], edge_ok=lambda a, b, l: l != "exc")
        ctx.check(w is None, "reader-cfg/terminator-not-delivered", ctx.construct(q, g.node(d).ast), "the terminating '.' line itself is delivered to the message as body content", witness=g.describe(w))


class _Recorder(Model):
    """Stand-in object that records the methods called on it (name, args)."""

    def __init__(self, label, returns=None):
        self._label = label
        self._returns = returns or {}
        self.calls = []

    def __getattr__(self, name):
        if name.startswith("_"):
            raise AttributeError(name)

        def method(*a, **kw):
            self.calls.append((name, a, kw))
            r = self._returns.get(name)
            return r(*a, **kw) if callable(r) else r
        method.__name__ = "lam"
        return method

    def __bool__(self):
        return True


class SMTPServerError(Exception, Model):
    """Stand-in for twisted.mail.smtp.SMTPServerError raised by a modelled message sink (same class name, .code / .resp)."""

    def __init__(self, code=550, resp=b"refused"):
        Exception.__init__(self, code, resp)
        self.code, self.resp = code, resp


def _client_chain(ctx, cn):
    mod = ctx.mod(SMTP)
    return [ctx.cls(SMTP, "SMTPClient")] + ([mod.find(cn)] if cn != "SMTPClient" and isinstance(mod.find(cn), ast.ClassDef) else [])


def _method_name(v):
    return getattr(v, "method_name", None)


def _check_wiring(ctx, cn, f, delim_srv, delim_cli):
    """smtpState_data, evaluated with recording stand-ins: the FileSender must get the mail file, the transport and the client's
    transformer; the resulting Deferred must fire the client's terminator emitter."""
    q = f"twisted.mail.smtp.{cn}.{f.name}"
    ctx.functions.add(f"{SMTP}:{cn}.{f.name}")
    mod = ctx.mod(SMTP)
    chain = _client_chain(ctx, cn)
    mailfile, transport = object(), object()
    deferred = _Recorder("deferred")
    deferred._returns.update({k: (lambda *a, **kw: deferred) for k in ("addCallback", "addCallbacks", "addErrback", "addBoth")})
    sender = _Recorder("FileSender", {"beginFileTransfer": lambda *a, **kw: deferred})
    funcs = FollowModule(mod, dict(COMPAT), module_env(mod))
    funcs["basic.FileSender"] = lambda *a: sender
    funcs["FileSender"] = lambda *a: sender
    env = class_env(chain, module_env(mod))
    env.update({"self": object(), "self.transport": transport, "self.getMailData": lambda: mailfile})
    for pn in [a.arg for a in f.args.args][1:]:
        env[pn] = 354 if pn == "code" else b"go ahead"
    bind_methods(env, chain, funcs, skip={f.name})
    try:
        r = eval_block(f.body, env, funcs=funcs)
    except BlockRaised as ex:
        raise AnalysisError(f"{q}: not evaluable ({ex})")
    if r.raised:
        raise AnalysisError(f"{q}: raises {r.raised}")
    begins = [(a, kw) for name, a, kw in sender.calls if name == "beginFileTransfer"]
    ctx.check(len(begins) == 1, "client/transform-wired", q + " | one file transfer", f"{len(begins)} file transfers are started for one DATA command")
    done = set()
    for a, kw in begins:
        fileobj = a[0] if a else kw.get("file")
        cons = a[1] if len(a) > 1 else kw.get("consumer")
        tr = a[2] if len(a) > 2 else kw.get("transform")
        tname = _method_name(tr)
        ctx.check(tname is not None, "client/transform-wired", q + " | transformer",
                  "the message file is handed to FileSender without the client's dot-stuffing / newline transformer: body lines go out with bare LF and un-stuffed dots")
        ctx.check(cons is transport and fileobj is mailfile, "client/transform-wired", q + " | file and consumer",
                  "the FileSender is not given the mail data file and the connection's transport")
        if tname:
            defs = _definitions(ctx, CLIENT_CLASSES, tname)
            ctx.check(bool(defs), "client/transform-wired", q + " | transformer resolves", f"self.{tname} is not defined in the SMTP client classes")
            for c2, tf in defs:
                if (c2, tf.name) not in done:
                    done.add((c2, tf.name))
                    _check_transform(ctx, c2, tf, delim_srv)
    cbs = []
    for name, a, kw in deferred.calls:
        if name in ("addCallbacks", "addCallback", "addBoth") and a:
            cbs.append(a[0])
        elif name == "addCallbacks" and "callback" in kw:
            cbs.append(kw["callback"])
    finishers = [_method_name(c) for c in cbs if _method_name(c)]
    ctx.check(bool(finishers), "client/finish-wired", q,
              "nothing of the client is chained to the FileSender Deferred: the terminating '.' line is never sent, the transfer does not end")
    for fname in finishers:
        defs = _definitions(ctx, CLIENT_CLASSES, fname)
        ctx.check(bool(defs), "client/finish-wired", q + " | finisher resolves", f"self.{fname} is not defined")
        for c2, ff in defs:
            if (c2, ff.name) not in done:
                done.add((c2, ff.name))
                _check_finish(ctx, c2, ff, delim_cli, delim_srv)


def _check_sendline(ctx, delim_cli):
    for cn, f in _definitions(ctx, CLIENT_CLASSES, "sendLine"):
        q = f"twisted.mail.smtp.{cn}.sendLine"
        g = ctx.cfg(f)
        p = f.args.args[1].arg
        ups = g.find(lambda x: isinstance(x, ast.Call) and call_attr(x) == "sendLine" and (call_name(x) or "").endswith("LineReceiver.sendLine")
                     and len(x.args) == 2 and src(x.args[1]) == p)
        wit = g.must_pass([g.entry], ups, exc=False)
        re = [s for s in statements(f) if any(isinstance(t, ast.Name) and t.id == p for t in _targets(s))]
        ctx.check(bool(ups) and wit is None and not re, "client/sendline-verbatim", q,
                  "the client's sendLine override does not pass the line unchanged to LineReceiver.sendLine on every path "
                  "(the terminating '.' line may be lost or altered)", witness=g.describe(wit))


# ---- FileSender -----------------------------------------------------------------------------------------

def _check_filesender(ctx):
    """FileSender.resumeProducing (with whatever private helpers it calls) evaluated call after call on a modelled file, consumer,
    transform and Deferred."""
    mod = ctx.mod(BASIC)
    cls = ctx.cls(BASIC, "FileSender")
    f = ctx.func(BASIC, "FileSender.resumeProducing")
    q = "twisted.protocols.basic.FileSender.resumeProducing"
    funcs = FollowModule(mod, dict(COMPAT), module_env(mod))

    def run(chunks, transform):
        pending = list(chunks)
        fileobj = _Recorder("file", {"read": lambda *a, **kw: pending.pop(0) if pending else b""})
        consumer = _Recorder("consumer")
        deferred = _Recorder("deferred")
        env = class_env([cls], module_env(mod))
        env.update({"self": object(), "self.file": fileobj, "self.consumer": consumer, "self.transform": transform, "self.deferred": deferred})
        bind_methods(env, [cls], funcs, skip={f.name})
        trace = []
        for step in range(len(chunks) + 1):
            before = len(consumer.calls)
            try:
                r = eval_block(f.body, env, funcs=funcs)
            except BlockRaised as ex:
                raise AnalysisError(f"{q}: not evaluable ({ex})")
            if r.raised:
                raise AnalysisError(f"{q}: raises {r.raised}")
            writes = [a[0] for name, a, kw in consumer.calls[before:] if name == "write"]
            trace.append({"writes": writes, "lastSent": env.get("self.lastSent"), "fired": [a for name, a, kw in deferred.calls if name == "callback"],
                          "unregistered": sum(1 for name, a, kw in consumer.calls if name == "unregisterProducer"), "deferred": env.get("self.deferred"), "file": env.get("self.file")})
        return trace
    mark = lambda c: b"<" + c + b">"          # noqa: E731  a transform whose output ends differently from its input
    mark.__name__ = "lam"
    chunks = [b"ab\n", b".c", b"d\n"]
    for label, transform, T in (("with a transform", mark, mark), ("without a transform", None, lambda c: c)):
        tr = run(chunks, transform)
        for k, c in enumerate(chunks):
            ctx.check(tr[k]["writes"] == [T(c)], "filesender/transform-every-chunk", f"{q} | chunk {k + 1} {label}",
                      f"chunk {k + 1} ({c!r}) {label} is written as {tr[k]['writes']!r}; required {[T(c)]!r} (every chunk read goes through the transform exactly once, raw LF / "
                      "un-stuffed dots must not reach the wire)")
            ctx.check(tr[k]["lastSent"] == T(c)[-1:], "filesender/last-byte", f"{q} | after chunk {k + 1} {label}",
                      f"after writing {T(c)!r} lastSent is {tr[k]['lastSent']!r} instead of {T(c)[-1:]!r}: finishedFileTransfer decides from it whether the body already ended a "
                      "line, so the terminating '.' may be glued to the last line or preceded by a spurious blank line")
            ctx.check(not tr[k]["fired"], "filesender/completion", f"{q} | not before EOF (chunk {k + 1} {label})",
                      "completion is signalled although the last read returned data (the terminator would be sent mid-body)")
        end = tr[len(chunks)]
        ctx.check(end["writes"] == [], "filesender/write-nonempty", f"{q} | EOF {label}", f"at end of file {end['writes']!r} is written instead of ending the transfer")
        ctx.check(end["fired"] == [(T(chunks[-1])[-1:],)] and end["unregistered"] == 1 and end["deferred"] is None and end["file"] is None, "filesender/completion", f"{q} | at EOF {label}",
                  f"at end of file: callback calls {end['fired']!r}, unregisterProducer x{end['unregistered']}, deferred {'kept' if end['deferred'] is not None else 'cleared'}; required exactly "
                  f"one callback with the last byte written ({T(chunks[-1])[-1:]!r}) after unregistering the producer")


def _check_reader(ctx, cn, f):
    """The DATA-mode line handler (with the private helpers it calls) evaluated on one line at a time with recording messages."""
    q = f"twisted.mail.smtp.{cn}.{f.name}"
    ctx.functions.add(f"{SMTP}:{cn}.{f.name}")
    mod = ctx.mod(SMTP)
    chain = [ctx.cls(SMTP, "SMTP")] + ([ctx.cls(SMTP, cn)] if cn != "SMTP" else [])
    menv = module_env(mod)
    ctx.need(len(f.args.args) == 2, f"{q}(self, line)")
    line = f.args.args[1].arg

    def run(value, inbody, refusing=False, state=None):
        def refuse(*a, **kw):
            raise SMTPServerError()
        msgs = [_Recorder("message 1", {"lineReceived": refuse} if refusing else None), _Recorder("message 2")]
        dl = _Recorder("DeferredList")
        dl._returns["addCallback"] = lambda *a, **kw: dl
        funcs = FollowModule(mod, dict(COMPAT), menv)
        funcs["defer.DeferredList"] = lambda *a, **kw: dl
        funcs["DeferredList"] = funcs["defer.DeferredList"]
        env = class_env(chain, menv)
        sent = []
        env.update({"self": object(), "self.mode": menv["DATA"], "self.datafailed": None, "self.__messages": msgs, "self.__inheader": 0, "self.__inbody": inbody,
                    "self.sendCode": lambda *a, **kw: sent.append(a), "self._messageHandled": lambda *a, **kw: None, line: value})
        env["self._disconnect"] = lambda *a, **kw: None
        if state is not None:
            env.update(state)
            env[line] = value
        bind_methods(env, chain, funcs, skip={f.name})
        try:
            r = eval_block(f.body, env, funcs=funcs)
        except BlockRaised as ex:
            raise AnalysisError(f"{q}: not evaluable for line {value!r} ({ex})")
        if r.raised:
            raise AnalysisError(f"{q}: raises {r.raised} for line {value!r}")
        if refusing:
            return {"mode": env.get("self.mode"), "state": {k: v for k, v in env.items() if k.startswith("self.") and not callable(v)}, "sent": sent}
        delivered = [[a[0] for name, a, kw in m.calls if name == "lineReceived"] for m in msgs]
        eoms = [sum(1 for name, a, kw in m.calls if name == "eomReceived") for m in msgs]
        return {"mode": env.get("self.mode"), "delivered": delivered, "eom": eoms}
    bad_term = bad_strip = bad_deliver = None
    for value in READER_LINES:
        for inbody in (1, 0):
            got = run(value, inbody)
            is_term = value == b"."
            ended = got["mode"] != menv["DATA"] or any(got["eom"])
            if is_term:
                if not (got["mode"] == menv["COMMAND"] and got["eom"] == [1, 1]) and bad_term is None:
                    bad_term = (value, "the end-of-data actions are not taken for the line b'.' (mode %r, eomReceived calls %r)" % (got["mode"], got["eom"]))
                if any(got["delivered"]) and bad_term is None:
                    bad_term = (value, f"the terminating '.' line itself is delivered to the message as body content ({got['delivered'][0]!r})")
                continue
            if ended and bad_term is None:
                bad_term = (value, f"the end-of-data action is also taken for the body line {value!r}")
            want = value[1:] if value[:1] == b"." else value
            for d in got["delivered"]:
                body = [x for x in d if not (x == b"" and not inbody)] if (not inbody and want != b"") else d
                if not ended and (not d or d[-1] != want or any(x not in (b"", want) for x in d)):
                    if value[:1] == b"." and d and d[-1] in (value, value.lstrip(b".")) and d[-1] != want:
                        bad_strip = bad_strip or (value, d, want)
                    elif not d:
                        bad_deliver = bad_deliver or (value, d, want, inbody)
                    elif value[:1] == b".":
                        bad_strip = bad_strip or (value, d, want)
                    else:
                        bad_deliver = bad_deliver or (value, d, want, inbody)
    # a message sink that refuses a line: the rest of the body is still body, the failure is reported at the terminating '.'
    got = run(b"body line", 1, refusing=True)
    ctx.check(got["mode"] == menv["DATA"], "reader/terminator", q + " | DATA mode survives a refused line",
              f"after a message object refused a body line the server is in mode {got['mode']!r}: the client is still sending the body, whose remaining lines would now run as "
              "SMTP commands (the transfer ends only at the client's terminating '.')")
    ctx.check(bad_term is None, "reader/terminator", q + " | end of DATA mode", bad_term and bad_term[1] + " (the transfer must end exactly at the client's terminating '.')",
              detail=f"{len(READER_LINES)} lines x 2 header states")
    ctx.check(bad_strip is None, "reader/strip-one-dot", q + " | de-stuffing",
              bad_strip and f"the stuffed line {bad_strip[0]!r} is delivered as {bad_strip[1]!r} instead of {bad_strip[2]!r}: exactly one leading '.' must be removed")
    ctx.check(bad_deliver is None, "reader/delivers-every-line", q + " | every line reaches the messages",
              bad_deliver and f"the body line {bad_deliver[0]!r} (header state inbody={bad_deliver[3]}) is delivered as {bad_deliver[1]!r}; every message must receive {bad_deliver[2]!r}")


def _check_dispatch(ctx, env):
    mod = ctx.mod(SMTP)
    for cn, f in _definitions(ctx, SERVER_CLASSES, "lineReceived"):
        q = f"twisted.mail.smtp.{cn}.lineReceived"
        ctx.functions.add(f"{SMTP}:{cn}.lineReceived")
        g = ctx.cfg(f)
        line = f.args.args[1].arg

        def is_lookup(x):
            return (isinstance(x, ast.Call) and call_name(x) == "getattr" and len(x.args) >= 2 and src(x.args[0]) == "self" and "self.mode" in src(x.args[1]))
        # the handler looked up by mode may be called directly or through a local it was named with first
        named = {}
        for st in statements(f):
            if isinstance(st, ast.Assign) and len(st.targets) == 1 and isinstance(st.targets[0], ast.Name) and is_lookup(st.value):
                named[st.targets[0].id] = st.value
        lookup_of = {}

        def is_dispatch(x):
            if not isinstance(x, ast.Call):
                return False
            if is_lookup(x.func):
                lookup_of[id(x)] = x.func
                return True
            if isinstance(x.func, ast.Name) and x.func.id in named and sum(1 for t in statements(f) for tt in _targets(t) if isinstance(tt, ast.Name) and tt.id == x.func.id) == 1:
                lookup_of[id(x)] = named[x.func.id]
                return True
            return False
        ds = g.find(is_dispatch)
        if not ds:
            raise Abstain(f"per-mode dispatch getattr(self, 'state_' + self.mode)(line) not recognised in {q}")
        wit = g.must_pass([g.entry], ds, exc=False)
        ctx.check(wit is None, "dispatch/every-line-by-mode", q, "a received line can bypass the per-mode dispatch", witness=g.describe(wit))
        for d in ds:
            call = next(x for x in walk_local(g.node(d).ast) if is_dispatch(x))
            ctx.check(len(call.args) == 1 and src(call.args[0]) == line and not any(isinstance(t, ast.Name) and t.id == line for s in statements(f) for t in _targets(s)),
                      "dispatch/every-line-by-mode", ctx.construct(q, call), "the dispatched handler does not receive the line exactly as received")
            try:
                name = peval(lookup_of[id(call)].args[1], {"self.mode": env.get("DATA")})
            except (NotPure, Raised) as ex:
                raise AnalysisError(f"{q}: handler name expression not evaluable ({ex})")
            ctx.check(env.get("DATA") is not None and name == "state_" + str(env.get("DATA")), "dispatch/data-mode-handler", ctx.construct(q, call) + " | name",
                      f"in DATA mode the dispatcher looks up {name!r}")
            # the handler is the analysed reader in every server class
            for sc in SERVER_CLASSES:
                c = ctx.cls(SMTP, sc)
                if sc == "SMTP" or name in methods(c) or name in class_assigns(c):
                    defs = _definitions(ctx, [sc], name)
                    ctx.check(bool(defs), "dispatch/data-mode-handler", f"twisted.mail.smtp.{sc}.{name}",
                              f"{sc}.{name} does not resolve to a method: a body line in DATA mode has no handler")
                    for c2, rf in defs:
                        with structural(ctx, f"reader-guards/*, reader-cfg/* ({c2})", "reader/* (bounded)"):
                            _struct_reader(ctx, c2, rf.name)
                        _check_reader(ctx, c2, rf)
                        has_cmd = any(isinstance(x, ast.Call) and (call_attr(x) in ("lookupMethod", "state_COMMAND") or (call_attr(x) or "").startswith("do_"))
                                      for x in ast.walk(rf))
                        ctx.check(not has_cmd, "dispatch/no-command-in-data", f"twisted.mail.smtp.{c2}.{rf.name}",
                                  "the DATA-mode handler reaches the command interpreter: body content can run as an SMTP command")


def _eval_dispatch(ctx, menv):
    """lineReceived evaluated in DATA mode: the line reaches the DATA handler, unchanged, and nothing else."""
    mod = ctx.mod(SMTP)
    for cn, f in _definitions(ctx, SERVER_CLASSES, "lineReceived"):
        q = f"twisted.mail.smtp.{cn}.lineReceived"
        chain = [ctx.cls(SMTP, "SMTP")] + ([ctx.cls(SMTP, cn)] if cn != "SMTP" else [])
        for sample in (b"RSET", b".", b"MAIL FROM:<x@y>", b""):
            got = {"data": [], "command": []}
            funcs = FollowModule(mod, dict(COMPAT), menv)
            env = class_env(chain, menv)
            env.update({"self": object(), "self.mode": menv["DATA"], f.args.args[1].arg: sample, "self.resetTimeout": lambda *a: None,
                        "self.state_DATA": lambda ln: got["data"].append(ln), "self.state_COMMAND": lambda ln: got["command"].append(ln),
                        "self.state_AUTH": lambda ln: got["command"].append(ln)})
            funcs["getattr"] = lambda o, nme, *d, _e=env: _e["self." + nme] if ("self." + nme) in _e else (d[0] if d else (_ for _ in ()).throw(AttributeError(nme)))
            bind_methods(env, chain, funcs, skip={f.name, "state_DATA", "state_COMMAND", "state_AUTH", "dataLineReceived"})
            try:
                eval_block(f.body, env, funcs=funcs)
            except BlockRaised as ex:
                raise AnalysisError(f"{q}: not evaluable ({ex})")
            ctx.check(got == {"data": [sample], "command": []}, "dispatch-eval/data-mode-line-reaches-handler", f"{q} | line {sample!r} in DATA mode",
                      f"in DATA mode the line {sample!r} is handed to {got!r}: it must reach the DATA handler exactly as received and never the command interpreter")


def _check_mode_writers(ctx):
    mod = ctx.mod(SMTP)
    n = 0
    # intra-class call graph: a private helper called only from allowed writers inherits their permission
    callers = {}
    for sc in SERVER_CLASSES:
        c = ctx.cls(SMTP, sc)
        for name, m in methods(c).items():
            for x in ast.walk(m):
                if isinstance(x, ast.Call) and (call_name(x) or "").startswith("self.") and (call_name(x) or "").count(".") == 1:
                    callers.setdefault(call_name(x)[5:], set()).add(f"{sc}.{name}")

    def allowed(func, val, seen=()):
        if (func, val) in MODE_WRITERS:
            return True
        name = func.split(".")[-1]
        cs = callers.get(name, set())
        if not name.startswith("_") or not cs or func in seen:
            return False
        return all(allowed(cf, val, seen + (func,)) for cf in cs)
    for sc in SERVER_CLASSES:
        c = ctx.cls(SMTP, sc)
        for a in class_accesses(mod, c, {"mode"}, receivers={"self"}):
            n += 1
            val = src(getattr(a.node, "value", None))
            ok = allowed(a.func, val) and a.kind == "assign"
            ctx.check(ok, "who-may-write/mode", ctx.construct("twisted.mail.smtp." + a.func, a.node),
                      f"self.mode is set to {val} in {a.func}: an unexpected writer can end (or fail to start) DATA mode, so body lines "
                      "would be interpreted as SMTP commands or commands swallowed as body")
    ctx.floor("who-may-write/mode", n, 9)


def _eval_do_data(ctx):
    """do_DATA (private helpers followed) evaluated with recording stand-ins: when 354 goes out the server is in DATA mode with the
    message list and a fresh header state in place; a refusing / failing message factory or a missing envelope leaves COMMAND mode
    and never sends 354."""
    mod = ctx.mod(SMTP)
    cls = ctx.cls(SMTP, "SMTP")
    f = ctx.func(SMTP, "SMTP.do_DATA")
    q = "twisted.mail.smtp.SMTP.do_DATA"
    menv = module_env(mod)

    def run(scenario):
        sent = []
        msg = _Recorder("message")

        def factory():
            if scenario == "refuses":
                raise SMTPServerError(552, b"too big")
            if scenario == "crashes":
                raise RuntimeError("boom")
            return msg
        factory.__name__ = "lam"
        funcs = FollowModule(mod, dict(COMPAT), menv)
        env = class_env([cls], menv)
        env.update({"self": object(), "self.mode": menv["COMMAND"], "self._helo": (None, "h"), "self._from": None if scenario == "no envelope" else "a@b",
                    "self._to": [] if scenario == "no envelope" else [("u@d", factory)], "self.noisy": False, "self.datafailed": "stale",
                    "self.__inheader": 1, "self.__inbody": 1, "self.receivedHeader": lambda *a, **kw: b"Received: x", f.args.args[1].arg: b""})
        env["self.sendCode"] = lambda code, *a, **kw: sent.append((code, env.get("self.mode"), "self.__messages" in env, env.get("self.__inheader"), env.get("self.__inbody")))
        bind_methods(env, [cls], funcs, skip={f.name})
        try:
            r = eval_block(f.body, env, funcs=funcs)
        except BlockRaised as ex:
            raise AnalysisError(f"{q}: not evaluable in scenario '{scenario}' ({ex})")
        if r.raised:
            raise AnalysisError(f"{q}: raises {r.raised}")
        return sent, env.get("self.mode")
    sent, mode = run("accepted")
    go = [x for x in sent if x[0] == 354]
    ctx.check(len(go) == 1 and go[0][1:] == (menv["DATA"], True, 0, 0) and mode == menv["DATA"], "do_DATA-eval/armed-when-354-goes-out", q + " | envelope complete, messages created",
              f"replies {sent!r}, mode afterwards {mode!r}: when 354 is sent the server must already be in DATA mode with the message list and a reset header state in place "
              "(the client starts sending the body right away)")
    for scenario in ("refuses", "crashes", "no envelope"):
        sent, mode = run(scenario)
        ctx.check(mode == menv["COMMAND"] and not any(x[0] == 354 for x in sent) and bool(sent), "do_DATA-eval/refusal-leaves-command-mode", q + f" | message factory / envelope: {scenario}",
                  f"replies {[x[0] for x in sent]!r}, mode afterwards {mode!r}: a refused DATA command must answer with an error and stay in COMMAND mode "
                  "(else the client's next commands are swallowed as body)")


def _self_reads(e):
    return {x.attr for x in ast.walk(e) if isinstance(x, ast.Attribute) and isinstance(x.ctx, ast.Load) and isinstance(x.value, ast.Name) and x.value.id == "self"}


def _struct_transaction_state(ctx):
    """Per-transaction state, discovered by role: an attribute of self that the DATA handler reads in a test (or iterates) that decides
    whether a body line reaches the message objects, and that the handler itself changes while a message is received, must be
    written on every path of do_DATA that ends in the 354 reply - otherwise what one message left behind decides the fate of the
    lines of the next."""
    defs = _definitions(ctx, ["SMTP"], "state_DATA")
    if len(defs) != 1:
        raise Abstain("SMTP.state_DATA does not resolve to one method")
    rname = defs[0][1].name
    keep = ("do_DATA", rname, "lineReceived", "sendCode", "_messageHandled", "_disconnect", "lineLengthExceeded")
    fr = _norm_method(ctx, SMTP, "SMTP", rname, keep=keep)
    fd = _norm_method(ctx, SMTP, "SMTP", "do_DATA", keep=keep)
    qd, qr = "twisted.mail.smtp.SMTP.do_DATA", f"twisted.mail.smtp.SMTP.{rname}"
    known = ("self._disconnect", "self._messageHandled")
    for f_ in (fr, fd):
        opaque = sorted({call_name(c) for c in ast.walk(f_) if isinstance(c, ast.Call) and (call_name(c) or "").startswith("self._") and call_name(c) not in known})
        if opaque:
            raise Abstain(f"private helper {opaque[0]} could not be inlined in {f_.name}")
    gr, gd = ctx.cfg(fr), ctx.cfg(fd)
    is_delivery = lambda x: isinstance(x, ast.Call) and call_attr(x) == "lineReceived" and len(x.args) == 1  # noqa: E731
    sites = gr.find(is_delivery)
    if not sites:
        raise Abstain("no message.lineReceived(...) call in the DATA handler")
    guard_reads = set()
    for s_ in sites:
        for t, _ in gr.edge_guards(s_):
            guard_reads |= _self_reads(gr.node(t).ast)
    for loop in ast.walk(fr):
        if isinstance(loop, (ast.For, ast.While)) and any(is_delivery(x) for b in loop.body for x in ast.walk(b)):
            guard_reads |= _self_reads(loop.iter if isinstance(loop, ast.For) else loop.test)
        if isinstance(loop, (ast.ListComp, ast.GeneratorExp)) and is_delivery(loop.elt):
            for gen in loop.generators:
                guard_reads |= _self_reads(gen.iter)
    changed = set()
    for st in ast.walk(fr):
        tg = _targets(st) + (list(st.targets) if isinstance(st, ast.Delete) else [])
        for t in tg:
            for e in (t.elts if isinstance(t, (ast.Tuple, ast.List)) else [t]):
                if isinstance(e, ast.Attribute) and isinstance(e.value, ast.Name) and e.value.id == "self":
                    changed.add(e.attr)
    state = sorted(guard_reads & changed)
    if not state:
        raise Abstain("the DATA handler keeps no state of its own that decides delivery")
    go = gd.find(lambda x: isinstance(x, ast.Call) and call_name(x) == "self.sendCode" and x.args and isinstance(x.args[0], ast.Constant) and x.args[0].value == 354)
    if not go:
        raise Abstain("self.sendCode(354, ...) not found in the normalised do_DATA")
    ends = gr.ids(lambda n: n.kind == "stmt" and isinstance(n.ast, ast.Assign) and any(is_self_attr(t, "mode") for t in n.ast.targets))
    after_end = gr.reach(ends) if ends else set()
    for attr in state:
        def writes_attr(n, attr=attr):
            return n.kind == "stmt" and isinstance(n.ast, (ast.Assign, ast.AnnAssign)) and any(
                is_self_attr(e, attr) for t in _targets(n.ast) for e in (t.elts if isinstance(t, (ast.Tuple, ast.List)) else [t]))
        writes = gd.ids(writes_attr)
        wit = gd.must_precede(writes, go, exc=False) if writes else gd.path([gd.entry], go, edge_ok=lambda a, b, l: l != "exc")
        if writes and wit is None:
            ctx.ok("transaction-state/reset-before-354", f"{qd} | self.{attr}")
            continue
        # the other sound design: the handler itself puts the attribute back when the transfer ends
        put_back = [n for n in gr.ids(writes_attr) if n in after_end and isinstance(gr.node(n).ast.value, ast.Constant)]
        if put_back:
            ctx.note(f"transaction-state/reset-before-354: self.{attr} is not written on every path of do_DATA to 354, but {rname} assigns it a constant after the end of "
                     "data; clause left to transaction-eval/message-after-refused-one (bounded)")
            continue
        ctx.check(False, "transaction-state/reset-before-354", f"{qd} | self.{attr}",
                  f"{rname} decides from self.{attr} whether a body line reaches the message objects and changes it while a message is received, but do_DATA can reach "
                  f"its 354 reply without writing self.{attr}: what the previous message on the connection left there decides whether the lines of this one are delivered "
                  "(after one refused message every later body would be dropped)", witness=gd.describe(wit),
                  detail=f"delivery-guard reads {sorted(guard_reads)!r}, changed by the handler {sorted(changed)!r} ({qr})")


def _eval_two_messages(ctx):
    """Two DATA transactions on one connection (do_DATA and the DATA handler interpreted on one shared instance state); the message
    object of the first refuses its second body line.  The second message must still reach its own message object exactly."""
    mod = ctx.mod(SMTP)
    cls = ctx.cls(SMTP, "SMTP")
    menv = module_env(mod)
    defs = _definitions(ctx, ["SMTP"], "state_DATA")
    ctx.need(len(defs) == 1, "SMTP.state_DATA resolves to one method")
    rname = defs[0][1].name
    q = "twisted.mail.smtp.SMTP.do_DATA ~ " + rname
    sent, handled = [], []
    first = _Recorder("message 1")
    seen = []

    def refuse_second(ln):
        seen.append(ln)
        if len(seen) >= 3:          # Received header, first body line, then refuse
            raise SMTPServerError(552, b"over quota")
    refuse_second.__name__ = "lam"
    first._returns["lineReceived"] = refuse_second
    second = _Recorder("message 2")
    dl = _Recorder("DeferredList")
    dl._returns["addCallback"] = lambda *a, **kw: handled.append(a) or dl
    funcs = FollowModule(mod, dict(COMPAT), menv)
    funcs["defer.DeferredList"] = lambda *a, **kw: dl
    funcs["DeferredList"] = funcs["defer.DeferredList"]
    env = class_env([cls], menv)
    env.update({"self": object(), "self.mode": menv["COMMAND"], "self._helo": (None, "h"), "self.noisy": False,
                "self.receivedHeader": lambda *a, **kw: b"Received: x", "self.sendCode": lambda code, *a, **kw: sent.append(code),
                "self._messageHandled": lambda *a, **kw: handled.append(a), "self._disconnect": lambda *a, **kw: None})
    bind_methods(env, [cls], funcs)
    # per-connection initial state: what __init__ assigns unconditionally from constants (anything else stays as modelled above)
    for st in (methods(cls)["__init__"].body if "__init__" in methods(cls) else ()):
        if isinstance(st, ast.Assign) and len(st.targets) == 1 and is_self_attr(st.targets[0]) and ("self." + st.targets[0].attr) not in env:
            try:
                env["self." + st.targets[0].attr] = peval(st.value, dict(menv))
            except (NotPure, Raised):
                pass

    def transaction(message, lines):
        factory = lambda: message       # noqa: E731
        factory.__name__ = "lam"
        env["self._from"], env["self._to"] = "a@b", [("u@d", factory)]
        del sent[:], handled[:]
        try:
            env["self.do_DATA"](b"")
            replies = {"DATA": list(sent), "mode": env.get("self.mode")}
            for ln in lines:
                env["self." + rname](ln)
        except (BlockRaised, Raised) as ex:
            raise AnalysisError(f"{q}: not evaluable ({ex})")
        replies["end"] = list(sent[len(replies["DATA"]):])
        replies["after"] = env.get("self.mode")
        return replies
    r1 = transaction(first, [b"Subject: one", b"", b"too much", b"more", b"."])
    ctx.check(r1["DATA"] == [354] and r1["after"] == menv["COMMAND"] and r1["end"] and r1["end"] != [250] and not any(n == "eomReceived" for n, a, kw in first.calls),
              "transaction-eval/refused-message-reported", q + " | first message, refused at its second body line",
              f"replies to DATA {r1['DATA']!r}, to the terminating '.' {r1['end']!r}, mode afterwards {r1['after']!r}: a message whose sink refused a line must be answered with "
              "an error at its terminating '.', not completed")
    body = [b"Subject: two", b"", b"..leading dot", b"plain", b"."]
    r2 = transaction(second, body)
    got = [a[0] for n, a, kw in second.calls if n == "lineReceived"]
    want = [b"Received: x", b"Subject: two", b"", b".leading dot", b"plain"]
    eom = sum(1 for n, a, kw in second.calls if n == "eomReceived")
    ctx.check(r2["DATA"] == [354] and got == want and eom == 1 and r2["after"] == menv["COMMAND"] and not r2["end"] and len(handled) == 1,
              "transaction-eval/message-after-refused-one", q + " | second message on the same connection",
              f"after a first message that was refused mid-body, the next message is answered {r2['DATA']!r}, its message object receives {got!r} (required {want!r}), "
              f"eomReceived x{eom}, direct replies to its '.' {r2['end']!r}: every message on a connection must reach its message object exactly, whatever happened to the "
              "one before")


def _check_do_data(ctx):
    f = _norm_method(ctx, SMTP, "SMTP", "do_DATA", keep=("do_DATA", "dataLineReceived", "lineReceived", "sendCode", "_messageHandled", "_disconnect", "lineLengthExceeded"))
    g = ctx.cfg(f)
    q = "twisted.mail.smtp.SMTP.do_DATA"
    go = g.find(lambda x: isinstance(x, ast.Call) and call_name(x) == "self.sendCode" and x.args and isinstance(x.args[0], ast.Constant) and x.args[0].value == 354)
    if not go:
        raise Abstain("self.sendCode(354, ...) not found in the normalised do_DATA")
    # "fully understood" bit: a private helper that could not be inlined may hold a mode write, so absence-based verdicts abstain
    opaque = sorted({call_name(c) for c in ast.walk(f) if isinstance(c, ast.Call) and (call_name(c) or "").startswith("self._") and call_name(c) not in ("self._disconnect", "self._messageHandled")})

    def assigns(attr, value=None):
        return g.ids(lambda n: n.kind == "stmt" and isinstance(n.ast, ast.Assign) and any(is_self_attr(t, attr) for t in n.ast.targets)
                     and (value is None or src(n.ast.value) == value))
    arm = assigns("mode", "DATA")
    if not arm and opaque:
        raise Abstain(f"no `self.mode = DATA` in do_DATA and {opaque[0]} could not be inlined")
    ctx.check(bool(arm), "do_DATA/armed-before-354", q + " | self.mode = DATA", "DATA mode is never entered")
    for attr, nodes, why in (("mode", arm, "the server is still in COMMAND mode when the client is told to send the body: the first body lines are run as commands"),
                             ("__messages", assigns("__messages"), "the message list is not in place when body lines start to arrive"),
                             ("__inheader", assigns("__inheader"), "header-detection state of the previous message leaks into this one"),
                             ("__inbody", assigns("__inbody"), "header-detection state of the previous message leaks into this one")):
        wit = g.must_precede(nodes, go, exc=False)
        if (not nodes or wit is not None) and opaque:
            ctx.note(f"do_DATA/armed-before-354: self.{attr} is not visibly set before 354 but {opaque[0]} could not be inlined; clause left to do_DATA-eval/armed-when-354-goes-out")
            continue
        ctx.check(bool(nodes) and wit is None, "do_DATA/armed-before-354", f"{q} | self.{attr} before 354", why, witness=g.describe(wit))
    disarm = assigns("mode", "COMMAND")
    for a in arm:
        wit = g.must_pass([a], set(go) | set(disarm), to={g.exit}, exc=True)
        if wit is not None and opaque:
            ctx.note(f"do_DATA/armed-implies-354: a path without a visible mode reset exists but {opaque[0]} could not be inlined; clause left to do_DATA-eval/refusal-leaves-command-mode")
            continue
        ctx.check(wit is None, "do_DATA/armed-implies-354", q + " | self.mode = DATA",
                  "do_DATA can return in DATA mode without having sent 354: the client's next commands are swallowed as body",
                  witness=g.describe(wit))
    for d in disarm:
        in_handler = any(g.node(x).kind == "handler" for x in g.dominators().get(d, ()))
        wit = g.path([d], go, edge_ok=lambda a, b, l: l != "exc")
        ctx.check(in_handler and wit is None, "do_DATA/disarm-only-on-failure", ctx.construct(q, g.node(d).ast) + (" | in handler" if in_handler else ""),
                  "DATA mode is left again on a path that still sends 354 (body would be read as commands)", witness=g.describe(wit))
    # precondition failure returns before arming
    early = g.find(lambda x: isinstance(x, ast.Call) and call_name(x) == "self.sendCode" and x.args and isinstance(x.args[0], ast.Constant) and x.args[0].value == 503)
    for e in early:
        wit = g.path([e], arm, edge_ok=lambda a, b, l: l != "exc")
        ctx.check(wit is None, "do_DATA/armed-implies-354", ctx.construct(q, g.node(e).ast),
                  "after refusing DATA with 503 the server still enters DATA mode", witness=g.describe(wit))


def check(ctx):
    env = module_env(ctx.mod(SMTP))
    ctx.need(env.get("DATA") == "DATA" and env.get("COMMAND") == "COMMAND", "module constants COMMAND, DATA")
    delim_srv, delim_cli = _delims(ctx)
    ctx.check(delim_srv == delim_cli == b"\r\n", "framing/delimiter-agreement", "twisted.mail.smtp.SMTP.delimiter ~ SMTPClient.delimiter",
              f"server splits lines at {delim_srv!r}, client terminates lines with {delim_cli!r}")
    wired = _definitions(ctx, CLIENT_CLASSES, "smtpState_data")
    ctx.need(wired, "SMTPClient.smtpState_data")
    for cn, f in wired:
        with structural(ctx, f"wiring/* ({cn})", "client/transform-wired, client/finish-wired (bounded)"):
            _struct_wiring(ctx, cn, f.name)
        with sect(ctx, f"client wiring / writer ({cn})"):
            _check_wiring(ctx, cn, f, delim_srv, delim_cli)
    with sect(ctx, "client sendLine"):
        _check_sendline(ctx, delim_cli)
    with structural(ctx, "filesender-cfg/*", "filesender/* (bounded)"):
        _struct_filesender(ctx)
    with sect(ctx, "FileSender"):
        _check_filesender(ctx)
    with sect(ctx, "server dispatch / reader"), structural(ctx, "dispatch/*", "dispatch-eval/data-mode-line-reaches-handler (bounded)"):
        _check_dispatch(ctx, env)
    with sect(ctx, "server dispatch evaluated"):
        _eval_dispatch(ctx, env)
    with sect(ctx, "mode writers"):
        _check_mode_writers(ctx)
    with structural(ctx, "do_DATA/*", "do_DATA-eval/* (bounded)"):
        _check_do_data(ctx)
    with sect(ctx, "do_DATA evaluated"):
        _eval_do_data(ctx)
    with structural(ctx, "transaction-state/*", "transaction-eval/* (bounded)"):
        _struct_transaction_state(ctx)
    with sect(ctx, "two messages on one connection"):
        _eval_two_messages(ctx)


MUTANTS = [
    Mutant('stuff-before-newline-conversion', SMTP, '        chunk = chunk.replace(b"\\n", b"\\r\\n").replace(b"\\r\\n.", b"\\r\\n..")\n', '        chunk = chunk.replace(b"\\r\\n.", b"\\r\\n..").replace(b"\\n", b"\\r\\n")\n', expect_rule='stuffing/writer-semantics'),
    Mutant('stuff-every-dot', SMTP, '        chunk = chunk.replace(b"\\n", b"\\r\\n").replace(b"\\r\\n.", b"\\r\\n..")\n', '        chunk = chunk.replace(b"\\n", b"\\r\\n").replace(b".", b"..")\n', expect_rule='stuffing/writer-semantics'),
    Mutant("finish-condition-inverted", SMTP, '        if lastsent != b"\\n":\n            line = b"\\r\\n."\n', '        if lastsent == b"\\n":\n            line = b"\\r\\n."\n',
           expect_rule="terminator/emitted-on-own-line"),
    Mutant("finish-compares-str", SMTP, '        if lastsent != b"\\n":\n', '        if lastsent != "\\n":\n', expect_rule="terminator/emitted-on-own-line"),
    Mutant("terminator-prefix-match", SMTP, '            if line == b".":\n                self.mode = COMMAND\n', '            if line.rstrip() == b".":\n                self.mode = COMMAND\n',
           expect_rule="reader/terminator"),
    Mutant("terminator-any-dot-line", SMTP, '        if line[:1] == b".":\n            if line == b".":\n', '        if line[:1] == b".":\n            if line.strip(b".") == b"":\n',
           expect_rule="reader/terminator"),
    Mutant("strip-all-dots", SMTP, '            line = line[1:]\n\n        if self.datafailed:\n', '            line = line.lstrip(b".")\n\n        if self.datafailed:\n',
           expect_rule="reader/strip-one-dot"),
    Mutant("drop-destuffing", SMTP, '            line = line[1:]\n\n        if self.datafailed:\n', '\n        if self.datafailed:\n', expect_rule="reader/strip-one-dot"),
    Mutant("blank-line-dropped", SMTP, '            if not line:\n                self.__inbody = 1\n', '            if not line:\n                self.__inbody = 1\n                return\n',
           expect_rule="reader/delivers-every-line"),
    Mutant("mode-armed-after-354", SMTP, '        self.mode = DATA\n        helo, origin = self._helo, self._from\n', '        helo, origin = self._helo, self._from\n',
           more=[(SMTP, '        self.sendCode(354, b"Continue")\n', '        self.sendCode(354, b"Continue")\n        self.mode = DATA\n')], expect_rule="do_DATA/armed-before-354"),
    Mutant("rset-leaves-data-mode", SMTP, '        self._to = []\n        self.sendCode(250, b"I remember nothing.")\n', '        self._to = []\n        self.mode = COMMAND\n        self.sendCode(250, b"I remember nothing.")\n',
           expect_rule="who-may-write/mode"),
    Mutant("failure-keeps-data-mode", SMTP, '                self.sendCode(e.code, e.resp)\n                self.mode = COMMAND\n', '                self.sendCode(e.code, e.resp)\n',
           expect_rule="do_DATA/armed-implies-354"),
    Mutant("transform-not-wired", SMTP, 's.beginFileTransfer(self.getMailData(), self.transport, self.transformChunk)', 's.beginFileTransfer(self.getMailData(), self.transport)',
           expect_rule="client/transform-wired"),
    Mutant("lastsent-first-byte", BASIC, "        self.lastSent = chunk[-1:]\n", "        self.lastSent = chunk[:1]\n", expect_rule="filesender/last-byte"),
    Mutant("lastsent-before-transform", BASIC, "        if self.transform:\n            chunk = self.transform(chunk)\n        self.consumer.write(chunk)\n        self.lastSent = chunk[-1:]\n",
           "        self.lastSent = chunk[-1:]\n        if self.transform:\n            chunk = self.transform(chunk)\n        self.consumer.write(chunk)\n", expect_rule="filesender/last-byte"),
    Mutant("transform-only-first-chunk", BASIC, "        if self.transform:\n            chunk = self.transform(chunk)\n", "        if self.transform and not self.lastSent:\n            chunk = self.transform(chunk)\n",
           expect_rule="filesender/transform-every-chunk"),
    Mutant('F40-revert-chunk-initial-period-not-stuffed', SMTP, '        if self._bodyAtLineStart and chunk[:1] == b".":\n            chunk = b"." + chunk\n', '', expect_rule='chunk/stateful-context'),
    Mutant('line-start-flag-inverted', SMTP, '            self._bodyAtLineStart = chunk[-1:] == b"\\n"\n', '            self._bodyAtLineStart = chunk[-1:] != b"\\n"\n', expect_rule='stuffing/writer-semantics'),
    Mutant('line-start-flag-not-reset-per-message', SMTP, '        self._bodyAtLineStart = True\n        s = basic.FileSender()\n', '        s = basic.FileSender()\n', expect_rule='chunk/state-reset-per-message'),
    Mutant('regex-stuffing-anchored-at-chunk-start', SMTP, '        chunk = chunk.replace(b"\\n", b"\\r\\n").replace(b"\\r\\n.", b"\\r\\n..")\n', '        chunk = self._lineStartDot.sub(b"..", chunk).replace(b"\\n", b"\\r\\n")\n', more=[(SMTP, '    ## Helpers for FileSender\n    ##\n', '    ## Helpers for FileSender\n    ##\n    _lineStartDot = re.compile(rb"^\\.", re.MULTILINE)\n\n')], expect_rule='stuffing/writer-semantics'),
    Mutant("refused-line-leaves-data-mode", SMTP, "            self.datafailed = e\n            for message in self.__messages:\n                message.connectionLost()\n",
           "            self.datafailed = e\n            self.mode = COMMAND\n            for message in self.__messages:\n                message.connectionLost()\n", expect_rule="reader/terminator"),
    Mutant("refusal-helper-forgets-mode-reset", SMTP, "                self.sendCode(e.code, e.resp)\n                self.mode = COMMAND\n                self._disconnect(msgs)\n                return\n",
           "                self._refuse(e.code, e.resp, msgs)\n                return\n",
           more=[(SMTP, "    def do_DATA(self, rest):\n", "    def _refuse(self, code, resp, msgs):\n        self.sendCode(code, resp)\n        self._disconnect(msgs)\n\n    def do_DATA(self, rest):\n")],
           expect_rule="do_DATA"),
    Mutant("dispatch-strips-the-line", SMTP, '        return getattr(self, "state_" + self.mode)(line)\n', '        handler = getattr(self, "state_" + self.mode)\n        return handler(line.strip())\n',
           expect_rule="dispatch"),
    Mutant("header-state-not-reset", SMTP, "        self.__inheader = self.__inbody = 0\n        self.sendCode(354", "        self.__inbody = 0\n        self.sendCode(354", expect_rule="do_DATA/armed-before-354"),
    Mutant('refusal-flag-initialised-once-per-connection', SMTP, '        self._to = []\n        self.datafailed = None\n\n        msgs = []\n', '        self._to = []\n\n        msgs = []\n', more=[(SMTP, '        self._helo = None\n        self._to = []\n        self.delivery = delivery\n', '        self._helo = None\n        self._to = []\n        self.datafailed = None\n        self.delivery = delivery\n')], expect_rule='transaction-state/reset-before-354'),
    Mutant('refusal-flag-cleared-only-after-354-when-noisy', SMTP, '        self._to = []\n        self.datafailed = None\n\n        msgs = []\n', '        self._to = []\n\n        msgs = []\n', more=[(SMTP, '        if self.noisy:\n            fmt = "Receiving message for delivery: from=%s to=%s"\n', '        if self.noisy:\n            self.datafailed = None\n            fmt = "Receiving message for delivery: from=%s to=%s"\n'), (SMTP, '        self._helo = None\n        self._to = []\n        self.delivery = delivery\n', '        self._helo = None\n        self._to = []\n        self.datafailed = None\n        self.delivery = delivery\n')], expect_rule='transaction-state/reset-before-354'),
    Mutant('refusal-flag-cleared-by-RSET-instead-of-DATA', SMTP, '        self._to = []\n        self.datafailed = None\n\n        msgs = []\n', '        self._to = []\n\n        msgs = []\n', more=[(SMTP, '    def do_RSET(self, rest):\n        self._from = None\n', '    def do_RSET(self, rest):\n        self.datafailed = None\n        self._from = None\n'), (SMTP, '        self._helo = None\n        self._to = []\n        self.delivery = delivery\n', '        self._helo = None\n        self._to = []\n        self.datafailed = None\n        self.delivery = delivery\n')], expect_rule='transaction-eval/message-after-refused-one'),
]
SILENT = [
    Silent('transaction-reset-in-a-private-helper', SMTP, '        self._from = None\n        self._to = []\n        self.datafailed = None\n\n        msgs = []\n', '        self._newTransaction()\n\n        msgs = []\n', more=[(SMTP, '    def do_DATA(self, rest):\n', '    def _newTransaction(self):\n        self._from = None\n        self._to = []\n        self.datafailed = None\n\n    def do_DATA(self, rest):\n')]),
    Silent('refusal-flag-put-back-at-end-of-data', SMTP, '        self._to = []\n        self.datafailed = None\n\n        msgs = []\n', '        self._to = []\n\n        msgs = []\n', more=[(SMTP, '                    self.sendCode(self.datafailed.code, self.datafailed.resp)\n                    return\n', '                    self.sendCode(self.datafailed.code, self.datafailed.resp)\n                    self.datafailed = None\n                    return\n'), (SMTP, '        self._helo = None\n        self._to = []\n        self.delivery = delivery\n', '        self._helo = None\n        self._to = []\n        self.datafailed = None\n        self.delivery = delivery\n')]),
    Silent('refusal-flag-reset-first-thing-after-precondition', SMTP, '        self._to = []\n        self.datafailed = None\n\n        msgs = []\n', '        self._to = []\n\n        msgs = []\n', more=[(SMTP, '        self.mode = DATA\n        helo, origin = self._helo, self._from\n', '        self.datafailed = None\n        self.mode = DATA\n        helo, origin = self._helo, self._from\n')]),
    Silent('line-start-flag-by-endswith', SMTP, '            self._bodyAtLineStart = chunk[-1:] == b"\\n"\n', '            self._bodyAtLineStart = chunk.endswith(b"\\n")\n'),
    Silent('regex-stuffing-line-start-aware-across-chunks', SMTP, '        chunk = chunk.replace(b"\\n", b"\\r\\n").replace(b"\\r\\n.", b"\\r\\n..")\n        # The period which starts the message, or which starts a chunk right\n        # after a line ending, has no preceding newline within this chunk.\n        if self._bodyAtLineStart and chunk[:1] == b".":\n            chunk = b"." + chunk\n        if chunk:\n            self._bodyAtLineStart = chunk[-1:] == b"\\n"\n        return chunk\n', '        pad = b"" if self._bodyAtLineStart else b"x"\n        out = self._lineStartDot.sub(b"..", pad + chunk)[len(pad):]\n        if chunk:\n            self._bodyAtLineStart = chunk[-1:] == b"\\n"\n        return out.replace(b"\\n", b"\\r\\n")\n', more=[(SMTP, '    ## Helpers for FileSender\n    ##\n', '    ## Helpers for FileSender\n    ##\n    _lineStartDot = re.compile(rb"^\\.", re.MULTILINE)\n\n')]),
    Silent("filesender-chunk-writer-extracted", BASIC, "        if self.transform:\n            chunk = self.transform(chunk)\n        self.consumer.write(chunk)\n        self.lastSent = chunk[-1:]\n",
           "        self._emit(chunk)\n\n    def _emit(self, chunk):\n        convert = self.transform\n        if convert:\n            chunk = convert(chunk)\n        self.consumer.write(chunk)\n        self.lastSent = chunk[-1:]\n"),
    Silent("data-state-named-temporaries", SMTP, "        d = s.beginFileTransfer(self.getMailData(), self.transport, self.transformChunk)\n",
           "        start = s.beginFileTransfer\n        body = self.getMailData()\n        d = start(body, self.transport, transform=self.transformChunk)\n"),
    Silent("reader-helpers-extracted", SMTP, "            for message in self.__messages:\n                message.lineReceived(line)\n        except SMTPServerError as e:\n",
           "            self._relay(line)\n        except SMTPServerError as e:\n",
           more=[(SMTP, "    state_DATA = dataLineReceived\n", "    def _relay(self, line):\n        for message in self.__messages:\n            message.lineReceived(line)\n\n"
                  "    def _leaveDataMode(self):\n        self.mode = COMMAND\n\n    state_DATA = dataLineReceived\n"),
                 (SMTP, "                self.mode = COMMAND\n                if self.datafailed:\n", "                self._leaveDataMode()\n                if self.datafailed:\n")]),
    Silent("do-data-refusal-helper", SMTP, "                self.sendCode(e.code, e.resp)\n                self.mode = COMMAND\n                self._disconnect(msgs)\n                return\n",
           "                self._refuse(e.code, e.resp, msgs)\n                return\n",
           more=[(SMTP, "    def do_DATA(self, rest):\n", "    def _refuse(self, code, resp, msgs):\n        self.sendCode(code, resp)\n        self.mode = COMMAND\n        self._disconnect(msgs)\n\n    def do_DATA(self, rest):\n")]),
    Silent("dispatch-handler-named-first", SMTP, '        return getattr(self, "state_" + self.mode)(line)\n', '        handler = getattr(self, "state_" + self.mode)\n        return handler(line)\n'),
    Silent("do-data-precondition-de-morgan", SMTP, "        if self._from is None or (not self._to):\n", "        if not (self._from is not None and self._to):\n"),
    Silent("reader-startswith-and-inverted-test", SMTP, '        if line[:1] == b".":\n            if line == b".":\n', '        if line.startswith(b"."):\n            if not line != b".":\n'),
    Silent('stuff-then-convert', SMTP, '        chunk = chunk.replace(b"\\n", b"\\r\\n").replace(b"\\r\\n.", b"\\r\\n..")\n', '        chunk = chunk.replace(b"\\n.", b"\\n..").replace(b"\\n", b"\\r\\n")\n'),
    Silent("finish-branches-swapped", SMTP, '        if lastsent != b"\\n":\n            line = b"\\r\\n."\n        else:\n            line = b"."\n',
           '        if lastsent == b"\\n":\n            line = b"."\n        else:\n            line = b"\\r\\n."\n'),
    Silent("filesender-rename-local", BASIC, "        if self.transform:\n            chunk = self.transform(chunk)\n        self.consumer.write(chunk)\n        self.lastSent = chunk[-1:]\n",
           "        if self.transform is not None and self.transform:\n            chunk = self.transform(chunk)\n        self.consumer.write(chunk)\n        self.lastSent = chunk[len(chunk) - 1 :]\n"),
]
