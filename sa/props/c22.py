"""C22 - Chunked transfer coding round-trips and rejects malformed input."""
from __future__ import annotations

import ast

from sa.astx import assigned_targets, call_attr, call_name, dotted, src, statements, walk_local
from sa.domains import CTL, HEXDIG, TCHAR, fmt_set
from sa.selftest import Mutant, Silent
from sa.source import AnalysisError, class_assigns, methods
from sa.props._lib_e import (Raised, Unknown, Unsupported, assigns_self, call_in, calls_named, catches, check_hex_validators, handlers_of, http_interp, is_const,
                             is_falsy_return, make_env, no_exc, only_nodes_until_exit, ordered, resolve_local, risky_calls, self_attr, walk)

PROPERTY = "C22"
HTTP = "web/http.py"
ABNF = "web/_abnf.py"
Q = "twisted.web.http."
QD = Q + "_ChunkedTransferDecoder."
PREFIX = "_dataReceived_"
BAD = "_MalformedChunkedDataError"

TECHNIQUE = "state-table closure + small-step partial evaluation of each state handler over boundary buffers"
EXPLANATION = (
    "Decides (a) closure of the state table: every string assigned to state has a _dataReceived_<STATE> handler and vice versa, dispatch uses "
    "that prefix, noMoreData compares with an existing state; (b) by evaluating the source of _hexint/_ishexdigits/toChunk/fromChunk and by "
    "stepping each state handler's CFG with concrete buffers (every byte value in an extension, every malformed size form, the size-line and "
    "trailer limits at L-1/L/L+1, CR/LF split across deliveries) that the decision taken - wait / proceed to the right state / raise "
    "_MalformedChunkedDataError - and the bytes passed to dataCallback / finishCallback are the RFC 9112 7.1 ones; (c) structurally: the size is "
    "decoded only by _hexint inside a ValueError->_MalformedChunkedDataError conversion, all explicit raises of the four parsing states are "
    "_MalformedChunkedDataError and neither their message construction nor the handler bodies contain an operation that can raise something else on untrusted bytes "
    "(strict decode/int/index; the stepped runs include size fields with bytes >= 0x80 in every position and record any exception escaping), state/buffer are updated before each call-out and nothing but a return follows it, the extra bytes are taken "
    "before the buffer is cleared, finishCallback has a single site reached only in TRAILER, FINISHED refuses data, noMoreData raises _DataLoss "
    "unless FINISHED. Not decided: equality of decoded and original bytes for all chunkings (only per-step), trailer field syntax."
)
ASSUMPTIONS = [
    "bytearray/bytes/memoryview builtins behave as in CPython (used by the partial evaluator)",
    "dataCallback / finishCallback do not re-enter the decoder (documented: 'This callback is not reentrant')",
    "networkString(s) == s.encode('ascii')",
]
PARSING = ("CHUNK_LENGTH", "CRLF", "TRAILER", "BODY")


def _hit(vis, nodes):
    return any(n in vis for n in nodes)


def _state_table(ctx):
    cls = ctx.cls(HTTP, "_ChunkedTransferDecoder")
    ms = methods(cls)
    handlers = {n[len(PREFIX):] for n in ms if n.startswith(PREFIX)}
    assigned = {}
    for name, m in ms.items():
        for st in ast.walk(m):
            if isinstance(st, ast.Assign) and any(self_attr(t, "state") for t in assigned_targets(st)):
                v = st.value
                if isinstance(v, ast.Constant) and isinstance(v.value, str):
                    assigned.setdefault(v.value, []).append((name, st))
                else:
                    ctx.violation("states/closed", ctx.construct(QD + name, st), "state is assigned a non-literal value: the dispatch target is not determined")
    init = class_assigns(cls).get("state")
    ctx.check(isinstance(init, ast.Constant) and init.value == "CHUNK_LENGTH", "states/initial", QD + "state", "the decoder does not start in CHUNK_LENGTH")
    states = set(assigned) | ({init.value} if isinstance(init, ast.Constant) else set())
    for s in sorted(states):
        ctx.check(s in handlers, "states/closed", f"{QD}state = {s!r}", f"state {s!r} is assigned but there is no {PREFIX}{s} method: dataReceived raises AttributeError")
    for h in sorted(handlers):
        ctx.check(h in states, "states/closed", QD + PREFIX + h, f"handler {PREFIX}{h} exists but state {h!r} is never entered")
    ctx.floor("states/closed", len(states), 5)
    f = ctx.func(HTTP, "_ChunkedTransferDecoder.dataReceived")
    g = ctx.cfg(f)
    q = QD + "dataReceived"
    disp = [c for c in ast.walk(f) if isinstance(c, ast.Call) and call_name(c) == "getattr"]
    ok = len(disp) == 1 and len(disp[0].args) == 2 and src(disp[0].args[0]) == "self" and isinstance(disp[0].args[1], ast.BinOp) and \
        is_const(disp[0].args[1].left, PREFIX) and src(disp[0].args[1].right) == "self.state"
    ctx.check(ok, "states/dispatch", q, "dispatch is not getattr(self, '_dataReceived_' + self.state)")
    p = f.args.args[1].arg
    adds = g.ids(lambda n: n.kind == "stmt" and isinstance(n.ast, ast.AugAssign) and self_attr(n.ast.target, "_buffer") and isinstance(n.ast.op, ast.Add) and src(n.ast.value) == p)
    adds += calls_named(g, "self._buffer.extend")
    loops = g.ids(lambda n: n.kind == "join" and isinstance(n.ast, ast.While))
    w = ordered(g, adds, loops)
    ctx.check(bool(adds) and bool(loops) and w is None, "states/buffer-then-dispatch", q, "the delivered bytes are not appended to the buffer before the state handlers run", witness=g.describe(w))
    dn = [n for n in g.ids(lambda n: n.kind == "stmt") if any(isinstance(c, ast.Call) and call_name(c) == "getattr" for c in walk_local(g.node(n).ast))]
    for n in dn:
        ctx.check(g.guarded(n, lambda e: src(e) in ("self._buffer", "len(self._buffer)", "len(self._buffer) > 0"), True), "states/no-dispatch-on-empty-buffer",
                  ctx.construct(q, g.node(n).ast),
                  "a state handler runs on an empty buffer: CHUNK_LENGTH then stores _start = -1 and the CRLF of the next size line is searched from the wrong end")
        st = g.node(n).ast
        tv = assigned_targets(st)[0].id if isinstance(st, ast.Assign) and isinstance(assigned_targets(st)[0], ast.Name) else None
        ctx.check(tv is not None and g.guarded(n, lambda e: isinstance(e, ast.Name) and e.id == tv, True), "states/handler-result-controls-loop", ctx.construct(q, st),
                  "the handler's 'need more data' result does not control the dispatch loop")
    f = ctx.func(HTTP, "_ChunkedTransferDecoder.noMoreData")
    lits = [c.value for n in ast.walk(f) if isinstance(n, ast.Compare) and "self.state" in src(n) for c in ast.walk(n) if isinstance(c, ast.Constant) and isinstance(c.value, str)]
    ctx.check(bool(lits) and all(l in states for l in lits), "states/closed", QD + "noMoreData", f"noMoreData compares the state with {lits!r}, which is never entered")
    return states


def _pure(ctx, I):
    with ctx.section("hex validators"):
        check_hex_validators(ctx, I, "size")
    ft, ff = ctx.func(HTTP, "toChunk"), ctx.func(HTTP, "fromChunk")
    bad = None
    for d in (b"a", b"hello world", b"x" * 15, b"x" * 16, b"x" * 255, b"x" * 256, b"\r\n", b"5\r\nab", bytes(range(256))):
        for extra in (b"", b"0\r\n\r\n", b"GET / HTTP/1.1\r\n"):
            k1, chunk = I.outcome(ft, [d])
            wire = b"".join(chunk) if k1 == "ok" else b""
            k2, out = I.outcome(ff, [wire + extra]) if k1 == "ok" else ("-", None)
            if not (k1 == "ok" and k2 == "ok" and tuple(out) == (d, extra)) and bad is None:
                bad = (d[:16], extra, k1, k2, out)
    ctx.check(bad is None, "roundtrip/toChunk-fromChunk", Q + "toChunk",
              f"fromChunk(toChunk({bad[0]!r}..) + {bad[1]!r}) gives {bad[2]}/{bad[3]} {bad[4]!r} instead of (data, rest)" if bad else "",
              detail="writer and reader agree on size text, CRLFs and the remainder")
    bad = None
    for wire in (b"3\r\nabcXX", b"3\r\nabc", b"3\r\nab\r\n", b"g\r\nabc\r\n", b"+3\r\nabc\r\n", b"0x3\r\nabc\r\n", b" 3\r\nabc\r\n", b"3 \r\nabc\r\n", b"\r\nabc\r\n", b"3abc", b"3\rabc\r\n", b"3\nabc\r\n"):
        k, out = I.outcome(ff, [wire])
        if not (k == "raise" and I.is_sub(out, "ValueError")) and bad is None:
            bad = (wire, k, out)
    ctx.check(bad is None, "reject/fromChunk", Q + "fromChunk", f"fromChunk({bad[0]!r}) gives {bad[1]} {bad[2]!r}; malformed chunks must raise ValueError" if bad else "")


class _Step:
    """One handler stepped with a concrete decoder state."""

    def __init__(self, ctx, I, name):
        self.f = ctx.func(HTTP, "_ChunkedTransferDecoder." + PREFIX + name)
        self.g = ctx.cfg(self.f)
        self.I = I
        self.q = QD + PREFIX + name
        g = self.g
        self.raises = g.ids(lambda n: n.kind == "stmt" and isinstance(n.ast, ast.Raise))
        self.states = {}
        for n in assigns_self(g, "state"):
            v = g.node(n).ast.value
            if isinstance(v, ast.Constant):
                self.states.setdefault(v.value, []).append(n)
        self.waits = g.ids(lambda n: n.kind == "stmt" and is_falsy_return(n.ast) and n.ast.value is not None)
        self.goes = g.ids(lambda n: n.kind == "stmt" and isinstance(n.ast, ast.Return) and not is_falsy_return(n.ast))
        self.dcb = calls_named(g, "self.dataCallback")
        self.fcb = calls_named(g, "self.finishCallback")

    def run(self, buf, **attrs):
        env = {"self._buffer": bytearray(buf), "self._start": 0, "self.length": 0, "self._receivedTrailerHeadersSize": 0,
               "self._maxTrailerHeadersSize": 65536, "self._trailerHeaders": []}
        env.update({"self." + k: v for k, v in attrs.items()})
        calls = []
        exits = {}
        esc = []

        def on(node, e):
            if node.kind == "stmt":
                for nm, lst in (("self.dataCallback", "data"), ("self.finishCallback", "finish")):
                    c = call_in(node.ast, nm)
                    if c is not None and c.args:
                        try:
                            calls.append((lst, bytes(self.I.ev(c.args[0], e))))
                        except (Unknown, Unsupported, Raised):
                            calls.append((lst, None))
                if isinstance(node.ast, (ast.Return, ast.Raise)):
                    exits[node.id] = {k: (bytes(v) if isinstance(v, bytearray) else v) for k, v in e.items() if k.startswith("self.")}
        vis = walk(self.g, self.I, make_env(env), on_node=on, escapes=esc)
        out = "raise" if _hit(vis, self.raises) else ("wait" if _hit(vis, self.waits) else ("go" if _hit(vis, self.goes) else "?"))
        if sum([_hit(vis, self.raises), _hit(vis, self.waits), _hit(vis, self.goes)]) != 1 or esc:
            if not esc and sum([_hit(vis, self.raises), _hit(vis, self.waits), _hit(vis, self.goes)]) > 1:
                raise AnalysisError(f"{self.q}: outcome for buffer {bytes(buf)[:30]!r} not decidable by the partial evaluator")
            out = "?" if not esc else f"escape:{esc[0][1]}"
        st = sorted(s for s, ns in self.states.items() if _hit(vis, ns))
        final = next(iter(exits.values()), {}) if len(exits) == 1 else {}
        return out, st, calls, final


def _fmt(x):
    return repr(x if len(x) < 40 else x[:18] + b"..." + x[-12:]) + (f" (len {len(x)})" if len(x) >= 40 else "")


def _chunk_length(ctx, I, limit):
    s = _Step(ctx, I, "CHUNK_LENGTH")
    q = s.q
    cases = []   # (rule, buffer, attrs, expected outcome, expected states, expected buffer after | None, why)
    for size, state in ((b"5", "BODY"), (b"0", "TRAILER"), (b"a", "BODY"), (b"A0", "BODY"), (b"00", "TRAILER"), (b"000f", "BODY"), (b"ffffffff", "BODY")):
        cases.append(("size-line/accepted", size + b"\r\nhello", {}, "go", [state], b"hello", int(size, 16)))
        cases.append(("size-line/extension-ignored", size + b";name=val;x=\"q s\"\r\nhello", {}, "go", [state], b"hello", int(size, 16)))
    cases.append(("size-line/accepted", b"5\r\nhello", {"_start": 1}, "go", ["BODY"], b"hello", 5))
    cases.append(("size-line/accepted", b"1f;e\r\nhello", {"_start": 3}, "go", ["BODY"], b"hello", 31))
    cases.append(("size-line/accepted", b"5\r\nhe;lo", {}, "go", ["BODY"], b"he;lo", 5))
    cases.append(("size-line/accepted", b"0\r\n\r\n", {}, "go", ["TRAILER"], b"\r\n", 0))
    for bad in (b"g", b"", b"0x5", b"+5", b"-5", b" 5", b"5 ", b"1_0", b"5\t", b"\t5", b"5\r", b"5\n", b"\xb2", b"5.0", b"0g", b"\x00"):
        cases.append(("reject/size-not-hex", bad + b"\r\nhello", {}, "raise", [], None, None))
        cases.append(("reject/size-not-hex", bad + b";ext\r\nhello", {}, "raise", [], None, None))
    for hi in (b"\x80", b"\xff", b"\xe9", b"\xc3\xa9"):
        for bad in (hi, b"5" + hi, hi + b"5", b"5" + hi + b"5", b"ff" + hi):
            cases.append(("reject/size-not-hex", bad + b"\r\nhello", {}, "raise", [], None, None))
            cases.append(("reject/size-not-hex", bad + b";ext=1\r\nhello", {}, "raise", [], None, None))
    for hi in (b"\x80", b"\xff"):
        cases.append(("size-line/limit", b"1" * (limit - 2) + hi + b"1\r\nX", {}, "raise", [], None, None))
        cases.append(("size-line/limit-unterminated", hi * (limit + 1), {}, "raise", [], None, None))
    must_reject = (CTL - {9}) | {127}
    must_accept = TCHAR | set(b';="\t ') | set(range(0x80, 0x100))
    for v in range(256):
        buf = b"1;a" + bytes([v]) + b"b\r\nX"
        if v in must_reject and v != 10:
            cases.append(("reject/extension-bytes", buf, {}, "raise", [], None, None))
        elif v in must_accept:
            cases.append(("size-line/extension-bytes-accepted", buf, {}, "go", ["BODY"], b"X", 1))
    cases.append(("reject/extension-bytes", b"1;a\r\rb\r\nX", {}, "raise", [], None, None))
    cases.append(("reject/extension-bytes", b"1;a\nb\r\nX", {}, "raise", [], None, None))
    L = limit
    cases += [
        ("size-line/limit", b"1" * (L - 1) + b"\r\nX", {}, "go", ["BODY"], b"X", int(b"1" * (L - 1), 16)),
        ("size-line/limit", b"1" * L + b"\r\nX", {}, "raise", [], None, None),
        ("size-line/limit", b"1;" + b"e" * (L + 5) + b"\r\nX", {}, "raise", [], None, None),
        ("size-line/limit-unterminated", b"1" * L, {}, "wait", [], None, None),
        ("size-line/limit-unterminated", b"1" * (L - 1) + b"\r", {}, "wait", [], None, None),
        ("size-line/limit-unterminated", b"1" * (L + 1), {}, "raise", [], None, None),
        ("size-line/wait-for-crlf", b"5", {}, "wait", [], None, None),
        ("size-line/wait-for-crlf", b"5\r", {}, "wait", [], None, None),
        ("size-line/wait-for-crlf", b"5;ext", {}, "wait", [], None, None),
        ("size-line/wait-for-crlf", b"5\n", {}, "wait", [], None, None),
    ]
    for rule, buf, attrs, want, states, after, length in cases:
        out, st, calls, final = s.run(buf, **attrs)
        ok = out == want and st == states and not calls
        if ok and after is not None:
            ok = final.get("self._buffer") == after and final.get("self.length") == length and final.get("self._start") == 0
        ctx.check(ok, rule, f"{q} | buffer {_fmt(buf)}" + (f" {sorted(attrs.items())}" if attrs else ""),
                  f"with buffer {_fmt(buf)} the handler does {out} {st} leaving buffer={final.get('self._buffer')!r} length={final.get('self.length')!r} "
                  f"_start={final.get('self._start')!r}; RFC 9112 7.1 / the documented limit {L} require {want} {states}"
                  + (f" with buffer {after!r}, length {length}, _start 0" if after is not None else ""))
    # search resumes where a CR may still be waiting for its LF
    for buf in (b"5", b"5\r", b"5;abc", b"12345\r"):
        for start in (0, max(0, len(buf) - 2)):
            out, st, calls, final = s.run(buf, _start=start)
            v = final.get("self._start")
            ctx.check(out == "wait" and isinstance(v, int) and 0 <= v <= len(buf) - 1, "split/search-resumes-before-cr", f"{q} | buffer {buf!r} _start={start}",
                      f"after an unterminated size line {buf!r} the search restarts at {v!r}: a CR already buffered is skipped and the CRLF split over two deliveries is never found")
    # structural: size decoded only by _hexint, converted errors, raise kinds
    g, f = s.g, s.f
    hx = calls_named(g, "_hexint")
    ints = [n for n in calls_named(g, "int") if call_in(g.node(n).ast, "int") is not None]
    ctx.check(bool(hx) and not ints, "size/decoded-by-hexint", q, "the chunk size is not decoded (only) by _hexint: int(x, 16) accepts '0x', '+', '_' and surrounding whitespace")
    for n in hx:
        hs = [h for h in handlers_of(g, n) if catches(I, g.node(h).ast, "ValueError")]
        wit = None
        for h in hs:
            wit = wit or only_nodes_until_exit(g, [h], lambda nd: nd.kind == "handler" or (nd.kind == "stmt" and isinstance(nd.ast, ast.Raise) and BAD in src(nd.ast)))
        ctx.check(bool(hs) and wit is None, "reject/size-error-converted", ctx.construct(q, g.node(n).ast),
                  "a non-hexadecimal size does not become _MalformedChunkedDataError (the server would not answer 400)", witness=g.describe(wit))
        st = g.node(n).ast
        lv = assigned_targets(st)[0].id if isinstance(st, ast.Assign) and isinstance(assigned_targets(st)[0], ast.Name) else None
        stores = assigns_self(g, "length")
        ctx.check(bool(stores) and all(isinstance(g.node(x).ast.value, ast.Name) and g.node(x).ast.value.id == lv for x in stores), "size/stored-is-decoded",
                  ctx.construct(q, st), "self.length is not the value decoded by _hexint")
    return s


def _raise_kinds(ctx, I):
    for name in PARSING:
        f = ctx.func(HTTP, "_ChunkedTransferDecoder." + PREFIX + name)
        # building the rejection must not itself raise something else on untrusted bytes
        regions = [(r, r.exc) for r in ast.walk(f) if isinstance(r, ast.Raise) and r.exc is not None]
        regions += [(st, st) for h in ast.walk(f) if isinstance(h, ast.ExceptHandler) for st in h.body if not isinstance(st, ast.Raise)]
        for st, region in regions:
            bad = risky_calls(region)
            ctx.check(not bad, "reject/reject-path-cannot-raise-otherwise", ctx.construct(QD + PREFIX + name, st),
                      (f"on the reject path {src(bad[0])} can raise (UnicodeDecodeError / ValueError) for untrusted bytes before _MalformedChunkedDataError is raised: "
                       "the exception leaves dataReceived uncaught (no 400, no disconnect)") if bad else "")
        for r in [n for n in ast.walk(f) if isinstance(n, ast.Raise)]:
            nm = call_attr(r.exc) if isinstance(r.exc, ast.Call) else (dotted(r.exc) if r.exc is not None else None)
            ctx.check(nm == BAD, "reject/raises-malformed", ctx.construct(QD + PREFIX + name, r),
                      f"malformed input raises {nm} instead of _MalformedChunkedDataError (HTTPChannel only converts that one to a 400)")
    f = ctx.func(HTTP, "_ChunkedTransferDecoder." + PREFIX + "FINISHED")
    g = ctx.cfg(f)
    ctx.check(g.path([g.entry], [g.exit], edge_ok=no_exc) is None, "finished/refuses-data", QD + PREFIX + "FINISHED", "data delivered after the last chunk is accepted")
    f = ctx.func(HTTP, "_ChunkedTransferDecoder.noMoreData")
    g = ctx.cfg(f)
    raises = g.ids(lambda n: n.kind == "stmt" and isinstance(n.ast, ast.Raise))
    for st in ("CHUNK_LENGTH", "CRLF", "TRAILER", "BODY", "FINISHED"):
        vis = walk(g, I, make_env({"self.state": st}))
        want = st != "FINISHED"
        ctx.check(_hit(vis, raises) == want and (g.exit in vis) == (not want), "dataloss/reported-unless-finished", f"{QD}noMoreData | state {st}",
                  "the end of the stream before the last chunk is not reported" if want else "a completely decoded body is reported as data loss")
    for r in raises:
        ctx.check("_DataLoss" in src(g.node(r).ast), "dataloss/reported-unless-finished", ctx.construct(QD + "noMoreData", g.node(r).ast), "noMoreData raises something other than _DataLoss")


def _crlf_body_trailer(ctx, I, maxtrailer):
    s = _Step(ctx, I, "CRLF")
    for buf, want, states, after in ((b"\r", "wait", [], None), (b"\r\n", "go", ["CHUNK_LENGTH"], b""), (b"\r\n5\r\nab", "go", ["CHUNK_LENGTH"], b"5\r\nab"),
                                     (b"ab", "raise", [], None), (b"\rX", "raise", [], None), (b"\n\r", "raise", [], None), (b"X\r\n", "raise", [], None),
                                     (b"\n\n", "raise", [], None), (b"\r\r\n", "raise", [], None)):
        out, st, calls, final = s.run(buf, state="CRLF")
        ok = out == want and st == states and not calls and (after is None or final.get("self._buffer") == after)
        rule = {"wait": "split/crlf-wait", "go": "chunk-end/crlf-consumed", "raise": "reject/chunk-not-followed-by-crlf"}[want]
        ctx.check(ok, rule, f"{s.q} | buffer {buf!r}", f"after chunk data, buffer {buf!r}: handler does {out} {st} buffer={final.get('self._buffer')!r}; required {want} {states}"
                  + (f" leaving {after!r}" if after is not None else ""))
    b = _Step(ctx, I, "BODY")
    for buf, length, cb, states, after, left in ((b"hello", 5, b"hello", ["CRLF"], b"", None), (b"hello\r\n0\r\n\r\n", 5, b"hello", ["CRLF"], b"\r\n0\r\n\r\n", None),
                                                 (b"hel", 5, b"hel", [], b"", 2), (b"h", 1, b"h", ["CRLF"], b"", None), (b"helloX", 5, b"hello", ["CRLF"], b"X", None),
                                                 (b"\r\n\r\n", 3, b"\r\n\r", ["CRLF"], b"\n", None), (b"abcd", 1000, b"abcd", [], b"", 996)):
        out, st, calls, final = b.run(buf, length=length, state="BODY")
        ok = out == "go" and st == states and calls == [("data", cb)] and final.get("self._buffer") == after and (left is None or final.get("self.length") == left)
        ctx.check(ok, "body/chunk-bytes", f"{b.q} | buffer {buf!r} length {length}",
                  f"with {length} bytes outstanding and buffer {buf!r}: {out} {st}, callbacks {calls!r}, buffer {final.get('self._buffer')!r}, length {final.get('self.length')!r}; "
                  f"required dataCallback({cb!r}), state {states}, buffer {after!r}" + (f", length {left}" if left is not None else ""))
    t = _Step(ctx, I, "TRAILER")
    M = maxtrailer
    for rule, buf, attrs, want, states, cbs, after in (
            ("finish/extra-bytes", b"\r\n", {}, "wait", ["FINISHED"], [("finish", b"")], b""),
            ("finish/extra-bytes", b"\r\nGET / HTTP/1.1\r\n\r\n", {}, "wait", ["FINISHED"], [("finish", b"GET / HTTP/1.1\r\n\r\n")], b""),
            ("finish/extra-bytes", b"\r\n\r\n", {}, "wait", ["FINISHED"], [("finish", b"\r\n")], b""),
            ("trailer/field-consumed", b"X: y\r\n\r\nZ", {}, "go", [], [], b"\r\nZ"),
            ("trailer/field-consumed", b"X: y\r\nW: v\r\n", {}, "go", [], [], b"W: v\r\n"),
            ("trailer/field-consumed", b"X: y\r\nW: v\r\n", {"_start": 3}, "go", [], [], b"W: v\r\n"),
            ("split/trailer-wait", b"\r", {}, "wait", [], [], None),
            ("split/trailer-wait", b"X: y", {}, "wait", [], [], None),
            ("split/trailer-wait", b"X: y\r", {}, "wait", [], [], None),
            ("trailer/limit", b"a" * (M + 10), {}, "raise", [], [], None),
            ("trailer/limit", b"a" * (M + 10) + b"\r\n", {}, "raise", [], [], None),
            ("trailer/limit", b"a" * 10 + b"\r\n", {"_receivedTrailerHeadersSize": M - 5}, "raise", [], [], None),
            ("trailer/limit", b"a" * 10, {"_receivedTrailerHeadersSize": M - 5}, "raise", [], [], None),
            ("trailer/limit", b"a" * 10 + b"\r\n", {"_receivedTrailerHeadersSize": 100}, "go", [], [], b"")):
        out, st, calls, final = t.run(buf, state="TRAILER", _maxTrailerHeadersSize=M, **attrs)
        ok = out == want and st == states and calls == cbs and (after is None or final.get("self._buffer") == after)
        if ok and want == "go":
            ok = final.get("self._start") == 0 and final.get("self._receivedTrailerHeadersSize") == attrs.get("_receivedTrailerHeadersSize", 0) + buf.find(b"\r\n") + 2
        ctx.check(ok, rule, f"{t.q} | buffer {_fmt(buf)}" + (f" {sorted(attrs.items())}" if attrs else ""),
                  f"after the last chunk, buffer {_fmt(buf)}: {out} {st}, callbacks {calls!r}, buffer {final.get('self._buffer')!r}; required {want} {states} {cbs!r}"
                  + (f" leaving {after!r}" if after is not None else ""))
    return s, b, t


def _callouts(ctx, steps):
    total_f = 0
    for s in steps:
        g = s.g
        for n in s.dcb + s.fcb:
            succ = [d for d, l in g.succ[n] if l != "exc"]
            wit = only_nodes_until_exit(g, succ, lambda nd: nd.kind == "stmt" and isinstance(nd.ast, ast.Return))
            ctx.check(wit is None, "callout/state-updated-first", ctx.construct(s.q, g.node(n).ast),
                      "decoder state / buffer are modified after the callback was invoked (a callback that raises or delivers more data sees a half-updated decoder)",
                      witness=g.describe(wit))
        total_f += len(s.fcb)
        for n in s.fcb:
            c = call_in(g.node(n).ast, "self.finishCallback")
            a = c.args[0] if c.args else None
            defs = [d for d in g.ids(lambda m: m.kind == "stmt" and isinstance(m.ast, ast.Assign) and isinstance(a, ast.Name) and any(isinstance(t, ast.Name) and t.id == a.id for t in m.ast.targets))]
            clears = [d for d in g.ids(lambda m: m.kind == "stmt" and isinstance(m.ast, ast.Delete) and "self._buffer" in src(m.ast)) if g.dominates(d, n)]
            clears += [d for d in calls_named(g, "self._buffer.clear") if g.dominates(d, n)]
            for cl in clears:
                w = ordered(g, defs, [cl])
                ctx.check(bool(defs) and w is None, "finish/extra-taken-before-clear", ctx.construct(s.q, g.node(cl).ast),
                          "the buffer is cleared before the bytes following the terminator are taken: the next pipelined request is lost", witness=g.describe(w))
            fin = [x for x in s.states.get("FINISHED", [])]
            w = ordered(g, fin, [n])
            ctx.check(bool(fin) and w is None, "finish/state-before-callback", ctx.construct(s.q, c),
                      "finishCallback runs before the decoder is FINISHED (noMoreData called beneath it would report data loss)", witness=g.describe(w))
    ctx.check(total_f == 1, "finish/exactly-one-site", QD + "finishCallback", f"finishCallback is invoked from {total_f} sites in the parsing states (completion must be signalled exactly once)")


def check(ctx):
    I = http_interp(ctx)
    with ctx.section("state table"):
        _state_table(ctx)
    with ctx.section("pure functions"):
        _pure(ctx, I)
    limit = I.consts.get("maxChunkSizeLineLength")
    ctx.check(isinstance(limit, int) and limit >= 16, "size-line/limit", Q + "maxChunkSizeLineLength", f"maxChunkSizeLineLength is {limit!r}")
    init = ctx.func(HTTP, "_ChunkedTransferDecoder.__init__")
    mt = [st.value for st in ast.walk(init) if isinstance(st, ast.Assign) and any(self_attr(t, "_maxTrailerHeadersSize") for t in st.targets)]
    ctx.need(mt, "_maxTrailerHeadersSize in _ChunkedTransferDecoder.__init__")
    M = I.ev(mt[0], {})
    steps = []
    with ctx.section("CHUNK_LENGTH"):
        steps.append(_chunk_length(ctx, I, limit if isinstance(limit, int) else 1024))
    with ctx.section("raise kinds / FINISHED / noMoreData"):
        _raise_kinds(ctx, I)
    with ctx.section("CRLF / BODY / TRAILER"):
        steps.extend(_crlf_body_trailer(ctx, I, M))
    with ctx.section("call-outs"):
        ctx.need(len(steps) == 4, "all four parsing state handlers stepped")
        _callouts(ctx, steps)


MUTANTS = [
    Mutant('hexdigits-regex-dollar-accepts-trailing-newline', ABNF, '    for c in b:\n        if c not in b"0123456789abcdefABCDEF":\n            return False\n    return b != b""\n', '    return _HEX_RE.match(b) is not None\n', more=[(ABNF, '"""\n\n\ndef _istoken', '"""\n\nimport re\n\n_HEX_RE = re.compile(rb"[0-9a-fA-F]+$")\n\n\ndef _istoken')], expect_rule='size/hex'),
    Mutant("hexdigits-accept-plus-space", ABNF, "        if c not in b\"0123456789abcdefABCDEF\":", "        if c not in b\"0123456789abcdefABCDEF +\":", expect_rule="size/hex"),
    Mutant("size-by-int-base16", HTTP, "            length = _hexint(rawLength)\n        except ValueError:", "            length = int(rawLength, 16)\n        except ValueError:", expect_rule="reject/size-not-hex"),
    Mutant("size-error-not-converted", HTTP, "            length = _hexint(rawLength)\n        except ValueError:", "            length = _hexint(rawLength)\n        except TypeError:", expect_rule="reject/"),
    Mutant("crlf-check-dropped", HTTP, "        if not self._buffer.startswith(b\"\\r\\n\"):\n            raise _MalformedChunkedDataError(\"Chunk did not end with CRLF\")\n\n", "", expect_rule="reject/chunk-not-followed-by-crlf"),
    Mutant("crlf-wait-threshold", HTTP, "        if len(self._buffer) < 2:\n            return False\n\n        if not self._buffer.startswith", "        if len(self._buffer) < 1:\n            return False\n\n        if not self._buffer.startswith",
           expect_rule="split/crlf-wait"),
    Mutant("crlf-raises-runtime-error", HTTP, "            raise _MalformedChunkedDataError(\"Chunk did not end with CRLF\")", "            raise RuntimeError(\"Chunk did not end with CRLF\")", expect_rule="reject/raises-malformed"),
    Mutant("finish-callback-before-state", HTTP, "        self.state = \"FINISHED\"\n        self.finishCallback(data)\n        return False", "        self.finishCallback(data)\n        self.state = \"FINISHED\"\n        return False",
           expect_rule="finish/state-before-callback"),
    Mutant("buffer-cleared-before-extra-taken", HTTP, "        data = memoryview(self._buffer)[2:].tobytes()\n\n        del self._buffer[:]\n", "        del self._buffer[:]\n        data = memoryview(self._buffer)[2:].tobytes()\n",
           expect_rule="finish/extra"),
    Mutant("extra-bytes-off-by-one", HTTP, "        data = memoryview(self._buffer)[2:].tobytes()", "        data = memoryview(self._buffer)[1:].tobytes()", expect_rule="finish/extra-bytes"),
    Mutant("size-line-limit-found-boundary", HTTP, "        if eolIndex >= maxChunkSizeLineLength or (", "        if eolIndex > maxChunkSizeLineLength or (", expect_rule="size-line/limit"),
    Mutant("size-line-limit-unterminated-boundary", HTTP, "            eolIndex == -1 and len(self._buffer) > maxChunkSizeLineLength", "            eolIndex == -1 and len(self._buffer) >= maxChunkSizeLineLength",
           expect_rule="size-line/limit-unterminated"),
    Mutant("search-skips-buffered-cr", HTTP, "            self._start = len(self._buffer) - 1\n", "            self._start = len(self._buffer)\n", expect_rule="split/search-resumes-before-cr"),
    Mutant("size-line-leaves-lf", HTTP, "        self.length = length\n        del self._buffer[0 : eolIndex + 2]", "        self.length = length\n        del self._buffer[0 : eolIndex + 1]", expect_rule="size-line/"),
    Mutant("search-offset-not-reset", HTTP, "        del self._buffer[0 : eolIndex + 2]\n        self._start = 0\n        return True\n\n    def _dataReceived_CRLF", "        del self._buffer[0 : eolIndex + 2]\n        return True\n\n    def _dataReceived_CRLF",
           expect_rule="size-line/"),
    Mutant("zero-and-nonzero-states-swapped", HTTP, "        if length == 0:\n            self.state = \"TRAILER\"\n        else:\n            self.state = \"BODY\"", "        if length != 0:\n            self.state = \"TRAILER\"\n        else:\n            self.state = \"BODY\"",
           expect_rule="size-line/accepted"),
    Mutant("extension-table-allows-cr", HTTP, "    b\"\\t !\\\"#$%&'()*+,-./0123456789:;<=>?@\"", "    b\"\\t\\r !\\\"#$%&'()*+,-./0123456789:;<=>?@\"", expect_rule="reject/extension-bytes"),
    Mutant("extension-check-dropped", HTTP, "        if ext and ext.translate(None, _chunkExtChars) != b\"\":", "        if False and ext.translate(None, _chunkExtChars) != b\"\":", expect_rule="reject/extension-bytes"),
    Mutant("partial-chunk-not-counted", HTTP, "            chunk = bytes(self._buffer)\n            self.length -= len(chunk)\n", "            chunk = bytes(self._buffer)\n", expect_rule="body/chunk-bytes"),
    Mutant("body-boundary-strict", HTTP, "        if len(self._buffer) >= self.length:\n            chunk = memoryview", "        if len(self._buffer) > self.length:\n            chunk = memoryview", expect_rule="body/chunk-bytes"),
    Mutant("state-after-data-callback", HTTP, "            self.state = \"CRLF\"\n            self.dataCallback(chunk)", "            self.dataCallback(chunk)\n            self.state = \"CRLF\"", expect_rule="callout/state-updated-first"),
    Mutant("trailer-size-not-counted", HTTP, "            self._receivedTrailerHeadersSize += eolIndex + 2\n", "", expect_rule="trailer/"),
    Mutant("trailer-limit-unterminated-dropped", HTTP, "            if minTrailerSize > self._maxTrailerHeadersSize:\n                raise _MalformedChunkedDataError(\"Trailer headers data is too long.\")\n", "", expect_rule="trailer/limit"),
    Mutant("semicolon-searched-beyond-line", HTTP, "endOfLengthIndex = self._buffer.find(b\";\", 0, eolIndex)", "endOfLengthIndex = self._buffer.find(b\";\")", expect_rule="size-line/accepted"),
    Mutant("terminator-taken-as-trailer-field", HTTP, "        if eolIndex > 0:\n            # A trailer header was detected.", "        if eolIndex >= 0:\n            # A trailer header was detected.", expect_rule="finish/extra-bytes"),
    Mutant("dispatch-on-empty-buffer", HTTP, "        while goOn and self._buffer:", "        while goOn:", expect_rule="states/no-dispatch-on-empty-buffer"),
    Mutant("chunk-end-leaves-lf", HTTP, "        del self._buffer[0:2]\n        return True", "        del self._buffer[0:1]\n        return True", expect_rule="chunk-end/crlf-consumed"),
    Mutant("reject-message-decodes-size-strictly", HTTP, "            raise _MalformedChunkedDataError(\"Chunk-size must be an integer.\")",
           "            raise _MalformedChunkedDataError(\"Chunk-size must be an integer: \" + rawLength.decode(\"ascii\"))", expect_rule="reject/"),
    Mutant("extension-message-decodes-strictly", HTTP, "                f\"Invalid characters in chunk extensions: {ext!r}.\"", "                \"Invalid characters in chunk extensions: \" + ext.decode(\"utf-8\")",
           expect_rule="reject/"),
    Mutant("state-literal-typo", HTTP, "        if self.state != \"FINISHED\":", "        if self.state != \"FINISH\":", expect_rule="states/closed"),
    Mutant("data-loss-not-reported", HTTP, "        if self.state != \"FINISHED\":\n            raise _DataLoss(", "        if self.state == \"CHUNK_LENGTH\":\n            raise _DataLoss(", expect_rule="dataloss/reported-unless-finished"),
    Mutant("finished-accepts-data", HTTP, "        raise RuntimeError(\n            \"_ChunkedTransferDecoder.dataReceived called after last \"\n            \"chunk was processed\"\n        )", "        return False", expect_rule="finished/refuses-data"),
    Mutant("fromChunk-crlf-unchecked", HTTP, "    if rest[length : length + 2] != b\"\\r\\n\":\n        raise ValueError(\"chunk must end with CRLF\")\n", "", expect_rule="reject/fromChunk"),
]
SILENT = [
    Silent('hexdigits-regex-fullmatch', ABNF, '    for c in b:\n        if c not in b"0123456789abcdefABCDEF":\n            return False\n    return b != b""\n', '    return _HEX_RE.fullmatch(b) is not None\n', more=[(ABNF, '"""\n\n\ndef _istoken', '"""\n\nimport re\n\n_HEX_RE = re.compile(rb"[0-9a-fA-F]+")\n\n\ndef _istoken')]),
    Silent('hexdigits-regex-Z-anchored', ABNF, '    for c in b:\n        if c not in b"0123456789abcdefABCDEF":\n            return False\n    return b != b""\n', '    return _HEX_RE.match(b) is not None\n', more=[(ABNF, '"""\n\n\ndef _istoken', '"""\n\nimport re\n\n_HEX_RE = re.compile(rb"[0-9a-fA-F]+\\Z")\n\n\ndef _istoken')]),
    Silent('hexdigits-translate-table', ABNF, '    for c in b:\n        if c not in b"0123456789abcdefABCDEF":\n            return False\n    return b != b""\n', '    return b != b"" and b.translate(None, b"0123456789abcdefABCDEF") == b""\n'),
    Silent("limit-test-negated", HTTP, "        if eolIndex >= maxChunkSizeLineLength or (", "        if not eolIndex < maxChunkSizeLineLength or ("),
    Silent("zero-length-falsy", HTTP, "        if length == 0:\n            self.state = \"TRAILER\"", "        if not length:\n            self.state = \"TRAILER\""),
    Silent("crlf-by-slice", HTTP, "        if not self._buffer.startswith(b\"\\r\\n\"):", "        if self._buffer[:2] != b\"\\r\\n\":"),
    Silent("search-restart-clamped", HTTP, "            self._start = len(self._buffer) - 1\n", "            self._start = max(0, len(self._buffer) - 1)\n"),
    Silent("chunk-by-bytes-slice", HTTP, "            chunk = memoryview(self._buffer)[: self.length].tobytes()", "            chunk = bytes(self._buffer[: self.length])"),
    Silent("rename-eol", HTTP, "        eolIndex = self._buffer.find(b\"\\r\\n\", self._start)\n\n        if eolIndex >= maxChunkSizeLineLength or (\n            eolIndex == -1 and len(self._buffer) > maxChunkSizeLineLength\n        ):",
           "        eol = eolIndex = self._buffer.find(b\"\\r\\n\", self._start)\n\n        if eol >= maxChunkSizeLineLength or (\n            eol < 0 and len(self._buffer) > maxChunkSizeLineLength\n        ):"),
    Silent("body-branches-inverted-clear-method", HTTP, "        if len(self._buffer) >= self.length:\n            chunk = memoryview(self._buffer)[: self.length].tobytes()\n            del self._buffer[: self.length]\n            self.state = \"CRLF\"\n            self.dataCallback(chunk)\n        else:\n            chunk = bytes(self._buffer)\n            self.length -= len(chunk)\n            del self._buffer[:]\n            self.dataCallback(chunk)\n        return True",
           "        if len(self._buffer) < self.length:\n            chunk = bytes(self._buffer)\n            self.length -= len(chunk)\n            self._buffer.clear()\n            self.dataCallback(chunk)\n            return True\n        chunk = bytes(self._buffer[: self.length])\n        del self._buffer[: self.length]\n        self.state = \"CRLF\"\n        self.dataCallback(chunk)\n        return True"),
    Silent("reject-message-repr", HTTP, "            raise _MalformedChunkedDataError(\"Chunk-size must be an integer.\")", "            raise _MalformedChunkedDataError(\"Chunk-size must be an integer, not %r.\" % (bytes(rawLength),))"),
    Silent("reject-message-decode-replace", HTTP, "            raise _MalformedChunkedDataError(\"Chunk-size must be an integer.\")",
           "            raise _MalformedChunkedDataError(\"Chunk-size must be an integer, not {}.\".format(rawLength.decode(\"ascii\", \"replace\")))"),
    Silent("extra-by-bytes-slice", HTTP, "        data = memoryview(self._buffer)[2:].tobytes()", "        data = bytes(self._buffer[2:])"),
    Silent("state-then-length-reordered", HTTP, "        self.length = length\n        del self._buffer[0 : eolIndex + 2]\n        self._start = 0\n        return True\n\n    def _dataReceived_CRLF",
           "        self._start = 0\n        del self._buffer[0 : eolIndex + 2]\n        self.length = length\n        return True\n\n    def _dataReceived_CRLF"),
]
