"""C22 - Chunked transfer coding round-trips and rejects malformed input."""
from __future__ import annotations

import ast

from sa.astx import assigned_targets, call_attr, call_name, dotted, src, statements, walk_local
from sa.domains import CTL, HEXDIG, TCHAR, fmt_set
from sa.selftest import Mutant, Silent
from sa.source import AnalysisError, class_assigns, methods
from sa.props._lib_e_struct import Abstain, structural
from sa.props._lib_e_machine import ClassV, Machine, Opaque, PyRaise, exc_name
from sa.props._lib_e import (Raised, Unknown, Unsupported, assigns_self, call_in, calls_named, catches, check_hex_validators, handlers_of, http_interp, is_const,
                             is_falsy_return, make_env, no_exc, only_nodes_until_exit, ordered, resolve_local, risky_calls, self_attr, walk)

PROPERTY = "C22"
HTTP = "web/http.py"
ABNF = "web/_abnf.py"
Q = "twisted.web.http."
QD = Q + "_ChunkedTransferDecoder."
PREFIX = "_dataReceived_"
BAD = "_MalformedChunkedDataError"

TECHNIQUE = 'state-table closure, provenance/exception-escape on inlined handlers, byte-exhaustive validators; bounded stream round trips'
EXPLANATION = (
    'Structural and finite-exhaustive rules run on a normalised view (private helpers inlined at their call sites, temporaries followed by partial evaluati'
    'on, guard clauses read through the CFG) and abstain with a note when a shape is not recognised; the bounded layer (source interpreted by an AST interp'
    'reter with model collaborators, compared with an oracle) covers every clause a second time and is the only evidence where stated. STRUCTURAL: every li'
    'teral assigned to state (also through conditional expressions) has a _dataReceived_<STATE> handler and vice versa, dispatch prefix, noMoreData raises '
    '_DataLoss for every state of the table except FINISHED (states/); the stored chunk length is the _hexint result and ValueError is converted (provenanc'
    'e/, escape/); every raise of the parsing states builds _MalformedChunkedDataError (helpers followed), reject paths contain no strict decode/int/index '
    'on untrusted bytes (escape/, reject/reject-path-cannot-raise-otherwise); FINISHED is set before the single finishCallback site, the extra bytes are ta'
    'ken before the buffer is cleared, FINISHED refuses data (mustpass/). FINITE-EXHAUSTIVE: _ishexdigits/_hexint over all 256 byte values in every positio'
    'n class plus pitfalls, toChunk/fromChunk agreement, every byte value alone in a chunk extension accepted / rejected per RFC 9112 7.1.1 (size/, bytes/,'
    ' roundtrip/toChunk-fromChunk, reject/fromChunk). BOUNDED ONLY: decoded bytes equal the original for every split of the generated streams, truncation r'
    'eports data loss, malformed streams rejected whole and split, size-line and trailer limits at L-1/L/L+1, CR/LF split across deliveries, state at the c'
    'all-outs (roundtrip/decoded-equals-original, dataloss/, reject/, size-line/, trailer/, split/, callout/) - the search-offset bookkeeping across delive'
    'ries is a multi-call invariant with no crisp per-statement form. Not decided: trailer field syntax.'
)
ASSUMPTIONS = [
    'CPython semantics for bytearray/bytes/memoryview',
    'dataCallback / finishCallback do not re-enter the decoder',
    "networkString(s) == s.encode('ascii')",
]
PARSING = ("CHUNK_LENGTH", "CRLF", "TRAILER", "BODY")


def _hit(vis, nodes):
    return any(n in vis for n in nodes)


def _literal_choices(v, cls=None):
    """String literals an expression can evaluate to: a literal, or conditional expressions / boolean selections of literals."""
    if isinstance(v, ast.Constant) and isinstance(v.value, str):
        return [v.value]
    if isinstance(v, ast.IfExp):
        a, b = _literal_choices(v.body, cls), _literal_choices(v.orelse, cls)
        return None if a is None or b is None else a + b
    if isinstance(v, ast.Subscript) and cls is not None and isinstance(v.value, ast.Attribute) and self_attr(v.value):
        tab = class_assigns(cls).get(v.value.attr)          # selection from a class-level table of state names
        if isinstance(tab, (ast.Tuple, ast.List, ast.Dict)):
            elems = list(tab.values) if isinstance(tab, ast.Dict) else list(tab.elts)
            if elems and all(isinstance(e, ast.Constant) and isinstance(e.value, str) for e in elems):
                return [e.value for e in elems]
    return None


def _state_table(ctx):
    cls = ctx.cls(HTTP, "_ChunkedTransferDecoder")
    ms = methods(cls)
    handlers = {n[len(PREFIX):] for n in ms if n.startswith(PREFIX)}
    assigned = {}
    for name, m in ms.items():
        for st in ast.walk(m):
            if isinstance(st, ast.Assign) and any(self_attr(t, "state") for t in assigned_targets(st)):
                vals = _literal_choices(st.value, cls)
                if vals is None:
                    raise AnalysisError(f"state assigned from a non-literal expression: {src(st)[:80]}")
                for v in vals:
                    assigned.setdefault(v, []).append((name, st))
    init = class_assigns(cls).get("state")
    ctx.check(isinstance(init, ast.Constant) and init.value == "CHUNK_LENGTH", "states/initial", QD + "state", "the decoder does not start in CHUNK_LENGTH")
    states = set(assigned) | ({init.value} if isinstance(init, ast.Constant) else set())
    for s in sorted(states):
        ctx.check(s in handlers, "states/closed", f"{QD}state = {s!r}", f"state {s!r} is assigned but there is no {PREFIX}{s} method: dataReceived raises AttributeError")
    for h in sorted(handlers):
        ctx.check(h in states, "states/closed", QD + PREFIX + h, f"handler {PREFIX}{h} exists but state {h!r} is never entered")
    ctx.floor("states/closed", len(states), 5)
    f = ctx.func(HTTP, "_ChunkedTransferDecoder.dataReceived")
    disp = [c for c in ast.walk(f) if isinstance(c, ast.Call) and call_name(c) == "getattr" and len(c.args) >= 2 and isinstance(c.args[1], ast.BinOp)]
    for c in disp:
        ctx.check(is_const(c.args[1].left, PREFIX) and src(c.args[1].right) == "self.state", "states/dispatch", QD + "dataReceived",
                  "dispatch is not getattr(self, '_dataReceived_' + self.state)")
    f = ctx.func(HTTP, "_ChunkedTransferDecoder.noMoreData")
    from sa.props._lib_e import resolve_local as _rl
    lits = []
    for n in ast.walk(f):
        if isinstance(n, ast.Compare) and any(src(v) == "self.state" for side in [n.left] + list(n.comparators) for v in _rl(f, side)):
            lits += [c.value for c in ast.walk(n) if isinstance(c, ast.Constant) and isinstance(c.value, str)]
    if lits:
        ctx.check(all(l in states for l in lits), "states/closed", QD + "noMoreData", f"noMoreData compares the state with {lits!r}, which is never entered")
    else:
        ctx.note("states/closed (noMoreData): no comparison of the state with a literal recognised, clause left to states/dataloss-unless-finished and dataloss/truncated-stream")
    return states


def _pure(ctx, I):
    with ctx.section("hex validators"):
        check_hex_validators(ctx, I, "size")
    ft, ff = ctx.func(HTTP, "toChunk"), ctx.func(HTTP, "fromChunk")
    bad = None
    for d in (b"a", b"hello world", b"x" * 15, b"x" * 16, b"x" * 255, b"x" * 256, b"\r\n", b"5\r\nab", bytes(range(256))):
        for extra in (b"", b"0\r\n\r\n", b"GET / HTTP/1.1\r\n"):
            k1, chunk = I.outcome(ft, [d])
            wire = b"".join(chunk) if k1 == "ok" else b""
            k2, out = I.outcome(ff, [wire + extra]) if k1 == "ok" else ("-", None)
            if not (k1 == "ok" and k2 == "ok" and tuple(out) == (d, extra)) and bad is None:
                bad = (d[:16], extra, k1, k2, out)
    ctx.check(bad is None, "roundtrip/toChunk-fromChunk", Q + "toChunk",
              f"fromChunk(toChunk({bad[0]!r}..) + {bad[1]!r}) gives {bad[2]}/{bad[3]} {bad[4]!r} instead of (data, rest)" if bad else "",
              detail="writer and reader agree on size text, CRLFs and the remainder")
    bad = None
    for wire in (b"3\r\nabcXX", b"3\r\nabc", b"3\r\nab\r\n", b"g\r\nabc\r\n", b"+3\r\nabc\r\n", b"0x3\r\nabc\r\n", b" 3\r\nabc\r\n", b"3 \r\nabc\r\n", b"\r\nabc\r\n", b"3abc", b"3\rabc\r\n", b"3\nabc\r\n"):
        k, out = I.outcome(ff, [wire])
        if not (k == "raise" and I.is_sub(out, "ValueError")) and bad is None:
            bad = (wire, k, out)
    ctx.check(bad is None, "reject/fromChunk", Q + "fromChunk", f"fromChunk({bad[0]!r}) gives {bad[1]} {bad[2]!r}; malformed chunks must raise ValueError" if bad else "")


# ---- behaviour of the decoder, by interpretation ------------------------------------------------------------------

def _encode(chunks, exts=None, upper=False, pad=0, last_ext=b"", trailers=()):
    """Reference encoder (RFC 9112 7.1), written out here: the oracle for the round trip."""
    out = b""
    for i, c in enumerate(chunks):
        size = (b"%X" if upper else b"%x") % len(c)
        out += b"0" * pad + size + (exts[i] if exts else b"") + b"\r\n" + c + b"\r\n"
    out += b"0" + last_ext + b"\r\n" + b"".join(t + b"\r\n" for t in trailers) + b"\r\n"
    return out


class _Decoder:
    def __init__(self, ctx):
        self.m = Machine(ctx.tree, budget=120000)
        self.mod = self.m.module(HTTP)
        ctx.tree.module(HTTP)
        self.cls = self.m.global_lookup(self.mod, "_ChunkedTransferDecoder")
        if not isinstance(self.cls, ClassV):
            raise AnalysisError("anchor vanished: class _ChunkedTransferDecoder")

    def drive(self, pieces, then_no_more=True, attrs=None, after_reject=()):
        """Deliver the pieces; returns dict(data=[...], finish=[...], exc=name|None, at=index, states=[snapshots at callbacks],
        nomore=name|None|'-', final=attrs)."""
        res = {}

        def thunk(m):
            d = m.instantiate(self.cls, [Opaque("dataCallback"), Opaque("finishCallback")], {})
            m.root = d
            for k, v in (attrs or {}).items():
                d.attrs[k] = v
            r = {"exc": None, "at": None, "nomore": "-"}
            for i, piece in enumerate(pieces):
                try:
                    m.call(m.get_attr(d, "dataReceived"), [piece])
                except PyRaise as e:
                    r["exc"], r["at"] = exc_name(e.exc), i
                    break
            r["later"] = []
            if r["exc"] is not None and after_reject:
                n0 = len([e for e in m.events if e.kind == "call" and e.name in ("dataCallback", "finishCallback")])
                for piece in after_reject:          # the peer keeps sending after the rejection
                    try:
                        m.call(m.get_attr(d, "dataReceived"), [piece])
                        r["later"].append(None)
                    except PyRaise as e:
                        r["later"].append(exc_name(e.exc))
                r["late_calls"] = len([e for e in m.events if e.kind == "call" and e.name in ("dataCallback", "finishCallback")]) - n0
                r["late_state"] = d.attrs.get("state")
            if then_no_more and r["exc"] is None:
                try:
                    m.call(m.get_attr(d, "noMoreData"), [])
                    r["nomore"] = None
                except PyRaise as e:
                    r["nomore"] = exc_name(e.exc)
            r["final"] = dict(d.attrs)
            return r
        outs = self.m.explore(thunk, max_paths=4, hang_is_outcome=True)
        if len(outs) != 1:
            raise AnalysisError(f"decoder behaviour for {pieces[0][:20]!r}... depends on a value the interpreter does not know")
        o = outs[0]
        res = o.value if o.kind == "ok" else {"exc": "<no termination within the step budget>", "at": None, "nomore": "-", "final": {}}
        ev = [e for e in o.events if e.kind == "call" and e.name in ("dataCallback", "finishCallback")]
        res["data"] = [bytes(e.args[0]) if e.args and isinstance(e.args[0], (bytes, bytearray)) else None for e in ev if e.name == "dataCallback"]
        res["finish"] = [bytes(e.args[0]) if e.args and isinstance(e.args[0], (bytes, bytearray)) else None for e in ev if e.name == "finishCallback"]
        res["snaps"] = [(e.name, e.state) for e in ev]
        return res


def _fmt(x):
    return repr(x if len(x) < 48 else x[:24] + b"..." + x[-14:]) + (f" (len {len(x)})" if len(x) >= 48 else "")


def _splits(stream, end):
    """Delivery schedules: whole, every two-way split before the end of the terminator, byte by byte (short streams)."""
    out = [("whole", [stream])]
    pos = range(1, end) if end <= 70 else sorted(set(list(range(1, 12)) + list(range(end - 12, end)) + list(range(12, end - 12, max(1, end // 23)))))
    out += [(f"split@{i}", [stream[:i], stream[i:]]) for i in pos]
    if end <= 40:
        out.append(("bytewise", [stream[i:i + 1] for i in range(end - 1)] + [stream[end - 1:]]))
    return out


def _roundtrip(ctx, D):
    q = QD + "dataReceived"
    bodies = [
        ("one chunk", [b"hello"], {}), ("two chunks", [b"hello", b" world!"], {}), ("empty body", [], {}),
        ("binary / CRLF inside data", [b"\r\n0\r\n\r\n", b"\x00\xff;\r"], {}),
        ("extensions", [b"abc", b"de"], {"exts": [b";name=val", b';q="a b";flag'], "last_ext": b";last"}),
        ("upper-case hex, 26 bytes", [b"abcdefghijklmnopqrstuvwxyz"], {"upper": True}),
        ("leading zeros", [b"xy"], {"pad": 3}),
        ("trailers", [b"data"], {"trailers": [b"X-Trailer: 1", b"Y: two"]}),
        ("16-byte chunk", [b"0123456789abcdef"], {}), ("one-byte chunks", [b"a", b"b", b"c"], {}),
    ]
    for name, chunks, kw in bodies:
        for extra in (b"", b"GET /next HTTP/1.1\r\n\r\n"):
            stream = _encode(chunks, **kw)
            end = len(stream)
            body = b"".join(chunks)
            bad = None
            for how, pieces in _splits(stream + extra, end):
                r = D.drive(pieces)
                ok = r["exc"] is None and b"".join(x or b"?" for x in r["data"]) == body and all(x for x in r["data"]) and r["finish"] == [extra] and r["nomore"] is None
                ok = ok and all(st is not None and st.get("state") == "FINISHED" for nm, st in r["snaps"] if nm == "finishCallback")
                if not ok:
                    bad = (how, pieces, r)
                    break
            ctx.check(bad is None, "roundtrip/decoded-equals-original", f"{q} | {name}, extra {len(extra)} bytes",
                      (f"stream {_fmt(stream + extra)} delivered {bad[0]} {[bytes(p)[:12] for p in bad[1]][:3]}: dataCallback {bad[2]['data']!r}, finishCallback {bad[2]['finish']!r}, "
                       f"exception {bad[2]['exc']}, noMoreData {bad[2]['nomore']}; expected body {body!r}, finishCallback([{extra!r}]) once in state FINISHED, no exception") if bad else "",
                      detail="whole, every two-way split and byte-by-byte delivery give the original body, one finishCallback with exactly the extra bytes")
            # truncated: every proper prefix neither finishes nor raises, and noMoreData reports the loss
            bad = None
            for cut in ([i for i in range(1, end)] if end <= 60 else list(range(1, end, 5))):
                r = D.drive([stream[:cut]])
                if not (r["exc"] is None and r["finish"] == [] and r["nomore"] == "_DataLoss" and body.startswith(b"".join(x or b"?" for x in r["data"]))):
                    bad = (cut, r)
                    break
            if not extra:
                ctx.check(bad is None, "dataloss/truncated-stream", f"{q} | {name}",
                          (f"stream cut after {bad[0]} bytes {_fmt(stream[:bad[0]])}: dataCallback {bad[1]['data']!r}, finishCallback {bad[1]['finish']!r}, exception {bad[1]['exc']}, "
                           f"noMoreData -> {bad[1]['nomore']}; expected no completion, no exception, and _DataLoss from noMoreData") if bad else "",
                          detail="every proper prefix: body prefix delivered, no completion, noMoreData raises _DataLoss")
    # state at the call-outs
    r = D.drive([b"5\r\nhelloX"], then_no_more=False)
    st = r["snaps"][0][1] if r["snaps"] else {}
    ctx.check(r["data"] == [b"hello"] and st.get("state") == "CRLF" and bytes(st.get("_buffer", b"?")) == b"X", "callout/state-updated-first", f"{q} | complete chunk",
              f"when dataCallback({r['data']!r}) runs the decoder is in state {st.get('state')!r} with buffer {bytes(st.get('_buffer', b''))!r}: it must already be in CRLF with only the unconsumed bytes buffered")
    r = D.drive([b"5\r\nhel"], then_no_more=False)
    st = r["snaps"][0][1] if r["snaps"] else {}
    ctx.check(r["data"] == [b"hel"] and st.get("state") == "BODY" and st.get("length") == 2 and bytes(st.get("_buffer", b"?")) == b"", "callout/state-updated-first", f"{q} | partial chunk",
              f"when dataCallback({r['data']!r}) runs for a partial chunk the decoder has state {st.get('state')!r}, length {st.get('length')!r}, buffer {bytes(st.get('_buffer', b''))!r}: expected BODY, 2, empty")
    r = D.drive([_encode([b"ab"])], then_no_more=False)
    r2 = D.drive([_encode([b"ab"]), b"more"], then_no_more=False)
    ctx.check(r["exc"] is None and r2["exc"] is not None and r2["finish"] == [b""], "finished/refuses-data", q + " | data after completion",
              f"data delivered after the terminating chunk gives exception {r2['exc']} and finishCallback {r2['finish']!r}; it must be refused and completion signalled once")


def _rejects(ctx, D, limit, maxtrailer):
    q = QD + "dataReceived"
    L = limit
    fam = {"reject/size-not-hex": [], "bytes/extension-rejected": [], "reject/chunk-not-followed-by-crlf": [], "size-line/limit": [], "trailer/limit": []}
    sizes = [b"g", b"", b"0x5", b"+5", b"-5", b" 5", b"5 ", b"1_0", b"5\t", b"\t5", b"5\r", b"5\n", b"\n5", b"5.0", b"0g", b"\x00", b"5\x00", b"\xb2",
             b"\x80", b"5\xff", b"\xe95", b"5\xc3\xa95", b"ff\x80"]
    for sz in sizes:
        fam["reject/size-not-hex"] += [sz + b"\r\nhello\r\n0\r\n\r\n", sz + b";ext=1\r\nhello\r\n0\r\n\r\n", b"2\r\nab\r\n" + sz + b"\r\nhello\r\n0\r\n\r\n"]
    for v in sorted((CTL - {9, 10}) | {127}):
        fam["bytes/extension-rejected"].append(b"1;a" + bytes([v]) + b"b\r\nX\r\n0\r\n\r\n")
    bad = None
    for v in sorted(TCHAR | set(b';="\t ') | set(range(0x80, 0x100))):
        stream = b"1;a" + bytes([v]) + b"b\r\nX\r\n0\r\n\r\n"
        r = D.drive([stream])
        if not (r["exc"] is None and r["data"] == [b"X"] and r["finish"] == [b""]) and bad is None:
            bad = (v, r)
    badt = None
    for v in [9, 32] + list(range(0x21, 0x7F)) + list(range(0x80, 0x100)):
        stream = _encode([b"ab"], trailers=[b"X-Trailer: a" + bytes([v]) + b"b"])
        r = D.drive([stream])
        if not (r["exc"] is None and r["data"] == [b"ab"] and r["finish"] == [b""]) and badt is None:
            badt = (v, r)
    ctx.check(badt is None, "bytes/trailer-value-accepted", q + " | every field-value byte (HTAB, SP, VCHAR, obs-text) in a trailer field",
              f"a trailer field whose value contains byte 0x{badt[0]:02x} is not accepted: exception {badt[1]['exc']}, body {badt[1]['data']!r}, completion {badt[1]['finish']!r} "
              "(RFC 9110 5.5: field values may contain any VCHAR, SP, HTAB and obs-text; a body with such trailers must round-trip)" if badt else "",
              detail="each of the 225 bytes RFC 9110 5.5 allows in a field value, alone in a trailer value")
    ctx.check(bad is None, "bytes/extension-accepted", q + " | every tchar, ';', '=', DQUOTE, SP, HTAB and obs-text byte in an extension",
              f"extension byte 0x{bad[0]:02x} is not accepted: exception {bad[1]['exc']}" if bad else "",
              detail="each of the bytes RFC 9112 7.1.1 allows in a chunk extension, alone in an extension (the decoder inspects extensions byte-wise)")
    fam["bytes/extension-rejected"] += [b"1;a\nb\r\nX\r\n0\r\n\r\n", b"0;a\x00\r\n\r\n", b"1;\x7f\r\nX\r\n0\r\n\r\n"]
    fam["reject/chunk-not-followed-by-crlf"] = [b"5\r\nhelloXX0\r\n\r\n", b"5\r\nhello\rX", b"5\r\nhello\n\r", b"5\r\nhello\n\n0\r\n\r\n", b"5\r\nhello0\r\n\r\n",
                                                 b"5\r\nhello\r\r\n", b"1\r\na\r\n1\r\nbb\r\n0\r\n\r\n"]
    fam["size-line/limit"] = [b"1" * L + b"\r\nX", b"1;" + b"e" * (L + 5) + b"\r\nX", b"1" * (L + 1), b"\x80" * (L + 1), b"1" * (L - 2) + b"\xff1\r\nX"]
    nlines = maxtrailer // 1007 + 1
    fam["trailer/limit"] = [b"0\r\n" + (b"X-T: " + b"v" * 1000 + b"\r\n") * nlines,b"0\r\n" + b"a" * (maxtrailer + 10), b"0\r\n" + b"a" * (maxtrailer + 10) + b"\r\n\r\n",
                            b"0\r\n" + (b"X: " + b"v" * 1000 + b"\r\n") * (maxtrailer // 1000 + 2) + b"\r\n"]
    for rule, streams in fam.items():
        for stream in streams:
            bad = None
            mid = len(stream) // 2
            for how, pieces in (("whole", [stream]), ("split", [stream[:mid], stream[mid:]]), ("split@1", [stream[:1], stream[1:]]), ("split@-1", [stream[:-1], stream[-1:]])):
                if len(stream) > 5000 and how != "whole":
                    continue
                r = D.drive(pieces, then_no_more=False)
                if not (r["exc"] == BAD and r["finish"] == []):
                    bad = (how, r)
                    break
            ctx.check(bad is None, rule, f"{q} | stream {_fmt(stream)}",
                      (f"malformed stream {_fmt(stream)} delivered {bad[0]}: exception {bad[1]['exc']}, dataCallback {bad[1]['data']!r}, finishCallback {bad[1]['finish']!r}; "
                       "it must be rejected with _MalformedChunkedDataError (the only exception HTTPChannel converts to a 400) and never complete") if bad else "")
    # a rejection is absorbing: whatever is delivered afterwards (the peer / a TLS transport keeps sending after the 400) is rejected again and
    # never reaches the callbacks - otherwise the rejected request is completed by a later terminator and handed to the application
    tails = [b"\r\n", b"0\r\n\r\n", b"1\r\na\r\n0\r\n\r\n", b"\r\n0\r\n\r\n"]
    for rule, streams in fam.items():
        bad = None
        for stream in streams:
            if len(stream) > 5000 and rule != "trailer/limit":
                continue
            for tail in ([tails[0], tails[1]], [tails[1]], [tails[2]], [tails[3]], [b"\r", b"\n", b"0\r\n\r\n"]):
                r = D.drive([stream], then_no_more=False, after_reject=tail)
                if r["exc"] != BAD:
                    continue          # reported by the rejection rule itself
                if r.get("late_calls") or r.get("late_state") == "FINISHED" or any(x != BAD for x in r["later"]):
                    bad = (stream, tail, r)
                    break
            if bad:
                break
        label = "trailer size limit" if rule == "trailer/limit" else rule.split("/")[1]
        ctx.check(bad is None, "absorbing/rejected-stays-rejected", f"{q} | after a rejection for {label}",
                  (f"stream {_fmt(bad[0])} is rejected, but the deliveries {bad[1]!r} that follow give {bad[2]['later']!r} with {bad[2].get('late_calls')} callback(s) and final state "
                   f"{bad[2].get('late_state')!r}: the decoder consumed the offending input before rejecting it, so a later terminator completes the rejected body (the request is handed "
                   "to the application after its 400)") if bad else "",
                  detail="every later delivery raises _MalformedChunkedDataError again, no callback, never FINISHED")
    # accepted at the limits, and waiting (not rejecting) while a line may still become valid
    ok_streams = [("size-line/limit", b"0" * (L - 2) + b"1\r\nX\r\n0\r\n\r\n", b"X"), ("size-line/limit", b"1;" + b"e" * (L - 3) + b"\r\nX\r\n0\r\n\r\n", b"X"),
                  ("trailer/limit", b"0\r\n" + (b"X: " + b"v" * 1000 + b"\r\n") * (maxtrailer // 1000 - 2) + b"\r\n", b"")]
    for rule, stream, body in ok_streams:
        r = D.drive([stream])
        ctx.check(r["exc"] is None and b"".join(x or b"?" for x in r["data"]) == body and r["finish"] == [b""], rule, f"{q} | stream {_fmt(stream)}",
                  f"stream {_fmt(stream)} within the documented limits gives exception {r['exc']}, body {r['data']!r}, completion {r['finish']!r}; expected body {body!r} and completion")
    for rule, stream in (("size-line/limit-unterminated", b"1" * L), ("size-line/limit-unterminated", b"1" * (L - 1) + b"\r"), ("split/crlf-wait", b"5\r\nhello\r"),
                         ("split/trailer-wait", b"0\r\nX: y\r"), ("split/trailer-wait", b"0\r\n\r"), ("size-line/wait-for-crlf", b"5;ext")):
        r = D.drive([stream], then_no_more=False)
        ctx.check(r["exc"] is None and r["finish"] == [], rule, f"{q} | stream {_fmt(stream)}",
                  f"incomplete but still valid input {_fmt(stream)} gives exception {r['exc']} / completion {r['finish']!r}: a stream split here would be rejected")


def _structural(ctx):
    for name in PARSING:
        f = ctx.func(HTTP, "_ChunkedTransferDecoder." + PREFIX + name)
        regions = [(r, r.exc) for r in ast.walk(f) if isinstance(r, ast.Raise) and r.exc is not None]
        regions += [(st, st) for h in ast.walk(f) if isinstance(h, ast.ExceptHandler) for st in h.body if not isinstance(st, ast.Raise)]
        for st, region in regions:
            bad = risky_calls(region)
            ctx.check(not bad, "reject/reject-path-cannot-raise-otherwise", ctx.construct(QD + PREFIX + name, st),
                      (f"on the reject path {src(bad[0])} can raise (UnicodeDecodeError / ValueError) for untrusted bytes before _MalformedChunkedDataError is raised: "
                       "the exception leaves dataReceived uncaught (no 400, no disconnect)") if bad else "")
        ints = [c for c in ast.walk(f) if isinstance(c, ast.Call) and isinstance(c.func, ast.Name) and c.func.id == "int" and len(c.args) == 2]
        ctx.check(not ints, "size/decoded-by-hexint", QD + PREFIX + name, "a chunk size is decoded with int(x, 16), which accepts '0x', '+', '_' and surrounding whitespace") if name == "CHUNK_LENGTH" else None


def _c22_structural(s, I):
    """provenance / must-pass / exception-escape on the inlined state handlers; finite-exhaustive over the state table for noMoreData."""
    from sa.props._lib_e import assigns_self as asg, calls_named as cn, catches as ca, handlers_of as ho, ordered as ordd, only_nodes_until_exit as onue, resolve_local as rl, walk as wk, make_env as me
    cls = s.cls(HTTP, "_ChunkedTransferDecoder")
    mod = s.mod(HTTP)
    ms = methods(cls)
    handlers = {n: s.func(HTTP, "_ChunkedTransferDecoder." + n) for n in ms if n.startswith(PREFIX)}
    s.need(len(handlers) >= 5, "state handlers")

    def builds_bad(f, e, depth=2) -> bool:
        if isinstance(e, ast.Call):
            nm = call_name(e) or ""
            if nm == BAD:
                return True
            helper = ms.get(nm.split(".")[-1]) if nm.startswith("self.") else (mod.find(nm) if nm and "." not in nm else None)
            if isinstance(helper, ast.FunctionDef) and depth > 0:
                rets = [r for r in ast.walk(helper) if isinstance(r, ast.Return)]
                return bool(rets) and all(r.value is not None and builds_bad(helper, r.value, depth - 1) for r in rets)
        if isinstance(e, ast.Name) and e.id == BAD:
            return True
        return False
    fin_sites = 0
    for n, f in handlers.items():
        g = s.cfg(f)
        state = n[len(PREFIX):]
        if state in PARSING:
            for r in [x for x in ast.walk(f) if isinstance(x, ast.Raise) and x.exc is not None]:
                e = r.exc
                if builds_bad(f, e):
                    s.ok("escape/raises-malformed", s.construct(QD + n, r), "raises _MalformedChunkedDataError")
                elif isinstance(e, ast.Call) and isinstance(e.func, ast.Name) and e.func.id[:1].isupper():
                    s.violation("escape/raises-malformed", s.construct(QD + n, r), f"malformed input raises {e.func.id} instead of _MalformedChunkedDataError (HTTPChannel only converts that one to a 400)")
                else:
                    raise Abstain("raise of an unrecognised form: " + src(r)[:60])
        # absorbing rejection: nothing is consumed (buffer deletion, state change) on a path that goes on to reject
        if state in PARSING:
            consuming = [c for c in g.ids(lambda x: x.kind == "stmt") if (isinstance(g.node(c).ast, ast.Delete) and "self._buffer" in src(g.node(c).ast)) or
                         call_in(g.node(c).ast, "self._buffer.clear", "self._buffer.pop") or
                         (isinstance(g.node(c).ast, ast.Assign) and any(self_attr(t, "state") for t in assigned_targets(g.node(c).ast)))]
            for r in g.ids(lambda x: x.kind == "stmt" and isinstance(x.ast, ast.Raise) and x.ast.exc is not None):
                if not builds_bad(f, g.node(r).ast.exc):
                    continue
                w = g.path(consuming, [r], edge_ok=no_exc, strict=True) if consuming else None
                if w is None:
                    s.ok("absorbing/no-consumption-before-reject", f"{QD}{n} | {src(g.node(r).ast)[:70]}", "nothing consumed on the way to this rejection")
                    continue
                s.check(w is None, "absorbing/no-consumption-before-reject", f"{QD}{n} | a rejection that follows consumption of input",
                        "the handler removes input from the buffer / changes state and then rejects: the offending bytes are gone, the next delivery resumes decoding and a later "
                        "terminator completes the rejected body (request handed to the application after its 400)", witness=g.describe(w))
        # the size is decoded by _hexint only, inside a ValueError -> _MalformedChunkedDataError conversion, and it is what is stored
        hx = cn(g, "_hexint")
        for h in hx:
            hs = [x for x in ho(g, h) if ca(I, g.node(x).ast, "ValueError")]
            wit = None
            for x in hs:
                wit = wit or onue(g, [x], lambda nd: nd.kind == "handler" or (nd.kind == "stmt" and isinstance(nd.ast, ast.Raise) and builds_bad(f, nd.ast.exc)))
            s.need(hs, "anchor: hs") and s.check(wit is None, "escape/size-error-converted", s.construct(QD + n, g.node(h).ast),
                    "a non-hexadecimal size does not become _MalformedChunkedDataError (ValueError escapes dataReceived: no 400)", witness=g.describe(wit))
        if hx:
            for a in asg(g, "length"):
                v = g.node(a).ast.value
                vals = rl(f, v)
                s.check(all(isinstance(x, ast.Call) and call_name(x) == "_hexint" for x in vals), "provenance/size-from-hexint", s.construct(QD + n, g.node(a).ast),
                        "the chunk length stored is not the value decoded by _hexint (int(x, 16) accepts '0x', sign, '_', whitespace)")
        # completion: FINISHED is set before the only finishCallback site; the extra bytes are taken before the buffer is cleared
        fc = cn(g, "self.finishCallback")
        fin_sites += len(fc)
        for c in fc:
            fs = asg(g, "state", lambda v: isinstance(v, ast.Constant) and v.value == "FINISHED")
            w = ordd(g, fs, [c])
            s.need(fs, "anchor: fs") and s.check(w is None, "mustpass/finished-before-callback", s.construct(QD + n, g.node(c).ast),
                    "finishCallback can run before the decoder is FINISHED (noMoreData called beneath it would report data loss)", witness=g.describe(w))
            call = call_in(g.node(c).ast, "self.finishCallback")
            a0 = call.args[0] if call.args else None
            if isinstance(a0, ast.Name):
                defs = [d for d in g.ids(lambda m: m.kind == "stmt" and isinstance(m.ast, ast.Assign) and any(isinstance(t, ast.Name) and t.id == a0.id for t in m.ast.targets))]
                clears = [d for d in g.ids(lambda m: m.kind == "stmt" and isinstance(m.ast, ast.Delete) and "_buffer" in src(m.ast)) if g.dominates(d, c)]
                for cl in clears:
                    w = ordd(g, defs, [cl])
                    s.need(defs, "anchor: defs") and s.check(w is None, "mustpass/extra-taken-before-clear", s.construct(QD + n, g.node(cl).ast),
                            "the buffer is cleared before the bytes following the terminator are taken: the next pipelined request is lost", witness=g.describe(w))
        if state == "FINISHED":
            s.check(g.path([g.entry], [g.exit], edge_ok=no_exc) is None, "mustpass/finished-refuses-data", QD + n, "data delivered after the last chunk is accepted")
    s.check(fin_sites == 1, "mustpass/single-completion-site", QD + "finishCallback", f"finishCallback is invoked from {fin_sites} sites (completion must be signalled exactly once)")
    f = s.func(HTTP, "_ChunkedTransferDecoder.noMoreData")
    g = s.cfg(f)
    raises = g.ids(lambda n: n.kind == "stmt" and isinstance(n.ast, ast.Raise))
    s.need(raises, "raise in noMoreData")
    states = sorted({h[len(PREFIX):] for h in handlers})
    for st in states:
        und = []
        vis = wk(g, I, me({"self.state": st}), undecided=und)
        want = st != "FINISHED"
        s.vcheck(any(r in vis for r in raises) == want and (g.exit in vis) == (not want), und, "states/dataloss-unless-finished", f"{QD}noMoreData | state {st}",
                 "the end of the stream before the last chunk is not reported" if want else "a completely decoded body is reported as data loss")
    for r in raises:
        s.check("_DataLoss" in src(g.node(r).ast), "states/dataloss-unless-finished", s.construct(QD + "noMoreData", g.node(r).ast), "noMoreData raises something other than _DataLoss")


RULE_KINDS = {
    "states/": "structural",                 # state-table closure (every assigned literal has a handler and vice versa); noMoreData over every state of the table
    "absorbing/no-consumption-before-reject": "structural", "absorbing/rejected-stays-rejected": "bounded",
    "escape/": "structural", "provenance/": "structural", "mustpass/": "structural", "reject/reject-path-cannot-raise-otherwise": "structural", "size/decoded-by-hexint": "structural",
    "size/hexdigits-exact": "finite-exhaustive", "size/hexint": "finite-exhaustive", "bytes/": "finite-exhaustive", "roundtrip/toChunk-fromChunk": "finite-exhaustive", "reject/fromChunk": "finite-exhaustive",
    "size-line/limit": "bounded", "size-line/": "bounded", "roundtrip/decoded-equals-original": "bounded", "dataloss/": "bounded", "callout/": "bounded", "finished/": "bounded",
    "reject/": "bounded", "trailer/": "bounded", "split/": "bounded",
}


def check(ctx):
    I = http_interp(ctx)
    with ctx.section("state table"):
        _state_table(ctx)
    with ctx.section("pure functions"):
        _pure(ctx, I)
    limit = I.consts.get("maxChunkSizeLineLength")
    ctx.check(isinstance(limit, int) and limit >= 16, "size-line/limit", Q + "maxChunkSizeLineLength", f"maxChunkSizeLineLength is {limit!r}")
    L = limit if isinstance(limit, int) and limit >= 16 else 1024
    structural(ctx, "C22 decoder provenance / exception escape / completion", lambda s: _c22_structural(s, I), "roundtrip/*, reject/*, dataloss/* (bounded)")
    with ctx.section("decoder behaviour"):
        D = _Decoder(ctx)
        probe = D.drive([b"0\r\n\r\n"], then_no_more=False)
        M = probe["final"].get("_maxTrailerHeadersSize")
        ctx.need(isinstance(M, int) and M >= 4096, "_maxTrailerHeadersSize set by _ChunkedTransferDecoder.__init__")
        _roundtrip(ctx, D)
        _rejects(ctx, D, L, M)
    with ctx.section("reject paths"):
        _structural(ctx)


MUTANTS = [
    Mutant("state-table-entry-without-a-handler", HTTP, '        if length == 0:\n            self.state = "TRAILER"\n        else:\n            self.state = "BODY"\n',
           '        self.state = self._afterSizeLine[length == 0]\n', more=[(HTTP, '    state = "CHUNK_LENGTH"\n\n    def __init__(\n        self,\n        dataCallback: Callable[[bytes], None],', '    state = "CHUNK_LENGTH"\n    _afterSizeLine = ("BODY", "TRAILERS")\n\n    def __init__(\n        self,\n        dataCallback: Callable[[bytes], None],')]),
    Mutant("trailer-lines-restricted-to-token-bytes", HTTP, "            self._trailerHeaders.append(self._buffer[0:eolIndex])\n", "            if bytes(self._buffer[0:eolIndex]).translate(None, _chunkExtChars + b\":\") != b\"\":\n                raise _MalformedChunkedDataError(\"Bad trailer.\")\n            self._trailerHeaders.append(self._buffer[0:eolIndex])\n"),
    Mutant("F22t-revert-trailer-line-consumed-before-the-limit-test", HTTP, '            receivedSize = self._receivedTrailerHeadersSize + eolIndex + 2\n            if receivedSize > self._maxTrailerHeadersSize:\n                raise _MalformedChunkedDataError("Trailer headers data is too long.")\n            self._trailerHeaders.append(self._buffer[0:eolIndex])\n            del self._buffer[0 : eolIndex + 2]\n            self._start = 0\n            self._receivedTrailerHeadersSize = receivedSize\n',
           '            self._trailerHeaders.append(self._buffer[0:eolIndex])\n            del self._buffer[0 : eolIndex + 2]\n            self._start = 0\n            self._receivedTrailerHeadersSize += eolIndex + 2\n            if self._receivedTrailerHeadersSize > self._maxTrailerHeadersSize:\n                raise _MalformedChunkedDataError("Trailer headers data is too long.")\n', expect_rule="absorbing/no-consumption-before-reject"),
    Mutant("F22t-revert-seen-by-the-bounded-layer", HTTP, '            receivedSize = self._receivedTrailerHeadersSize + eolIndex + 2\n            if receivedSize > self._maxTrailerHeadersSize:\n                raise _MalformedChunkedDataError("Trailer headers data is too long.")\n            self._trailerHeaders.append(self._buffer[0:eolIndex])\n            del self._buffer[0 : eolIndex + 2]\n            self._start = 0\n            self._receivedTrailerHeadersSize = receivedSize\n',
           '            self._trailerHeaders.append(self._buffer[0:eolIndex])\n            del self._buffer[0 : eolIndex + 2]\n            self._start = 0\n            self._receivedTrailerHeadersSize += eolIndex + 2\n            if self._receivedTrailerHeadersSize > self._maxTrailerHeadersSize:\n                raise _MalformedChunkedDataError("Trailer headers data is too long.")\n', expect_rule="absorbing/rejected-stays-rejected"),
    Mutant("chunk-end-bytes-consumed-before-they-are-checked", HTTP, '        if not self._buffer.startswith(b"\\r\\n"):\n            raise _MalformedChunkedDataError("Chunk did not end with CRLF")\n\n        self.state = "CHUNK_LENGTH"\n        del self._buffer[0:2]\n        return True\n',
           '        ending = bytes(self._buffer[0:2])\n        del self._buffer[0:2]\n        if ending != b"\\r\\n":\n            raise _MalformedChunkedDataError("Chunk did not end with CRLF")\n\n        self.state = "CHUNK_LENGTH"\n        return True\n'),
    Mutant("extension-dropped-from-the-buffer-before-it-is-checked", HTTP, '        ext = self._buffer[endOfLengthIndex + 1 : eolIndex]\n        if ext and ext.translate(None, _chunkExtChars) != b"":\n            raise _MalformedChunkedDataError(\n                f"Invalid characters in chunk extensions: {ext!r}."\n            )\n',
           '        ext = bytes(self._buffer[endOfLengthIndex + 1 : eolIndex])\n        del self._buffer[0 : eolIndex + 2]\n        self._buffer[0:0] = b"%x\\r\\n" % length\n        if ext and ext.translate(None, _chunkExtChars) != b"":\n            raise _MalformedChunkedDataError(\n                f"Invalid characters in chunk extensions: {ext!r}."\n            )\n        eolIndex = self._buffer.find(b"\\r\\n")\n'),
    Mutant('hexdigits-regex-dollar-accepts-trailing-newline', ABNF, '    for c in b:\n        if c not in b"0123456789abcdefABCDEF":\n            return False\n    return b != b""\n', '    return _HEX_RE.match(b) is not None\n', more=[(ABNF, '"""\n\n\ndef _istoken', '"""\n\nimport re\n\n_HEX_RE = re.compile(rb"[0-9a-fA-F]+$")\n\n\ndef _istoken')]),
    Mutant("hexdigits-accept-plus-space", ABNF, "        if c not in b\"0123456789abcdefABCDEF\":", "        if c not in b\"0123456789abcdefABCDEF +\":"),
    Mutant("size-by-int-base16", HTTP, "            length = _hexint(rawLength)\n        except ValueError:", "            length = int(rawLength, 16)\n        except ValueError:"),
    Mutant("size-error-not-converted", HTTP, "            length = _hexint(rawLength)\n        except ValueError:", "            length = _hexint(rawLength)\n        except TypeError:"),
    Mutant("crlf-check-dropped", HTTP, "        if not self._buffer.startswith(b\"\\r\\n\"):\n            raise _MalformedChunkedDataError(\"Chunk did not end with CRLF\")\n\n", ""),
    Mutant("crlf-wait-threshold", HTTP, "        if len(self._buffer) < 2:\n            return False\n\n        if not self._buffer.startswith", "        if len(self._buffer) < 1:\n            return False\n\n        if not self._buffer.startswith"),
    Mutant("crlf-raises-runtime-error", HTTP, "            raise _MalformedChunkedDataError(\"Chunk did not end with CRLF\")", "            raise RuntimeError(\"Chunk did not end with CRLF\")"),
    Mutant("finish-callback-before-state", HTTP, "        self.state = \"FINISHED\"\n        self.finishCallback(data)\n        return False", "        self.finishCallback(data)\n        self.state = \"FINISHED\"\n        return False"),
    Mutant("buffer-cleared-before-extra-taken", HTTP, "        data = memoryview(self._buffer)[2:].tobytes()\n\n        del self._buffer[:]\n", "        del self._buffer[:]\n        data = memoryview(self._buffer)[2:].tobytes()\n"),
    Mutant("extra-bytes-off-by-one", HTTP, "        data = memoryview(self._buffer)[2:].tobytes()", "        data = memoryview(self._buffer)[1:].tobytes()"),
    Mutant("size-line-limit-found-boundary", HTTP, "        if eolIndex >= maxChunkSizeLineLength or (", "        if eolIndex > maxChunkSizeLineLength or ("),
    Mutant("size-line-limit-unterminated-boundary", HTTP, "            eolIndex == -1 and len(self._buffer) > maxChunkSizeLineLength", "            eolIndex == -1 and len(self._buffer) >= maxChunkSizeLineLength"),
    Mutant("search-skips-buffered-cr", HTTP, "            self._start = len(self._buffer) - 1\n", "            self._start = len(self._buffer)\n"),
    Mutant("size-line-leaves-lf", HTTP, "        self.length = length\n        del self._buffer[0 : eolIndex + 2]", "        self.length = length\n        del self._buffer[0 : eolIndex + 1]"),
    Mutant("search-offset-not-reset", HTTP, "        del self._buffer[0 : eolIndex + 2]\n        self._start = 0\n        return True\n\n    def _dataReceived_CRLF", "        del self._buffer[0 : eolIndex + 2]\n        return True\n\n    def _dataReceived_CRLF"),
    Mutant("zero-and-nonzero-states-swapped", HTTP, "        if length == 0:\n            self.state = \"TRAILER\"\n        else:\n            self.state = \"BODY\"", "        if length != 0:\n            self.state = \"TRAILER\"\n        else:\n            self.state = \"BODY\""),
    Mutant("extension-table-allows-cr", HTTP, "    b\"\\t !\\\"#$%&'()*+,-./0123456789:;<=>?@\"", "    b\"\\t\\r !\\\"#$%&'()*+,-./0123456789:;<=>?@\""),
    Mutant("extension-check-dropped", HTTP, "        if ext and ext.translate(None, _chunkExtChars) != b\"\":", "        if False and ext.translate(None, _chunkExtChars) != b\"\":"),
    Mutant("partial-chunk-not-counted", HTTP, "            chunk = bytes(self._buffer)\n            self.length -= len(chunk)\n", "            chunk = bytes(self._buffer)\n"),
    Mutant("body-boundary-strict", HTTP, "        if len(self._buffer) >= self.length:\n            chunk = memoryview", "        if len(self._buffer) > self.length:\n            chunk = memoryview"),
    Mutant("state-after-data-callback", HTTP, "            self.state = \"CRLF\"\n            self.dataCallback(chunk)", "            self.dataCallback(chunk)\n            self.state = \"CRLF\""),
    Mutant("trailer-size-not-counted", HTTP, "            self._receivedTrailerHeadersSize = receivedSize\n", ""),
    Mutant("trailer-limit-unterminated-dropped", HTTP, "            if minTrailerSize > self._maxTrailerHeadersSize:\n                raise _MalformedChunkedDataError(\"Trailer headers data is too long.\")\n", ""),
    Mutant("semicolon-searched-beyond-line", HTTP, "endOfLengthIndex = self._buffer.find(b\";\", 0, eolIndex)", "endOfLengthIndex = self._buffer.find(b\";\")"),
    Mutant("terminator-taken-as-trailer-field", HTTP, "        if eolIndex > 0:\n            # A trailer header was detected.", "        if eolIndex >= 0:\n            # A trailer header was detected."),
    Mutant("dispatch-on-empty-buffer", HTTP, "        while goOn and self._buffer:", "        while goOn:"),
    Mutant("chunk-end-leaves-lf", HTTP, "        del self._buffer[0:2]\n        return True", "        del self._buffer[0:1]\n        return True"),
    Mutant("reject-message-decodes-size-strictly", HTTP, "            raise _MalformedChunkedDataError(\"Chunk-size must be an integer.\")",
           "            raise _MalformedChunkedDataError(\"Chunk-size must be an integer: \" + rawLength.decode(\"ascii\"))"),
    Mutant("extension-message-decodes-strictly", HTTP, "                f\"Invalid characters in chunk extensions: {ext!r}.\"", "                \"Invalid characters in chunk extensions: \" + ext.decode(\"utf-8\")"),
    Mutant("state-literal-typo", HTTP, "        if self.state != \"FINISHED\":", "        if self.state != \"FINISH\":"),
    Mutant("data-loss-not-reported", HTTP, "        if self.state != \"FINISHED\":\n            raise _DataLoss(", "        if self.state == \"CHUNK_LENGTH\":\n            raise _DataLoss("),
    Mutant("finished-accepts-data", HTTP, "        raise RuntimeError(\n            \"_ChunkedTransferDecoder.dataReceived called after last \"\n            \"chunk was processed\"\n        )", "        return False"),
    Mutant("fromChunk-crlf-unchecked", HTTP, "    if rest[length : length + 2] != b\"\\r\\n\":\n        raise ValueError(\"chunk must end with CRLF\")\n", ""),
]
SILENT = [
    Silent("next-state-from-a-class-level-table", HTTP, '        if length == 0:\n            self.state = "TRAILER"\n        else:\n            self.state = "BODY"\n',
           '        self.state = self._afterSizeLine[length == 0]\n', more=[(HTTP, '    state = "CHUNK_LENGTH"\n\n    def __init__(\n        self,\n        dataCallback: Callable[[bytes], None],', '    state = "CHUNK_LENGTH"\n    _afterSizeLine = ("BODY", "TRAILER")\n\n    def __init__(\n        self,\n        dataCallback: Callable[[bytes], None],')]),
    Silent("state-by-conditional-expression", HTTP, "        if length == 0:\n            self.state = \"TRAILER\"\n        else:\n            self.state = \"BODY\"\n", "        self.state = \"TRAILER\" if length == 0 else \"BODY\"\n"),
    Silent("dispatch-loop-with-break", HTTP, "        goOn = True\n        while goOn and self._buffer:\n            goOn = getattr(self, \"_dataReceived_\" + self.state)()", "        while self._buffer:\n            step = getattr(self, \"_dataReceived_\" + self.state)\n            if not step():\n                break"),
    Silent("limit-exception-built-by-helper", HTTP, "            raise _MalformedChunkedDataError(\n                \"Chunk size line exceeds maximum of {} bytes.\".format(\n                    maxChunkSizeLineLength\n                )\n            )\n", "            raise self._tooLong()\n",
           more=[(HTTP, "    def _dataReceived_CRLF(self) -> bool:", "    def _tooLong(self):\n        return _MalformedChunkedDataError(\"Chunk size line exceeds maximum of {} bytes.\".format(maxChunkSizeLineLength))\n\n    def _dataReceived_CRLF(self) -> bool:")]),
    Silent("trailer-limit-helper", HTTP, "            if receivedSize > self._maxTrailerHeadersSize:\n                raise _MalformedChunkedDataError(\"Trailer headers data is too long.\")\n", "            self._limitTrailers(receivedSize)\n",
           more=[(HTTP, "    def _dataReceived_BODY(self) -> bool:", "    def _limitTrailers(self, size):\n        if size > self._maxTrailerHeadersSize:\n            raise _MalformedChunkedDataError(\"Trailer headers data is too long.\")\n\n    def _dataReceived_BODY(self) -> bool:")]),
    Silent('hexdigits-regex-fullmatch', ABNF, '    for c in b:\n        if c not in b"0123456789abcdefABCDEF":\n            return False\n    return b != b""\n', '    return _HEX_RE.fullmatch(b) is not None\n', more=[(ABNF, '"""\n\n\ndef _istoken', '"""\n\nimport re\n\n_HEX_RE = re.compile(rb"[0-9a-fA-F]+")\n\n\ndef _istoken')]),
    Silent('hexdigits-regex-Z-anchored', ABNF, '    for c in b:\n        if c not in b"0123456789abcdefABCDEF":\n            return False\n    return b != b""\n', '    return _HEX_RE.match(b) is not None\n', more=[(ABNF, '"""\n\n\ndef _istoken', '"""\n\nimport re\n\n_HEX_RE = re.compile(rb"[0-9a-fA-F]+\\Z")\n\n\ndef _istoken')]),
    Silent('hexdigits-translate-table', ABNF, '    for c in b:\n        if c not in b"0123456789abcdefABCDEF":\n            return False\n    return b != b""\n', '    return b != b"" and b.translate(None, b"0123456789abcdefABCDEF") == b""\n'),
    Silent("limit-test-negated", HTTP, "        if eolIndex >= maxChunkSizeLineLength or (", "        if not eolIndex < maxChunkSizeLineLength or ("),
    Silent("zero-length-falsy", HTTP, "        if length == 0:\n            self.state = \"TRAILER\"", "        if not length:\n            self.state = \"TRAILER\""),
    Silent("crlf-by-slice", HTTP, "        if not self._buffer.startswith(b\"\\r\\n\"):", "        if self._buffer[:2] != b\"\\r\\n\":"),
    Silent("search-restart-clamped", HTTP, "            self._start = len(self._buffer) - 1\n", "            self._start = max(0, len(self._buffer) - 1)\n"),
    Silent("chunk-by-bytes-slice", HTTP, "            chunk = memoryview(self._buffer)[: self.length].tobytes()", "            chunk = bytes(self._buffer[: self.length])"),
    Silent("rename-eol", HTTP, "        eolIndex = self._buffer.find(b\"\\r\\n\", self._start)\n\n        if eolIndex >= maxChunkSizeLineLength or (\n            eolIndex == -1 and len(self._buffer) > maxChunkSizeLineLength\n        ):",
           "        eol = eolIndex = self._buffer.find(b\"\\r\\n\", self._start)\n\n        if eol >= maxChunkSizeLineLength or (\n            eol < 0 and len(self._buffer) > maxChunkSizeLineLength\n        ):"),
    Silent("body-branches-inverted-clear-method", HTTP, "        if len(self._buffer) >= self.length:\n            chunk = memoryview(self._buffer)[: self.length].tobytes()\n            del self._buffer[: self.length]\n            self.state = \"CRLF\"\n            self.dataCallback(chunk)\n        else:\n            chunk = bytes(self._buffer)\n            self.length -= len(chunk)\n            del self._buffer[:]\n            self.dataCallback(chunk)\n        return True",
           "        if len(self._buffer) < self.length:\n            chunk = bytes(self._buffer)\n            self.length -= len(chunk)\n            self._buffer.clear()\n            self.dataCallback(chunk)\n            return True\n        chunk = bytes(self._buffer[: self.length])\n        del self._buffer[: self.length]\n        self.state = \"CRLF\"\n        self.dataCallback(chunk)\n        return True"),
    Silent("reject-message-repr", HTTP, "            raise _MalformedChunkedDataError(\"Chunk-size must be an integer.\")", "            raise _MalformedChunkedDataError(\"Chunk-size must be an integer, not %r.\" % (bytes(rawLength),))"),
    Silent("reject-message-decode-replace", HTTP, "            raise _MalformedChunkedDataError(\"Chunk-size must be an integer.\")",
           "            raise _MalformedChunkedDataError(\"Chunk-size must be an integer, not {}.\".format(rawLength.decode(\"ascii\", \"replace\")))"),
    Silent("extra-by-bytes-slice", HTTP, "        data = memoryview(self._buffer)[2:].tobytes()", "        data = bytes(self._buffer[2:])"),
    Silent("state-then-length-reordered", HTTP, "        self.length = length\n        del self._buffer[0 : eolIndex + 2]\n        self._start = 0\n        return True\n\n    def _dataReceived_CRLF",
           "        self._start = 0\n        del self._buffer[0 : eolIndex + 2]\n        self.length = length\n        return True\n\n    def _dataReceived_CRLF"),
]
