"""C16 - framed-message receivers: exact length limits, segmentation-safe buffering, writer/reader agreement."""
from __future__ import annotations

import ast
import re
import struct

from sa.astx import NotConst, call_name, lincmp, lin_expect, src, walk_local
from sa.selftest import Mutant, Silent
from sa.source import class_assigns
from sa.props._lib_d import (call_nodes, calls_with, const_value_is, implied, local_def, path_under, peval,
                             reach_under, self_assigns, slice_parts, succ_of, test_value, value_returned)
from sa.props._lib_d import must_pass_under as _must_pass_under
from sa.props._lib_d import undecided_tests as undecided_tests
from sa.props._lib_d import Views, written_names
from sa.props._lib_d import MiniVM, VMError, VMRaise, VMStub, _NativeRaise, facts_at, resolve_locals
from sa.source import AnalysisError

PROPERTY = "C16"
B = "protocols/basic.py"
TECHNIQUE = "CFG ordering, lincmp guard normal forms, threshold-exhaustive boundary evaluation; interpreted segmentations second"
EXPLANATION = (
    "Decides by evaluating the branch decisions of protocols/basic.py on boundary values (length = MAX_LENGTH-1, MAX_LENGTH, "
    "MAX_LENGTH+1; buffer = limit-1, limit) along the CFG: a complete line / int-prefixed string / netstring of exactly "
    "MAX_LENGTH is delivered and one byte more is rejected (LineOnlyReceiver, LineReceiver, IntNStringReceiver, "
    "NetstringReceiver incl. the digit-count pre-check); a not yet delimited line buffer is rejected only from "
    "MAX_LENGTH + len(delimiter) bytes in both line receivers (F16, fixed); a message whose last byte just arrived is "
    "delivered and one that lacks a byte waits. Ordering/def-use: buffers are extended old-before-new, swapped or cleared "
    "before the call-out that may re-enter, the re-entrancy flag is reset on every exit, pause is honoured and resume "
    "re-processes the buffer, slices of the int-prefixed parser chain offset -> prefix -> payload -> new offset, the "
    "netstring payload split uses expected-current. Writer/reader agreement: sendString packs with the attribute "
    "dataReceived unpacks with, prefixLength = calcsize(structFormat) of an unsigned network-order format whose range is "
    "the sendString limit, _formatNetstring produces '<decimal>:<data>,' and the _LENGTH regexes accept exactly canonical "
    "decimals. Segmentation invariance (state carried across calls): each receiver class is interpreted from its source by a small "
    "concrete evaluator (no import of twisted) on sample streams of 2-4 messages, delivered at once and in every 2-way (and, for "
    "short streams or in the thorough tier, every 3-way) segmentation, with all instance attributes threaded from one dataReceived "
    "call to the next (pause/resume, raw/line mode switches and setLineMode(extra) included); the event trace up to the first close "
    "request must equal the whole-stream trace and an independent reference framing. Pause/resume from inside the handler (named by the "
    "statement): in the same model the first message's handler calls pauseProducing() and resumeProducing() - at once or after the "
    "delivery (LineReceiver, IntNStringReceiver) - and the messages must be those of plain sequential delivery; LineReceiver must also "
    "survive a handler that calls dataReceived itself (_busyReceiving). Structurally, every receiver has consumed a message (offset / buffer / "
    "state) before the call-out that hands it out (intn/offset-advanced-before-callout, netstring/state-consumed-before-callout one helper "
    "level deep, the LineReceiver split/swap rules), and no local derived from a buffer (cached length, offset, slice) is used after the buffer was "
    "re-bound without being recomputed (stale/derived-value-after-rebinding, structural def-use). Evaluated but only reported as notes, being outside the statement or not holding today: "
    "handlers that call dataReceived or raise on the other receivers. IntNStringReceiver with pauseProducing() + immediate resumeProducing() "
    "inside the handler used to duplicate messages (finding F16p, fixed in 5bfefbe; armed as intn/pause-resume-inside-handler). "
    "Not decided: invariance for all streams "
    "(only the sample streams are enumerated)."
    " METHODS per clause: exact limits = finite-exhaustive (branch decisions along the CFG at limit-1/limit/limit+1 with the checked argument that the measured "
    "length is read only through one linear comparison, hence a step function); IntN prefix / completeness guards = structural lincmp normal forms on the normalised "
    "view, pause re-tested inside the loop = structural (dominance + back-edge must-pass), with the interpreted runs (/evaluated) as second layer; buffer ordering, "
    "state-before-call-out, flag reset, def-use chains, writer/reader tables = structural; segmentation invariance, reference framing, pause/resume from inside the "
    "handler, LineReceiver re-entrancy, netstring digit pre-check / regex / writer format = BOUNDED evidence only (sample streams and values; no finite domain argument "
    "exists for arbitrary streams)."
)
RULE_KINDS = {
    # CFG ordering / dominance / must-pass on the normalised view (buffer consumed before the call-out, flag reset on every exit, swap before re-entry,
    # handler -> close), def-use chains derived from the unpack() call, linear normal forms (lincmp) of the IntN length guards and of _payloadComplete,
    # table agreement (structFormat / prefixLength / send limit / pack-unpack attribute)
    "*": "structural",
    # branch decisions evaluated along the CFG at limit-1, limit, limit+1.  Domain argument, checked on every run (_thr): each test that reads the
    # measured length is one linear comparison in it, so the decision is a step function of an integer and the three points determine it everywhere
    "line-only/complete-boundary": "finite-exhaustive", "line-only/pending-boundary": "finite-exhaustive",
    "line/complete-boundary": "finite-exhaustive", "line/pending-boundary": "finite-exhaustive", "line/pending-kept": "finite-exhaustive",
    "intn/limit-boundary": "finite-exhaustive", "intn/stops-after-limit": "finite-exhaustive", "intn/send-limit": "finite-exhaustive",
    "netstring/limit-boundary": "finite-exhaustive", "netstring/payload-complete-boundary": "finite-exhaustive",
    # every concrete receiver class, format evaluated at both ends of its range
    "intn/prefix-table": "finite-exhaustive",
    # ... the same rules when the domain argument could not be established: the boundary points only
    "line-only/complete-boundary/sampled": "bounded", "line-only/pending-boundary/sampled": "bounded", "line/complete-boundary/sampled": "bounded",
    "line/pending-boundary/sampled": "bounded", "intn/limit-boundary/sampled": "bounded", "intn/send-limit/sampled": "bounded",
    "netstring/limit-boundary/sampled": "bounded",
    # receivers interpreted from source on sample streams (every 2-way, many/all 3-way segmentations), hostile-handler scenarios, sample values
    "intn/reference-framing": "bounded", "intn/segmentation-invariant": "bounded", "line/reference-framing": "bounded", "line/segmentation-invariant": "bounded",
    "line-only/reference-framing": "bounded", "line-only/segmentation-invariant": "bounded", "netstring/reference-framing": "bounded",
    "netstring/segmentation-invariant": "bounded", "intn/pause-resume-inside-handler": "bounded", "intn/pause-inside-handler-resume-later": "bounded",
    "line/pause-resume-inside-handler": "bounded", "line/exactly-once-under-reentrancy": "bounded",
    "intn/complete-message-delivered/evaluated": "bounded", "intn/incomplete-message-waits/evaluated": "bounded", "intn/prefix-boundary/evaluated": "bounded",
    "intn/pause-honoured/evaluated": "bounded",
    "netstring/digit-precheck": "bounded", "netstring/length-syntax": "bounded", "netstring/writer-format": "bounded", "netstring/payload-without-comma": "bounded",
    "netstring/length-value": "bounded",
    # _extractPayload evaluated along its CFG on representative contents for each outcome of _payloadComplete() (plus the segmentation runs)
    "netstring/payload-split": "bounded",
    # def-use on the CFG: a local derived from another local is not used after that local was re-bound without being recomputed
    "stale/": "structural",
}
ASSUMPTIONS = [
    "lineReceived/rawDataReceived/stringReceived may re-enter dataReceived, setLineMode/setRawMode, pause/resume only",
    "MAX_LENGTH, delimiter, structFormat and prefixLength are not modified while a dataReceived call is on the stack",
]
Q = "twisted.protocols.basic."
M = 10  # sample MAX_LENGTH used for boundary evaluation

# methods the rules are written against; any other private method of these classes is a helper introduced later and is analysed as
# if inlined at its call sites (sa.props._lib_d.Inliner / Views)
KNOWN = {'protocols/basic.py': {'<module>': ['_formatNetstring'],       # module-level functions the rules know by name
                        'IntNStringReceiver': ['dataReceived', 'lengthLimitExceeded', 'sendString', 'stringReceived'],
                        'LineOnlyReceiver': ['dataReceived', 'lineLengthExceeded', 'lineReceived', 'sendLine'],
                        'LineReceiver': ['clearLineBuffer', 'dataReceived', 'lineLengthExceeded', 'lineReceived', 'rawDataReceived', 'sendLine', 'setLineMode', 'setRawMode'],
                        'NetstringReceiver': ['_checkForTrailingComma', '_checkPartialLengthSpecification', '_checkStringSize', '_consumeData', '_consumeLength', '_consumePayload',
                                              '_extractLength', '_extractPayload', '_handleParseError', '_maxLengthSize', '_payloadComplete', '_prepareForPayloadConsumption',
                                              '_processLength', '_processPayload', 'dataReceived', 'makeConnection', 'sendString', 'stringReceived'],
                        '_PauseableMixin': ['pauseProducing', 'resumeProducing', 'stopProducing']}}


def _views(ctx):
    v = ctx.__dict__.get("_views_d")
    if v is None:
        v = ctx.__dict__["_views_d"] = Views(ctx, KNOWN, extended=True)
    return v


def _F(ctx, rel, qual):
    return _views(ctx).f(rel, qual)


def _M(ctx, rel, cls_name):
    return _views(ctx).methods(rel, cls_name)



def must_pass_under(g, facts, via, srcs=None, to=None):
    """as _lib_d.must_pass_under, and additionally the ``via`` nodes must be reachable at all (a path that
    raises instead of arriving is not 'passing')."""
    via = list(via)
    w = _must_pass_under(g, facts, via, srcs=srcs, to=to)
    if w is None and not (reach_under(g, facts, srcs=srcs) & set(via)):
        return list(srcs)[:1] if srcs else [g.entry]
    return w


def _raises(g, exc_name):
    return [n.id for n in g.nodes if n.kind == "stmt" and g.reachable(n.id) and isinstance(n.ast, ast.Raise) and n.ast.exc is not None
            and exc_name in src(n.ast.exc)]


def _buffer_writes(g, attr="_buffer"):
    out = []
    for n in g.nodes:
        if n.kind == "stmt" and g.reachable(n.id) and isinstance(n.ast, (ast.Assign, ast.AugAssign)):
            tg = n.ast.targets if isinstance(n.ast, ast.Assign) else [n.ast.target]
            flat = [e for t in tg for e in (t.elts if isinstance(t, (ast.Tuple, ast.List)) else [t])]
            if any(src(e) == "self." + attr for e in flat):
                out.append(n.id)
    return out


def _appends_param(st, attr, param):
    """``self.attr += param`` or ``self.attr = self.attr + param`` (old bytes first)."""
    if isinstance(st, ast.AugAssign) and isinstance(st.op, ast.Add) and src(st.target) == "self." + attr and src(st.value) == param:
        return True
    if isinstance(st, ast.Assign) and len(st.targets) == 1 and src(st.targets[0]) == "self." + attr and isinstance(st.value, ast.BinOp) \
            and isinstance(st.value.op, ast.Add) and src(st.value.left) == "self." + attr and src(st.value.right) == param:
        return True
    return False


def _thr(ctx, g, f, rule, var_text):
    """Domain argument for a boundary rule that evaluates the branch decisions at limit-1, limit, limit+1: every test of the function that
    reads ``var_text`` must be a single linear comparison in it (coefficient +-1) after substituting single-assignment temporaries - then the
    decision is a threshold (step) function of that integer and the three points around the required threshold determine it for EVERY value.
    Returns the rule name to use: ``rule`` (finite-exhaustive) when the argument is established, ``rule + '/sampled'`` (bounded) otherwise."""
    bad = []
    for n in g.nodes:
        if n.kind != "test" or not g.reachable(n.id):
            continue
        forms = [x for x in (n.ast, resolve_locals(f, n.ast)) if var_text in src(x)]
        if not forms:
            continue
        if not any((lambda nf: nf is not None and dict(nf[0]).get(var_text) in (1, -1))(lincmp(x)) for x in forms):
            bad.append(src(n.ast))
    if bad:
        ctx.note(f"{rule}: domain argument not established ({var_text} is also read by {bad[:2]}): evaluated at the boundary points only (bounded)")
        return rule + "/sampled"
    return rule


_OPTIONAL_HELPERS = {"_checkForTrailingComma", "_processPayload", "_prepareForPayloadConsumption", "_checkStringSize", "_extractPayload", "_processLength",
                     "_checkPartialLengthSpecification"}


def _wide(ctx, qual):
    """View of a NetstringReceiver method with the single-purpose helpers the rules used to look up by name (comma check, payload hand-over, payload
    state reset, digit pre-check) expanded where they are called: the clause is judged on what the caller does, whether those steps live in
    helpers of their own or are written out in place."""
    from sa.props._lib_d import Inliner
    inl = ctx.__dict__.get("_wide_inl")
    if inl is None:
        names = {n for ns in KNOWN[B].values() for n in ns} - _OPTIONAL_HELPERS
        inl = ctx.__dict__["_wide_inl"] = Inliner(ctx.mod(B), ["NetstringReceiver"], names, extended=True)
    return inl.view(ctx.func(B, qual))


def _has_method(ctx, cls_name, name):
    from sa.source import methods as _ms
    return name in _ms(ctx.cls(B, cls_name))


def _all_decided(ctx, g, facts, var, rule, c, srcs=None, avoid=()):
    """The facts of a boundary point decide every test (reached from ``srcs``) that reads the measured quantity.  When one is left open - the comparison
    is made by a helper the normaliser did not read through, say - following both outcomes would 'find' a wrong delivery on the branch that cannot
    be taken: the point is not decided here (note), the evaluated framing rules run the code instead."""
    core = re.sub(r"^len\((.*)\)$", r"\1", var).split(".")[-1]
    und = [t for t in undecided_tests(g, facts, srcs=srcs, avoid=avoid)
           if re.search(r"(?<![\w])" + re.escape(core) + r"(?![\w])", src(g.node(t).ast) + " " + src(resolve_locals(g.func, g.node(t).ast)))]
    if und:
        ctx.note(f"{rule}: not decided for {c}: the test {src(g.node(und[0]).ast)[:80]!r} reads {var} in a form that could not be evaluated")
        return False
    return True


def _bcheck(ctx, dec, cond, rule, c, msg, witness=""):
    """ctx.check for a boundary point; a failing verdict is only recorded when the facts of the point decided every test that reads the quantity"""
    g, facts, var, srcs, avoid = dec
    if not cond and not _all_decided(ctx, g, facts, var, rule, c, srcs=srcs, avoid=avoid):
        return
    ctx.check(cond, rule, c, msg, witness=witness)


def _line_only(ctx):
    f = _F(ctx, B, "LineOnlyReceiver.dataReceived")
    g = ctx.cfg(f)
    q = Q + "LineOnlyReceiver.dataReceived"
    dparam = f.args.args[1].arg
    loops = [n for n in g.nodes if n.kind == "for" and g.reachable(n.id)]
    ctx.need(len(loops) == 1, "single for-loop over the complete lines in LineOnlyReceiver.dataReceived")
    head = loops[0].id
    lv = src(loops[0].ast.target)
    exceeded = calls_with(g, "self.lineLengthExceeded")
    ex_line = [n for n, c in exceeded if c.args and src(c.args[0]) == lv]
    ex_buf = [n for n, c in exceeded if c.args and src(c.args[0]) == "self._buffer"]
    deliver = [n for n, c in calls_with(g, "self.lineReceived") if c.args and src(c.args[0]) == lv]
    ctx.check(bool(deliver), "line-only/delivers", q, "complete lines are not handed to lineReceived(line)")
    ctx.check(bool(ex_line), "line-only/complete-boundary", q + " | <site>", "over-long complete lines are not reported through lineLengthExceeded(line)")
    ctx.check(bool(ex_buf), "line-only/pending-boundary", q + " | <site>", "an over-long unterminated buffer is never reported (unbounded memory)")
    body = succ_of(g, head, "iter")
    r_cb = _thr(ctx, g, f, "line-only/complete-boundary", f"len({lv})")
    r_pb = _thr(ctx, g, f, "line-only/pending-boundary", "len(self._buffer)")
    for L, ok_len in ((M - 1, True), (M, True), (M + 1, False)):
        facts = {f"len({lv})": L, "self.MAX_LENGTH": M, "self.transport.disconnecting": False}
        c = q + f" | <complete line of MAX_LENGTH{L - M:+d} bytes>"
        dec = (g, facts, f"len({lv})", body, [head])
        R = reach_under(g, facts, srcs=body, avoid=[head])
        if ok_len:
            w = must_pass_under(g, facts, deliver, srcs=body, to=[g.exit, head])
            _bcheck(ctx, dec, w is None and not (R & set(ex_line)), r_cb, c,
                      "a complete line within MAX_LENGTH is rejected (or not delivered)", witness=g.describe(w))
        else:
            w = must_pass_under(g, facts, ex_line, srcs=body, to=[g.exit, head])
            _bcheck(ctx, dec, w is None and not (R & set(deliver)), r_cb, c,
                      "a complete line longer than MAX_LENGTH is delivered (or not reported)", witness=g.describe(w))
    tail = succ_of(g, head, "done")
    for Bn, legit in ((M, True), (M + 1, True), (M + 2, False)):
        facts = {"len(self._buffer)": Bn, "self.MAX_LENGTH": M, "len(self.delimiter)": 2}
        c = q + f" | <pending buffer of MAX_LENGTH{Bn - M:+d} bytes, 2-byte delimiter>"
        dec = (g, facts, "len(self._buffer)", tail, ())
        R = reach_under(g, facts, srcs=tail)
        if legit:
            _bcheck(ctx, dec, not (R & set(ex_buf)), r_pb, c,
                      "an unterminated buffer that may still be a line of MAX_LENGTH bytes plus the first byte(s) of the delimiter is "
                      "rejected: the same line is accepted when its delimiter arrives in the same segment",
                      witness=g.describe(path_under(g, facts, ex_buf, srcs=tail)))
        else:
            w = must_pass_under(g, facts, ex_buf, srcs=tail)
            _bcheck(ctx, dec, w is None, r_pb, c, "a buffer that can no longer become a legal line is not rejected", witness=g.describe(w))
    # the pending piece is stored before the complete lines are handed out.  WHICH bytes are kept and in which order old and new
    # data are joined is decided by evaluation (line-only/reference-framing, line-only/segmentation-invariant), not by the
    # shape of the split / pop / slice / starred unpacking that computes it.
    keeps = _buffer_writes(g)
    w = g.must_precede(keeps, deliver) if keeps else None
    ctx.check(bool(keeps) and w is None, "line-only/pending-stored-before-callouts", q + " | <pending piece>",
              "complete lines are delivered before the unterminated rest of the data is stored back in _buffer", witness=g.describe(w))


def _line_receiver(ctx):
    f = _F(ctx, B, "LineReceiver.dataReceived")
    g = ctx.cfg(f)
    q = Q + "LineReceiver.dataReceived"
    dparam = f.args.args[1].arg
    line_cb = calls_with(g, "self.lineReceived")
    raw_cb = calls_with(g, "self.rawDataReceived")
    exc_cb = calls_with(g, "self.lineLengthExceeded")
    callouts = [n for n, _ in line_cb + raw_cb + exc_cb]
    ctx.need(line_cb and raw_cb and exc_cb, "lineReceived / rawDataReceived / lineLengthExceeded call-outs in LineReceiver.dataReceived")
    # (d) re-entrancy flag
    set_t = self_assigns(g, "_busyReceiving", lambda v: const_value_is(v, lambda x: x is True))
    set_f = self_assigns(g, "_busyReceiving", lambda v: const_value_is(v, lambda x: x is False))
    ctx.check(bool(set_t) and all(g.must_precede(set_t, [n]) is None for n in callouts), "line/busy-flag-set", q,
              "_busyReceiving is not set before the call-outs: data delivered re-entrantly is processed out of order")
    for s in set_t:
        w = g.must_pass([s], set_f, exc=True)
        ctx.check(bool(set_f) and w is None, "line/busy-flag-reset-on-every-exit", ctx.construct(q, g.node(s).ast),
                  "some exit of dataReceived (early return or an exception from a handler) leaves _busyReceiving set: every later "
                  "segment is only buffered and never delivered", witness=g.describe(w))
    facts = {"self._busyReceiving": True}
    R = reach_under(g, facts)
    ctx.check(not (R & set(callouts)), "line/reentrant-data-buffered", q + " | <re-entrant call>",
              "a re-entrant dataReceived runs the delivery loop inside the outer one")
    app = [n.id for n in g.nodes if n.kind == "stmt" and g.reachable(n.id) and _appends_param(n.ast, "_buffer", dparam)]
    w = must_pass_under(g, facts, app)
    ctx.check(bool(app) and w is None, "line/reentrant-data-buffered", q + " | <re-entrant call> kept",
              "data received re-entrantly is dropped instead of being appended to _buffer", witness=g.describe(w))
    w = must_pass_under(g, {"self._busyReceiving": False}, app, to=[g.exit] + callouts)
    ctx.check(bool(app) and w is None, "line/buffer-order", q + " | <append>",
              "new data is not appended to the pending buffer (old bytes first) before the delivery loop", witness=g.describe(w))
    for n in callouts:
        if n in [x for x, _ in exc_cb]:
            continue
        ctx.check(implied(g, n, [{"self.paused": False}], [{"self.paused": True}]), "line/pause-honoured", ctx.construct(q, g.node(n).ast),
                  "lines / raw data are delivered although the protocol is paused")
    # line mode: the split
    split_nodes = []
    for n in g.nodes:
        if n.kind == "stmt" and g.reachable(n.id) and isinstance(n.ast, ast.Assign) and isinstance(n.ast.value, ast.Call) \
                and isinstance(n.ast.value.func, ast.Attribute) and n.ast.value.func.attr == "split" and src(n.ast.value.func.value) == "self._buffer":
            split_nodes.append(n.id)
    ctx.need(len(split_nodes) == 1, "line, self._buffer = self._buffer.split(self.delimiter, 1)")
    sp = split_nodes[0]
    st = g.node(sp).ast
    tg = st.targets[0]
    once = len(st.value.args) == 2 and src(st.value.args[0]) == "self.delimiter" and const_value_is(st.value.args[1], lambda x: x == 1)
    pair = isinstance(tg, ast.Tuple) and len(tg.elts) == 2 and isinstance(tg.elts[0], ast.Name)
    stored = pair and src(tg.elts[1]) == "self._buffer"
    if pair and not stored and isinstance(tg.elts[1], ast.Name):
        # (line, rest) unpacked into two locals: the rest must be stored back in _buffer on every way from the split to a call-out / the exit
        rest = tg.elts[1].id
        backs = [x.id for x in g.nodes if x.kind == "stmt" and g.reachable(x.id) and isinstance(x.ast, ast.Assign) and len(x.ast.targets) == 1
                 and src(x.ast.targets[0]) == "self._buffer" and (src(x.ast.value) == rest or const_value_is(x.ast.value, lambda v: v == b""))]
        named = [b for b in backs if src(g.node(b).ast.value) == rest]
        w = g.must_pass(succ_of(g, sp, None), backs, to=[g.exit] + callouts) if succ_of(g, sp, None) else [sp]
        rebound = any(rest in written_names(x.ast) for x in g.nodes if x.kind == "stmt" and x.id != sp and x.ast is not None)
        stored = bool(named) and w is None and not rebound
    if pair and (stored or isinstance(tg.elts[1], (ast.Name, ast.Attribute))):
        ctx.check(bool(once and stored), "line/split-shape", ctx.construct(q, st),
                  "the buffer is not split once at the first delimiter into (line, rest) with the rest stored back before the call-out")
    else:
        ctx.note("line/split-shape: the result of the split is not unpacked into (line, rest) (" + src(st)[:80] + "); which bytes are delivered and kept is "
                 "decided by line/reference-framing and line/segmentation-invariant")
    lv = tg.elts[0].id if pair else "line"
    after = succ_of(g, sp, None)
    r_cb = _thr(ctx, g, f, "line/complete-boundary", f"len({lv})")
    r_pb = _thr(ctx, g, f, "line/pending-boundary", "len(self._buffer)")
    deliver = [n for n, c in line_cb if c.args and src(c.args[0]) == lv]
    for L, ok_len in ((M - 1, True), (M, True), (M + 1, False)):
        facts = {f"len({lv})": L, "self.MAX_LENGTH": M}
        c = q + f" | <complete line of MAX_LENGTH{L - M:+d} bytes>"
        dec = (g, facts, f"len({lv})", after, [sp])
        R = reach_under(g, facts, srcs=after, avoid=[sp])
        exn = [n for n, _ in exc_cb]
        if ok_len:
            w = must_pass_under(g, facts, deliver, srcs=after, to=[g.exit, sp])
            _bcheck(ctx, dec, w is None and not (R & set(exn)), r_cb, c, "a complete line within MAX_LENGTH is rejected (or not delivered)",
                      witness=g.describe(w))
        else:
            w = must_pass_under(g, facts, exn, srcs=after, to=[g.exit, sp])
            _bcheck(ctx, dec, w is None and not (R & set(deliver)), r_cb, c, "a complete line longer than MAX_LENGTH is delivered (or not reported)",
                      witness=g.describe(w))
    hs = [h for h in succ_of(g, sp, "exc") if g.node(h).kind == "handler"]
    ctx.need(hs, "handler for 'no delimiter in the buffer'")
    writes = _buffer_writes(g)
    for Bn, legit in ((M, True), (M + 1, True), (M + 2, False)):
        facts = {"len(self._buffer)": Bn, "self.MAX_LENGTH": M, "len(self.delimiter)": 2}
        c = q + f" | <pending buffer of MAX_LENGTH{Bn - M:+d} bytes, 2-byte delimiter>"
        dec = (g, facts, "len(self._buffer)", hs, [sp])
        R = reach_under(g, facts, srcs=hs, avoid=[sp])
        exn = [n for n, _ in exc_cb]
        if legit:
            _bcheck(ctx, dec, not (R & set(exn)), r_pb, c,
                      "an unterminated buffer that may still be a legal line plus a partial delimiter is rejected",
                      witness=g.describe(path_under(g, facts, exn, srcs=hs, avoid=[sp])))
            ctx.check(not (R & set(writes)), "line/pending-kept", c, "the unterminated buffer is modified while waiting for its delimiter")
        else:
            w = must_pass_under(g, facts, exn, srcs=hs, to=[g.exit, sp])
            _bcheck(ctx, dec, w is None, r_pb, c, "a buffer that can no longer become a legal line is not rejected", witness=g.describe(w))
    # buffer cleared / swapped before call-outs that may re-enter
    clears = [n for n in writes if any(const_value_is(v, lambda x: x == b"") for v in
                                       ([g.node(n).ast.value] if not isinstance(g.node(n).ast.value, ast.Tuple) else g.node(n).ast.value.elts))]
    for n, call in exc_cb:
        w = g.must_precede(clears, [n])
        ctx.check(bool(clears) and w is None, "line/buffer-cleared-before-exceeded", ctx.construct(q, call),
                  "the over-long data is reported but stays in _buffer: it is processed (and reported) again with the next segment",
                  witness=g.describe(w))
    for n, call in raw_cb:
        a = call.args[0] if call.args else None
        cap = []
        for x in g.nodes:
            if x.kind == "stmt" and g.reachable(x.id) and isinstance(x.ast, ast.Assign) and a is not None:
                for t in x.ast.targets:
                    if src(t) == src(a) and src(x.ast.value) == "self._buffer":
                        cap.append(x.id)
                    elif isinstance(t, (ast.Tuple, ast.List)) and isinstance(x.ast.value, (ast.Tuple, ast.List)) and len(t.elts) == len(x.ast.value.elts):
                        if any(src(te) == src(a) and src(ve) == "self._buffer" for te, ve in zip(t.elts, x.ast.value.elts)):
                            cap.append(x.id)
        if not cap:
            # anchor not recognised: no verdict from this rule (the raw-mode / setLineMode(extra) segmentation runs cover the clause)
            ctx.note("line/raw-swap-before-callout: the statement that captures _buffer for rawDataReceived was not recognised; clause left to "
                     "line/segmentation-invariant (raw mode switch and setLineMode(extra))")
            continue
        w1 = g.must_precede(cap, [n])
        ctx.check(w1 is None, "line/raw-swap-before-callout", ctx.construct(q, call),
                  "rawDataReceived is not given the bytes captured from _buffer", witness=g.describe(w1))
        for cp in cap:
            w = None if cp in clears else g.must_pass([cp], clears, to=[n])
            ctx.check(w is None, "line/raw-swap-before-callout", ctx.construct(q, call) + " | cleared",
                      "_buffer is not emptied before rawDataReceived runs: data pushed back by setLineMode(extra) inside the call-out is "
                      "lost or the delivered bytes are delivered again", witness=g.describe(w))
            wheads = [x.id for x in g.nodes if x.kind == "join" and isinstance(x.ast, ast.While)]
            back = g.path([n], clears, strict=True, avoid=[cp] + wheads, edge_ok=lambda a_, b_, l: l != "exc")
            ctx.check(back is None, "line/raw-swap-before-callout", ctx.construct(q, call) + " | not after",
                      "_buffer is emptied after the rawDataReceived call-out (data pushed back by setLineMode(extra) is discarded)", witness=g.describe(back))
    # mixin: pause / resume
        f2 = _F(ctx, B, "_PauseableMixin.resumeProducing")
        g2 = ctx.cfg(f2)
        q2 = Q + "_PauseableMixin.resumeProducing"
        pf = self_assigns(g2, "paused", lambda v: const_value_is(v, lambda x: x is False))
        kick = call_nodes(g2, "self.dataReceived")
        w = g2.must_pass([g2.entry], kick)
        ctx.check(bool(kick) and w is None, "pause/resume-reprocesses-buffer", q2,
                  "resumeProducing() does not re-run dataReceived: data buffered while paused stays undelivered until more arrives", witness=g2.describe(w))
        ctx.check(bool(pf) and all(g2.must_precede(pf, [k]) is None for k in kick), "pause/resume-clears-flag-first", q2,
                  "paused is not cleared before the buffered data is re-processed (nothing would be delivered)")
        f3 = _F(ctx, B, "_PauseableMixin.pauseProducing")
        g3 = ctx.cfg(f3)
        pt = self_assigns(g3, "paused", lambda v: const_value_is(v, lambda x: x is True))
        ctx.check(bool(pt) and g3.must_pass([g3.entry], pt) is None, "pause/sets-flag", Q + "_PauseableMixin.pauseProducing", "pauseProducing() does not set paused")
    with ctx.section("LineReceiver.setLineMode"):
        # mode switches
        f4 = _F(ctx, B, "LineReceiver.setLineMode")
        g4 = ctx.cfg(f4)
        q4 = Q + "LineReceiver.setLineMode"
        ex = f4.args.args[1].arg
        lm = self_assigns(g4, "line_mode", lambda v: const_value_is(v, bool))
        feed = [n for n, c in calls_with(g4, "self.dataReceived") if c.args and src(c.args[0]) == ex]
        w = must_pass_under(g4, {ex: b"x"}, feed)
        ctx.check(bool(feed) and w is None, "line/set-line-mode-extra", q4, "the extra bytes handed to setLineMode() are not fed back through dataReceived",
                  witness=g4.describe(w))
        ctx.check(bool(lm) and all(g4.must_precede(lm, [n]) is None for n in feed), "line/set-line-mode-extra", q4 + " | mode first",
                  "line_mode is not switched before the extra bytes are processed")
    with ctx.section("sendLine"):
        # sendLine in both classes
        for cls in ("LineReceiver", "LineOnlyReceiver"):
            fs = _F(ctx, B, f"{cls}.sendLine")
            lp = fs.args.args[1].arg
            ok = False
            for c in (x for x in walk_local(fs) if isinstance(x, ast.Call)):
                if call_name(c) == "self.transport.write" and len(c.args) == 1:
                    a = c.args[0]
                    ok = isinstance(a, ast.BinOp) and isinstance(a.op, ast.Add) and src(a.left) == lp and src(a.right) == "self.delimiter"
                elif call_name(c) == "self.transport.writeSequence" and len(c.args) == 1 and isinstance(c.args[0], (ast.Tuple, ast.List)):
                    ok = [src(e) for e in c.args[0].elts] == [lp, "self.delimiter"]
            ctx.check(ok, "line/send-line", Q + f"{cls}.sendLine", "sendLine does not write the line followed by exactly one self.delimiter")


def _intn(ctx):
    f = _F(ctx, B, "IntNStringReceiver.dataReceived")
    g = ctx.cfg(f)
    q = Q + "IntNStringReceiver.dataReceived"
    unp = [(n, c) for n, c in calls_with(g, "unpack", "struct.unpack")]
    ctx.need(len(unp) == 1, "single unpack() in IntNStringReceiver.dataReceived")
    un, ucall = unp[0]
    ust = g.node(un).ast
    tg = ust.targets[0] if isinstance(ust, ast.Assign) else None
    lvar = tg.elts[0].id if isinstance(tg, (ast.Tuple, ast.List)) and len(tg.elts) == 1 and isinstance(tg.elts[0], ast.Name) else None
    if lvar is None and isinstance(ust, ast.Assign) and isinstance(ust.value, ast.Subscript) and isinstance(tg, ast.Name):
        lvar = tg.id
    ctx.need(lvar, "length variable bound from unpack()")
    deliver = calls_with(g, "self.stringReceived")
    exceeded = calls_with(g, "self.lengthLimitExceeded")
    ctx.need(deliver and exceeded, "stringReceived / lengthLimitExceeded call-outs")
    dn, en = [n for n, _ in deliver], [n for n, _ in exceeded]
    heads = [n.id for n in g.nodes if n.kind == "join" and isinstance(n.ast, ast.While) and g.reachable(n.id)]
    ctx.need(len(heads) == 1, "the while loop of IntNStringReceiver.dataReceived")
    head = heads[0]
    after = succ_of(g, un, None)
    # (a) limit
    r_lb = _thr(ctx, g, f, "intn/limit-boundary", lvar)
    for L, ok_len in ((M - 1, True), (M, True), (M + 1, False)):
        facts = {lvar: L, "self.MAX_LENGTH": M}
        c = q + f" | <announced length MAX_LENGTH{L - M:+d}>"
        dec = (g, facts, lvar, after, [head])
        R = reach_under(g, facts, srcs=after, avoid=[head])
        if ok_len:
            _bcheck(ctx, dec, not (R & set(en)), r_lb, c, "a string within MAX_LENGTH is refused",
                      witness=g.describe(path_under(g, facts, en, srcs=after, avoid=[head])))
        else:
            w = must_pass_under(g, facts, en, srcs=after, to=[g.exit, head])
            _bcheck(ctx, dec, w is None and not (R & set(dn)), r_lb, c, "a string longer than MAX_LENGTH is delivered (or not reported)",
                      witness=g.describe(w))
            R2 = reach_under(g, facts, srcs=[s for e in en for s in succ_of(g, e, None)])
            ctx.check(not (R2 & (set(dn) | {un})), "intn/stops-after-limit", c, "parsing continues after lengthLimitExceeded in the same delivery")
    # (b), (c) first layer, structural: the two length guards of the loop as linear normal forms on the normalised view (single-assignment
    # temporaries substituted), whatever the loop looks like (while <test>, or while True with break guards), and the pause test inside the loop.
    # Abstains (note) when the guards are not recognised; the interpreted layer below covers the same clauses.
    sp0 = slice_parts(ucall.args[1]) if len(ucall.args) == 2 else None
    if sp0 and isinstance(sp0[0], ast.Name) and sp0[1] is not None:
        dvar, off = sp0[0].id, src(sp0[1])
        lentxt = f"len({dvar})"

        def proceed_forms(target_nodes, region_ok):
            out = []
            for t in g.nodes:
                if t.kind != "test" or not g.reachable(t.id) or not region_ok(t.id):
                    continue
                e = resolve_locals(f, t.ast)
                if lentxt not in src(e):
                    continue
                via = {lab: bool(set(g.reach(succ_of(g, t.id, lab), avoid=[head], edge_ok=lambda a, b, l: l != "exc")) & set(target_nodes)) for lab in ("T", "F")}
                if via["T"] == via["F"]:
                    continue
                out.append((t.id, lincmp(e, negate=via["F"])))
            return out

        pre = proceed_forms([un], lambda t: not g.dominates(un, t))
        want = lin_expect({lentxt: 1, off: -1, "self.prefixLength": -1}, 0)
        if not pre:
            ctx.note("intn/prefix-boundary: shape not recognised (no length guard in front of unpack), clause left to intn/prefix-boundary/evaluated")
        for t, nf in pre:
            ctx.check(nf == want, "intn/prefix-boundary", ctx.construct(q, g.node(t).ast),
                      f"a length prefix is decoded exactly when 'len(buffer) - offset - prefixLength >= 0'; the guard normalises to "
                      f"{sorted(nf[0]) if nf else None} >= {nf[1] if nf else None}: a complete prefix waits for more data, or an incomplete one is decoded")
        post = proceed_forms(dn, lambda t: g.dominates(un, t))
        want = lin_expect({lentxt: 1, off: -1, "self.prefixLength": -1, lvar: -1}, 0)
        if not post:
            ctx.note("intn/complete-message-delivered: shape not recognised (no length guard between unpack and stringReceived), clause left to the /evaluated rules")
        for t, nf in post:
            for rule, msg in (("intn/complete-message-delivered", "a string whose last byte has arrived is not delivered until more data comes"),
                              ("intn/incomplete-message-waits", "a string is delivered although its last byte has not arrived")):
                ctx.check(nf == want, rule, ctx.construct(q, g.node(t).ast),
                          f"a string is delivered exactly when 'len(buffer) - offset - prefixLength - length >= 0'; the guard normalises to "
                          f"{sorted(nf[0]) if nf else None} >= {nf[1] if nf else None}: {msg}")
    else:
        ctx.note("intn/prefix-boundary, intn/complete-message-delivered: unpack() argument is not a slice buffer[offset:start]; clauses left to the /evaluated rules")
    ptests = [t.id for t in g.nodes if t.kind == "test" and g.reachable(t.id) and "self.paused" in src(resolve_locals(f, t.ast))]
    if ptests:
        ctx.check(implied(g, un, [{"self.paused": False}], [{"self.paused": True}]), "intn/pause-honoured", ctx.construct(q, ucall),
                  "a length prefix is decoded (and its string delivered) although the protocol is paused")
        for d in dn:
            w = g.path(succ_of(g, d, None), [un], avoid=ptests, edge_ok=lambda a, b, l: l != "exc")
            ctx.check(w is None, "intn/pause-honoured", ctx.construct(q, g.node(d).ast) + " | re-tested",
                      "after a string was handed to the application the loop goes on to the next one without testing self.paused again: a handler that calls "
                      "pauseProducing() still gets the strings that are already buffered", witness=g.describe(w))
    else:
        ctx.note("intn/pause-honoured: no test of self.paused recognised in dataReceived, clause left to intn/pause-honoured/evaluated")
    # second layer for (b), (c): dataReceived interpreted on concrete buffers, looking at what is delivered (bounded evidence; a failing run is a
    # genuine counterexample and the witness for the structural rules above)
    mod = ctx.mod(B)

    def delivered(cls_name, chunks, **attrs):
        try:
            return _deliver(mod, cls_name, attrs, chunks, resume=False)
        except VMError as e:
            raise AnalysisError(f"{cls_name}: construct outside the interpreter's subset: {e}")
        except (VMRaise, _NativeRaise) as e:
            return [("raised", repr(e)[:120])]

    msg = b"\x00\x05hello"
    for tail, label, want in ((msg[:-1], "prefix 2 + payload 5, one byte missing", []), (msg, "prefix 2 + payload 5, exactly complete", [("string", b"hello")]),
                              (msg + b"\x00", "prefix 2 + payload 5, one byte of the next prefix", [("string", b"hello")])):
        got = delivered("Int16StringReceiver", [tail])
        rule = "intn/incomplete-message-waits/evaluated" if not want else "intn/complete-message-delivered/evaluated"
        ctx.check(got == want, rule, q + f" | <{label}>",
                  ("a string is delivered (or refused) although its last byte has not arrived: " if not want else
                   "a string whose last byte has arrived is not delivered until more data comes (depends on segmentation): ") + f"delivered {got!r}")
    for cls_name, width in (("Int8StringReceiver", 1), ("Int16StringReceiver", 2), ("Int32StringReceiver", 4)):
        got = delivered(cls_name, [b"\x00" * width])
        ctx.check(got == [("string", b"")], "intn/prefix-boundary/evaluated", q + f" | <{width} zero bytes buffered, {width}-byte prefix>",
                  f"a complete length prefix (announcing an empty string) is not decoded until more data arrives: delivered {got!r}")
        if width > 1:
            got = delivered(cls_name, [b"\x00" * (width - 1)])
            ctx.check(got == [], "intn/prefix-boundary/evaluated", q + f" | <{width - 1} bytes buffered, {width}-byte prefix>",
                      f"a length prefix is decoded before all its bytes arrived: {got!r}")
    got = delivered("Int16StringReceiver", [b"\x00\x05PAUSE" + msg])      # the stand-in handler pauses on the string b"PAUSE"
    ctx.check(got == [("string", b"PAUSE")], "intn/pause-honoured/evaluated", q + " | <handler pauses inside a delivery>",
              f"after the handler called pauseProducing() the strings still buffered are delivered in the same dataReceived call: {got!r}")
    got = delivered("Int16StringReceiver", [msg + msg], paused=True)
    ctx.check(got == [], "intn/pause-honoured/evaluated", q + " | <paused>", f"strings are decoded and delivered although the protocol is paused: {got!r}")
    # (d) def-use chain of the slices
    def L(e):
        return local_def(f, e)
    sp = slice_parts(ucall.args[1]) if len(ucall.args) == 2 else None
    ok = False
    data_var = None
    if sp and isinstance(sp[0], ast.Name) and sp[1] is not None and sp[2] is not None:
        data_var = sp[0].id
        start_def = L(sp[2])
        ok = isinstance(start_def, ast.BinOp) and isinstance(start_def.op, ast.Add) and src(start_def.left) == src(sp[1]) \
            and src(L(start_def.right)) in ("self.prefixLength",)
    ctx.check(ok, "intn/slice-chain", ctx.construct(q, ucall),
              "the length prefix is not read from alldata[currentOffset : currentOffset + prefixLength]")
    fmt = src(L(ucall.args[0])) if ucall.args else ""
    ctx.check(fmt == "self.structFormat", "intn/format-agreement", ctx.construct(q, ucall) + " | format", "dataReceived does not unpack with self.structFormat")
    for n, call in deliver:
        a = call.args[0] if call.args else None
        pd = L(a) if a is not None else None
        psp = slice_parts(pd) if pd is not None else None
        ok = False
        end_name = None
        if psp and sp and src(psp[0]) == data_var and psp[1] is not None and psp[2] is not None and src(psp[1]) == src(sp[2]):
            end_def = L(psp[2])
            end_name = src(psp[2])
            ok = isinstance(end_def, ast.BinOp) and isinstance(end_def.op, ast.Add) and {src(end_def.left), src(end_def.right)} == {src(sp[2]), lvar}
        ctx.check(ok, "intn/slice-chain", ctx.construct(q, call),
                  "the payload handed to stringReceived is not alldata[messageStart : messageStart + length]")
        if end_name and sp:
            adv = [x.id for x in g.nodes if x.kind == "stmt" and g.reachable(x.id) and isinstance(x.ast, ast.Assign)
                   and any(src(t) == src(sp[1]) for t in x.ast.targets) and src(x.ast.value) == end_name]
            w = g.must_pass([un], adv, to=[n])
            ctx.check(bool(adv) and w is None, "intn/offset-advanced-before-callout", ctx.construct(q, call),
                      "the read offset is not moved past the message before stringReceived runs: a handler that calls pauseProducing() leaves the loop with the "
                      "old offset and the message is parsed and delivered again after resumeProducing()", witness=g.describe(w))
    if sp:
        off = src(sp[1])
        rem = [n for n in self_assigns(g, "_unprocessed") if (lambda s_: s_ and src(s_[0]) == data_var and s_[1] is not None and src(s_[1]) == off and s_[2] is None)(slice_parts(g.node(n).ast.value))]
        brk = [x.id for x in g.nodes if x.kind == "stmt" and g.reachable(x.id) and isinstance(x.ast, ast.Break)]
        w = g.must_pass(brk + succ_of(g, head, "F") if False else brk, rem) if brk else None
        ctx.check(bool(rem) and w is None, "intn/remainder-kept", q + " | <incomplete message>",
                  "when a message is incomplete the unparsed remainder alldata[currentOffset:] is not stored for the next delivery",
                  witness=g.describe(w))
    # sendString
    with ctx.section("IntNStringReceiver.sendString"):
        fs = _F(ctx, B, "IntNStringReceiver.sendString")
        gs = ctx.cfg(fs)
        qs = Q + "IntNStringReceiver.sendString"
        sparam = fs.args.args[1].arg
        wr = calls_with(gs, "self.transport.write")
        rz = _raises(gs, "StringTooLongError")
        ctx.need(wr, "transport.write in sendString")
        r_sl = _thr(ctx, gs, fs, "intn/send-limit", f"len({sparam})")
        for pl in (1, 2):
            lim = 2 ** (8 * pl)
            for n_, fits in ((lim - 1, True), (lim, False)):
                facts = {f"len({sparam})": n_, "self.prefixLength": pl}
                c = qs + f" | <{n_} bytes, prefixLength {pl}>"
                dec = (gs, facts, f"len({sparam})", None, ())
                R = reach_under(gs, facts)
                if fits:
                    w = must_pass_under(gs, facts, [n for n, _ in wr])
                    _bcheck(ctx, dec, w is None and not (R & set(rz)), r_sl, c, "a string whose length fits the prefix is refused", witness=gs.describe(w))
                else:
                    _bcheck(ctx, dec, not (R & {n for n, _ in wr}) and bool(R & set(rz)), r_sl, c,
                              "a string whose length does not fit the prefix is sent (the prefix wraps around / struct.error instead of StringTooLongError)")
        for n, call in wr:
            a = call.args[0] if call.args else None
            ok = False
            if isinstance(a, ast.BinOp) and isinstance(a.op, ast.Add) and src(a.right) == sparam and isinstance(a.left, ast.Call) and call_name(a.left) in ("pack", "struct.pack"):
                pa = a.left.args
                ok = len(pa) == 2 and src(pa[0]) == "self.structFormat" and src(resolve_locals(fs, pa[1])) == f"len({sparam})"
            ctx.check(ok, "intn/format-agreement", ctx.construct(qs, call),
                      "sendString does not write pack(self.structFormat, len(string)) followed by the string (receiver unpacks with self.structFormat)")
    with ctx.section("IntN concrete classes"):
        # concrete classes
        mod = ctx.mod(B)
        nsub = 0
        for cls in mod.classes():
            if "IntNStringReceiver" not in [getattr(b, "id", getattr(b, "attr", "")) for b in cls.bases]:
                continue
            ca = class_assigns(cls)
            qc = Q + cls.name
            nsub += 1
            try:
                fmt_v = peval(ca["structFormat"], {})
                pl = peval(ca["prefixLength"], {"structFormat": fmt_v})
            except (KeyError, NotConst):
                ctx.violation("intn/prefix-table", qc, "structFormat / prefixLength are not constants of the class")
                continue
            ok = isinstance(fmt_v, str) and pl == struct.calcsize(fmt_v)
            if ok:
                try:
                    top = struct.pack(fmt_v, 2 ** (8 * pl) - 1)
                    ok = top == b"\xff" * pl and struct.pack(fmt_v, 1) == b"\x00" * (pl - 1) + b"\x01"
                    try:
                        struct.pack(fmt_v, 2 ** (8 * pl))
                        ok = False
                    except struct.error:
                        pass
                except struct.error:
                    ok = False
            ctx.check(ok, "intn/prefix-table", qc,
                      f"structFormat {fmt_v!r} / prefixLength {pl!r}: the prefix must be an unsigned big-endian integer of exactly prefixLength bytes "
                      "(sendString admits lengths up to 2**(8*prefixLength)-1)")
        ctx.floor("intn/prefix-table", nsub, 3)
        fl = _F(ctx, B, "IntNStringReceiver.lengthLimitExceeded")
        ctx.check(any(call_name(c) == "self.transport.loseConnection" for c in walk_local(fl) if isinstance(c, ast.Call)), "intn/limit-closes",
                  Q + "IntNStringReceiver.lengthLimitExceeded", "the default lengthLimitExceeded does not close the connection")


def _netstring(ctx):
    cls = ctx.cls(B, "NetstringReceiver")
    ca = class_assigns(cls)
    with ctx.section("netstring length syntax"):
        # regexes
        for name, accept, reject in (
                ("_LENGTH", [b"0:", b"1:", b"9:x", b"10:", b"99999:", b"123456789:"], [b"00:", b"01:", b"+1:", b"-1:", b" 1:", b"1 :", b":", b"a:", b"1a:", b"1", b"", b"1.0:", b"0x1:"]),
                ("_LENGTH_PREFIX", [b"0", b"1", b"12", b"99999"], [b"00", b"01", b"1x", b"+1", b" 1", b"1:", b"", b"1 "])):
            pat = None
            v = ca.get(name)
            if isinstance(v, ast.Call) and call_name(v) in ("re.compile", "compile") and v.args and isinstance(v.args[0], ast.Constant):
                pat = v.args[0].value
            ctx.need(isinstance(pat, bytes), f"NetstringReceiver.{name} = re.compile(rb'...')")
            rx = re.compile(pat)
            bad = []
            for s_ in accept:
                m = rx.match(s_)
                digits = re.match(rb"\d+", s_).group(0)
                if not m or m.group(1) != digits or (name == "_LENGTH" and (m.end(2) != len(digits) + 1 or m.end(1) != len(digits))):
                    bad.append(("rejects", s_))
            for s_ in reject:
                if rx.match(s_):
                    bad.append(("accepts", s_))
            ctx.check(not bad, "netstring/length-syntax", Q + f"NetstringReceiver.{name}",
                      f"the length pattern {bad[:3]}: a netstring length is a canonical decimal (no sign, no leading zero) followed by ':'")
    with ctx.section("netstring _extractLength"):
        # _extractLength boundary
        f = _F(ctx, B, "NetstringReceiver._extractLength")
        g = ctx.cfg(f)
        q = Q + "NetstringReceiver._extractLength"
        p = f.args.args[1].arg
        rz = _raises(g, "NetstringParseError")
        r_nl = _thr(ctx, g, f, "netstring/limit-boundary", "length")
        # the digit-count pre-check may sit in this function (its helper written out in place): its limit is what _maxLengthSize() computes for M
        digits = None
        try:
            fm_ = _F(ctx, B, "NetstringReceiver._maxLengthSize")
            rm_ = [x for x in walk_local(fm_) if isinstance(x, ast.Return) and x.value is not None]
            if len(rm_) == 1:
                digits = peval(rm_[0].value, {"self.MAX_LENGTH": M})
        except Exception:  # noqa: BLE001 - no such method / not evaluable: the call stays an open test
            digits = None
        for L, ok_len in ((M - 1, True), (M, True), (M + 1, False)):
            facts = {p: str(L).encode(), "self.MAX_LENGTH": M}
            if digits is not None:
                facts["self._maxLengthSize()"] = digits
            c = q + f" | <length MAX_LENGTH{L - M:+d}>"
            dec = (g, facts, "length", None, ())
            R = reach_under(g, facts)
            if ok_len:
                _bcheck(ctx, dec, not (R & set(rz)) and g.exit in R, r_nl, c, "a netstring within MAX_LENGTH is refused")
            else:
                _bcheck(ctx, dec, bool(R & set(rz)) and g.exit not in R, r_nl, c, "a netstring longer than MAX_LENGTH is accepted")
        rets = [x for x in walk_local(f) if isinstance(x, ast.Return) and x.value is not None]
        ctx.check(len(rets) == 1 and test_value(ast.Compare(left=rets[0].value, ops=[ast.Eq()], comparators=[ast.Constant(7)]), {"length": 7, p: b"7"}) is True
                  if rets else False, "netstring/length-value", q, "_extractLength does not return the decimal value of the length field")
        # digit-count pre-check can never reject a length <= MAX_LENGTH
    with ctx.section("netstring digit pre-check"):
        # ---- ns digit
        fm = _F(ctx, B, "NetstringReceiver._maxLengthSize")
        rm = [x for x in walk_local(fm) if isinstance(x, ast.Return) and x.value is not None]
        ctx.need(len(rm) == 1, "single return in _maxLengthSize")
        # judged where the pre-check takes effect: _extractLength (its _checkStringSize helper expanded, or written out in place) must accept the
        # decimal representation of MAX_LENGTH itself for every magnitude of MAX_LENGTH
        fc = _wide(ctx, "NetstringReceiver._extractLength")
        gc = ctx.cfg(fc)
        pc = fc.args.args[1].arg
        rzc = _raises(gc, "NetstringParseError")
        where = Q + ("NetstringReceiver._checkStringSize" if _has_method(ctx, "NetstringReceiver", "_checkStringSize") else "NetstringReceiver._extractLength | <digit pre-check>")
        bad = []
        open_ = None
        for mx in (1, 2, 9, 10, 11, 99, 100, 101, 999, 1000, 99999, 100000, 10 ** 9, 12345678):
            try:
                size = peval(rm[0].value, {"self.MAX_LENGTH": mx})
            except NotConst as e:
                bad.append((mx, f"not evaluable: {e}"))
                continue
            facts = {pc: str(mx).encode(), "self.MAX_LENGTH": mx, "self._maxLengthSize()": size}
            und = undecided_tests(gc, facts)
            if und:
                open_ = src(gc.node(und[0]).ast)
                continue
            R = reach_under(gc, facts)
            if R & set(rzc) or gc.exit not in R:
                bad.append((mx, f"_maxLengthSize()={size} rejects the {len(str(mx))}-digit length {mx} == MAX_LENGTH"))
        if open_ is not None and not bad:
            ctx.note(f"netstring/digit-precheck: not decided, _extractLength also branches on {open_[:80]!r}; clause left to netstring/segmentation-invariant")
        else:
            ctx.check(not bad, "netstring/digit-precheck", where, f"the digit-count pre-check refuses a length that is <= MAX_LENGTH: {bad[:3]}")
        # _payloadComplete / _consumePayload / _extractPayload
    with ctx.section("netstring _payloadComplete"):
        # ---- ns payloadComplete
        fp = _F(ctx, B, "NetstringReceiver._payloadComplete")
        rp = [x for x in walk_local(fp) if isinstance(x, ast.Return) and x.value is not None]
        ctx.need(len(rp) == 1, "single return in _payloadComplete")
        tbl = []
        for r_, c_, e_, want in ((4, 3, 7, True), (3, 3, 7, False), (9, 3, 7, True), (0, 7, 7, True), (1, 0, 2, False)):
            v = test_value(resolve_locals(fp, rp[0].value), {"len(self._remainingData)": r_, "self._currentPayloadSize": c_, "self._expectedPayloadSize": e_})
            if v is not want:
                tbl.append((r_, c_, e_, v))
        ctx.check(not tbl, "netstring/payload-complete-boundary", Q + "NetstringReceiver._payloadComplete",
                  f"_payloadComplete is not 'buffered + already consumed >= expected' (remaining, current, expected, result): {tbl[:2]}")
    with ctx.section("netstring _extractPayload"):
        # The (loop-free) function is evaluated along its CFG for both outcomes of _payloadComplete() on concrete contents, and only its effects are
        # compared: the bytes appended to the payload, what stays in _remainingData, the size counter.  No statement shape is assumed (two branches
        # each doing the write, or a common tail driven by a count, are the same).
        # Judged on _consumePayload with its helpers expanded (the extraction may live in _extractPayload or be written out in place); the effects
        # are read where the extraction is over: at the hand-over / the comma error when the payload completed, at the IncompleteNetstring otherwise.
        fx = _wide(ctx, "NetstringReceiver._consumePayload")
        gx = ctx.cfg(fx)
        qx = Q + ("NetstringReceiver._extractPayload" if _has_method(ctx, "NetstringReceiver", "_extractPayload") else "NetstringReceiver._consumePayload | <payload extraction>")
        wr = calls_with(gx, "self._payload.write")
        ctx.need(wr, "self._payload.write in _consumePayload / _extractPayload")
        over = sorted(set(_raises(gx, "IncompleteNetstring") + _raises(gx, "NetstringParseError") + call_nodes(gx, "self.stringReceived") + [gx.exit]))
        for complete, remaining, lab in ((True, b"0123456789abcd", "payload completes, 7 of 14 buffered bytes are missing"),
                                         (True, b"0123456", "payload completes exactly"), (False, b"0123", "payload still incomplete")):
            facts = {"self._payloadComplete()": complete, "self._expectedPayloadSize": 10, "self._currentPayloadSize": 3, "self._remainingData": remaining,
                     "len(self._remainingData)": len(remaining)}
            c0 = qx + f" | <{lab}>"
            want_written = remaining[:7] if complete else remaining
            want_rest = remaining[7:] if complete else b""
            want_size = 10 if complete else 3 + len(remaining)
            written = []
            for n, call in wr:
                for f_ in facts_at(gx, facts, [n]):
                    try:
                        written.append(peval(call.args[0], f_))
                    except NotConst:
                        written.append("<not determined>")
            first_over = [n_ for n_ in over if not any(gx.path([m_], [n_], strict=True, edge_ok=lambda a_, b_, l_: l_ != "exc") for m_ in over if m_ != n_)] or over
            ends = facts_at(gx, facts, first_over)
            rests = sorted({repr(e_.get("self._remainingData", "<not determined>")) for e_ in ends})
            sizes = sorted({repr(e_.get("self._currentPayloadSize", "<not determined>")) for e_ in ends})
            if "<not determined>" in written or any("not determined" in x for x in rests + sizes) or not ends:
                ctx.note(f"netstring/payload-split: effects of _extractPayload not determined by evaluation ({lab}); clause left to netstring/segmentation-invariant")
                continue
            ctx.check(written == [want_written], "netstring/payload-split", c0,
                      f"the bytes appended to the payload are {written!r}, not exactly the missing 'expected - current' bytes {want_written!r} "
                      "(bytes of the next netstring are swallowed or payload bytes are left behind when the payload arrives in pieces)")
            ctx.check(rests == [repr(want_rest)], "netstring/payload-split", c0 + " | rest", f"_remainingData afterwards is {rests}, expected {want_rest!r}")
            ctx.check(sizes == [repr(want_size)], "netstring/payload-split", c0 + " | size", f"_currentPayloadSize afterwards is {sizes}, expected {want_size}")
    with ctx.section("netstring _consumePayload"):
        # ---- ns consumePayload
        # judged on _consumePayload with its helpers expanded, from the point where the arriving bytes have been added to the payload (whatever does
        # that: _extractPayload or code written out in place), in two scenarios: the payload completes / one more byte is missing
        qcp = Q + "NetstringReceiver._consumePayload"
        gw = ctx.cfg(_wide(ctx, "NetstringReceiver._consumePayload"))
        wrw = calls_with(gw, "self._payload.write")
        dl = calls_with(gw, "self.stringReceived")
        proc = [n for n, _ in dl]
        inc = _raises(gw, "IncompleteNetstring")
        rzw = _raises(gw, "NetstringParseError")
        ctx.need(wrw and proc, "payload write and stringReceived hand-over in _consumePayload (helpers expanded)")

        def starts(scn):
            out = []
            for n_, _c in wrw:
                for fa in facts_at(gw, scn, [n_]):
                    ss = succ_of(gw, n_, None)
                    if ss:
                        out.append((ss, fa))
            return out
        done = starts({"self._payloadComplete()": True, "self._expectedPayloadSize": 3, "self._currentPayloadSize": 1, "self._remainingData": b"b,XY", "len(self._remainingData)": 4})
        short = starts({"self._payloadComplete()": False, "self._expectedPayloadSize": 5, "self._currentPayloadSize": 1, "self._remainingData": b"bc", "len(self._remainingData)": 2})
        st_reset = self_assigns(gw, "_state", lambda v: src(v) == "self._PARSING_LENGTH")
        if not done or not short:
            ctx.note("netstring/complete-message-delivered, netstring/incomplete-message-waits, netstring/comma-checked: the payload write of _consumePayload is not "
                     "reached in the evaluated scenarios; clauses left to netstring/reference-framing and netstring/segmentation-invariant")
        for ss, fa in done:
            good = dict(fa, **{"self._payload.getvalue()": b"ab,"})
            w = must_pass_under(gw, good, proc, srcs=ss)
            ctx.check(w is None, "netstring/complete-message-delivered", qcp + " | <payload complete>",
                      "a netstring whose last byte (the comma) has arrived is not delivered until more data comes", witness=gw.describe(w))
            w = must_pass_under(gw, good, st_reset, srcs=ss)
            ctx.check(bool(st_reset) and w is None, "netstring/state-reset", qcp + " | <payload complete>",
                      "the parser does not return to the length state after a complete payload", witness=gw.describe(w))
            bad = dict(fa, **{"self._payload.getvalue()": b"abc"})
            Rb = reach_under(gw, bad, srcs=ss)
            ctx.check(not (Rb & set(proc)) and bool(Rb & set(rzw)) and gw.exit not in Rb, "netstring/comma-checked", qcp + " | <payload not followed by a comma>",
                      "the payload is delivered without checking the terminating comma (or a missing comma is not a NetstringParseError)",
                      witness=gw.describe(path_under(gw, bad, proc, srcs=ss)))
            Rg = reach_under(gw, good, srcs=ss)
            ctx.check(not (Rg & set(rzw)), "netstring/comma-checked", qcp + " | <payload followed by a comma>", "a correctly terminated payload is refused")
            handed = []
            for n_, c_ in dl:
                for f2 in facts_at(gw, good, [n_], srcs=ss):
                    try:
                        handed.append(peval(c_.args[0], f2) if c_.args else None)
                    except NotConst:
                        handed.append(NotConst)
            if any(v is NotConst for v in handed):
                ctx.note("netstring/payload-without-comma: the argument of stringReceived could not be evaluated; clause left to netstring/reference-framing")
            else:
                ctx.check(handed == [b"ab"], "netstring/payload-without-comma", qcp + " | <hand-over>",
                          f"for the buffered payload b'ab,' stringReceived gets {handed!r}, not exactly the payload without the trailing comma")
        for ss, fa in short:
            R = reach_under(gw, fa, srcs=ss)
            ctx.check(not (R & set(proc)) and bool(R & set(inc)), "netstring/incomplete-message-waits", qcp + " | <one byte missing>",
                      "a netstring is delivered (or rejected) before its last byte arrived")
    with ctx.section("netstring _processLength"):
        # ---- ns processLength
        fpl = _wide(ctx, "NetstringReceiver._consumeLength")       # _processLength expanded, or its code written out in place
        sets = [resolve_locals(fpl, x.value) for x in walk_local(fpl) if isinstance(x, ast.Assign) and src(x.targets[0]) == "self._expectedPayloadSize"]
        if not sets:
            ctx.note("netstring/expected-size: no assignment of _expectedPayloadSize recognised in _processLength; clause left to netstring/segmentation-invariant")
        for v in sets:
            calls_ = [c for c in ast.walk(v) if isinstance(c, ast.Call) and call_name(c) == "self._extractLength"]
            val = None
            if len(calls_) == 1:
                try:
                    val = peval(v, {src(calls_[0]): 41})
                except NotConst:
                    val = None
            ctx.check(val == 42, "netstring/expected-size", Q + ("NetstringReceiver._processLength" if _has_method(ctx, "NetstringReceiver", "_processLength") else "NetstringReceiver._consumeLength | <length stored>"),
                      "the expected payload size is not 'announced length + 1' (payload and comma)" + (f": evaluates to {val} for an announced length of 41" if val is not None else ""))
    with ctx.section("netstring dataReceived"):
        # dataReceived: errors close, incomplete waits
        fd = _F(ctx, B, "NetstringReceiver.dataReceived")
        gd = ctx.cfg(fd)
        qd = Q + "NetstringReceiver.dataReceived"
        dparam = fd.args.args[1].arg
        app = [n.id for n in gd.nodes if n.kind == "stmt" and gd.reachable(n.id) and _appends_param(n.ast, "_remainingData", dparam)]
        cons = call_nodes(gd, "self._consumeData")
        ctx.need(cons, "self._consumeData() in NetstringReceiver.dataReceived")
        ctx.check(bool(app) and all(gd.must_precede(app, [c]) is None for c in cons), "netstring/buffer-order", qd,
                  "new data is not appended to _remainingData (old bytes first) before parsing")
        for cnode in cons:
            hs = [h for h in succ_of(gd, cnode, "exc") if gd.node(h).kind == "handler"]
            perr = [h for h in hs if "NetstringParseError" in src(gd.node(h).ast.type)]
            incs = [h for h in hs if "IncompleteNetstring" in src(gd.node(h).ast.type)]
            hp = call_nodes(gd, "self._handleParseError")
            ctx.check(bool(perr), "netstring/parse-error-closes", qd + " | handler", "NetstringParseError is not handled in dataReceived")
            for h in perr:
                w = gd.must_pass([h], hp)
                ctx.check(bool(hp) and w is None, "netstring/parse-error-closes", qd + " | except NetstringParseError",
                          "an illegal netstring does not lead to _handleParseError() (connection stays open)", witness=gd.describe(w))
                back = gd.path([h], cons, strict=True, edge_ok=lambda a, b, l: l != "exc")
                ctx.check(back is None, "netstring/parse-error-stops", qd + " | except NetstringParseError", "parsing goes on after a parse error", witness=gd.describe(back))
            for h in incs:
                ctx.check(not (set(gd.reach([h], edge_ok=lambda a, b, l: l != "exc")) & set(hp)) and gd.path([h], cons, strict=True, edge_ok=lambda a, b, l: l != "exc") is None,
                          "netstring/incomplete-waits", qd + " | except IncompleteNetstring", "an incomplete netstring is treated as an error or spins instead of waiting for more data")
            ctx.check(bool(incs), "netstring/incomplete-waits", qd + " | handler", "IncompleteNetstring is not handled in dataReceived")
        fh = _F(ctx, B, "NetstringReceiver._handleParseError")
        ctx.check(any(call_name(c) == "self.transport.loseConnection" for c in walk_local(fh) if isinstance(c, ast.Call)), "netstring/parse-error-closes",
                  Q + "NetstringReceiver._handleParseError", "_handleParseError does not close the connection")
    with ctx.section("netstring payload state reset"):
        # ---- ns prepare
        # judged in _consumeData, where the parser moves from the length to the payload (the preparation helper expanded or written out in place)
        fpr = _wide(ctx, "NetstringReceiver._consumeData")
        gpr = ctx.cfg(fpr)
        where = Q + ("NetstringReceiver._prepareForPayloadConsumption" if _has_method(ctx, "NetstringReceiver", "_prepareForPayloadConsumption") else "NetstringReceiver._consumeData | <payload begins>")
        to_payload = self_assigns(gpr, "_state", lambda v: src(v) == "self._PARSING_PAYLOAD")
        need = [self_assigns(gpr, "_currentPayloadSize", lambda v: const_value_is(v, lambda x: x == 0 and x is not False)), call_nodes(gpr, "self._payload.truncate")]
        if not to_payload:
            ctx.note("netstring/payload-state-reset: no 'self._state = self._PARSING_PAYLOAD' in _consumeData (helpers expanded); clause left to netstring/segmentation-invariant")
        else:
            consume = call_nodes(gpr, "self._consumePayload")
            ok = True
            for sp_ in to_payload:
                for ns in need:
                    before = bool(ns) and gpr.must_precede(ns, [sp_]) is None
                    after_ = bool(ns) and bool(succ_of(gpr, sp_, None)) and gpr.must_pass(succ_of(gpr, sp_, None), ns, to=[gpr.exit] + consume) is None
                    ok = ok and (before or after_)
            ctx.check(ok, "netstring/payload-state-reset", where,
                      "before a new payload the state, the size counter and the payload buffer are not all reset (the previous message leaks into the next)")
    with ctx.section("netstring writer"):
        # writer
        ff = _F(ctx, B, "_formatNetstring")
        rf = [x for x in walk_local(ff) if isinstance(x, ast.Return) and x.value is not None]
        ctx.need(len(rf) == 1, "single return in _formatNetstring")
        pw = ff.args.args[0].arg
        badw = []
        for sample in (b"", b"abc", b"0123456789ab", b",:,"):
            try:
                v = peval(rf[0].value, {pw: sample})
            except NotConst as e:
                v = f"<not evaluable: {e}>"
            if v != str(len(sample)).encode() + b":" + sample + b",":
                badw.append((sample, v))
        ctx.check(not badw, "netstring/writer-format", Q + "_formatNetstring", f"_formatNetstring does not produce '<decimal length>:<data>,': {badw[:2]}")
        fs = _F(ctx, B, "NetstringReceiver.sendString")
        sp_ = fs.args.args[1].arg
        ctx.check(any(call_name(c) == "self.transport.write" and c.args and src(c.args[0]) == f"_formatNetstring({sp_})" for c in walk_local(fs) if isinstance(c, ast.Call)),
                  "netstring/writer-format", Q + "NetstringReceiver.sendString", "sendString does not write _formatNetstring(string)")


# ---- segmentation invariance: dataReceived as a step function over a sequence of deliveries ----------------------------------------

class _Transport(VMStub):
    def __init__(self, ev):
        self.ev = ev
        self.disconnecting = False

    def loseConnection(self):
        self.ev.append(("close",))
        self.disconnecting = True

    def write(self, data):
        pass

    def writeSequence(self, seq):
        pass

    def pauseProducing(self):
        pass

    def resumeProducing(self):
        pass

    def stopProducing(self):
        pass


def _deliver(mod, cls_name, attrs, chunks, resume=True):
    """Interpret ``cls_name`` of protocols/basic.py on a sequence of deliveries; the object's attributes (whatever they are
    called) are carried from one dataReceived call to the next.  Returns the normalised event trace."""
    ev = []

    def line_received(vm, o, line):
        if o.attrs.get("paused"):
            ev.append(("delivered-while-paused", line))
        ev.append(("line", line))
        if line == b"RAW":
            vm.call_method(o, "setRawMode")
        elif line == b"PAUSE":
            vm.call_method(o, "pauseProducing")

    def raw_received(vm, o, data):
        if b"!" in data:
            head, rest = data.split(b"!", 1)
            ev.append(("raw", head))
            return vm.call_method(o, "setLineMode", rest)
        ev.append(("raw", data))

    def exceeded(name):
        def hook(vm, o, arg):
            ev.append(("exceeded",))
            return vm.call_method(o, name, arg, skip_hook=True)
        return hook

    def string_received(vm, o, s_):
        if o.attrs.get("paused"):
            ev.append(("delivered-while-paused", s_))
        ev.append(("string", s_))
        if s_ == b"PAUSE":
            vm.call_method(o, "pauseProducing")

    vm = MiniVM(mod, hooks={"stringReceived": string_received, "lineReceived": line_received,
                            "rawDataReceived": raw_received, "lineLengthExceeded": exceeded("lineLengthExceeded"),
                            "lengthLimitExceeded": exceeded("lengthLimitExceeded")})
    o = vm.new(vm.cls(cls_name))
    tr = _Transport(ev)
    o.attrs["transport"] = tr
    o.attrs["connected"] = 1
    if vm.cls(cls_name).find("makeConnection"):
        vm.call_method(o, "makeConnection", tr)
        o.attrs["transport"] = tr
    o.attrs.update(attrs)
    for c in chunks:
        if tr.disconnecting:
            break                      # "up to the first close request"
        vm.call_method(o, "dataReceived", c)
        if resume and o.attrs.get("paused"):     # the application resumes between deliveries
            vm.call_method(o, "resumeProducing")
    out = []
    for e in ev:
        if e[0] == "raw" and out and out[-1][0] == "raw":
            out[-1] = ("raw", out[-1][1] + e[1])
        elif e[0] == "raw" and not e[1]:
            continue
        else:
            out.append(e)
        if e[0] == "close":
            break
    return out


def _ref_intn(width, maxlen):
    def ref(stream):
        out, i = [], 0
        while len(stream) - i >= width:
            n = int.from_bytes(stream[i:i + width], "big")
            if n > maxlen:
                return out + [("exceeded",), ("close",)]
            if len(stream) - i - width < n:
                break
            out.append(("string", stream[i + width:i + width + n]))
            i += width + n
        return out
    return ref


def _ref_lines(maxlen, delim=b"\r\n"):
    def ref(stream):
        out = []
        parts = stream.split(delim)
        for ln in parts[:-1]:
            if len(ln) > maxlen:
                return out + [("exceeded",), ("close",)]
            out.append(("line", ln))
        if len(parts[-1]) >= maxlen + len(delim):
            out += [("exceeded",), ("close",)]
        return out
    return ref


def _ref_netstring(maxlen):
    def ref(stream):
        out, i = [], 0
        while i < len(stream):
            j = i
            while j < len(stream) and stream[j:j + 1].isdigit():
                j += 1
            digits = stream[i:j]
            if not digits or (len(digits) > 1 and digits[:1] == b"0") or (j < len(stream) and stream[j:j + 1] != b":"):
                return out + [("close",)]
            if int(digits) > maxlen:
                return out + [("close",)]
            if j >= len(stream):
                break
            n = int(digits)
            if len(stream) < j + 1 + n + 1:
                break
            if stream[j + 1 + n:j + 2 + n] != b",":
                return out + [("close",)]
            out.append(("string", stream[j + 1:j + 1 + n]))
            i = j + 2 + n
        return out
    return ref


_SEG_CASES = [
    # (rule prefix, label, class, instance attributes, stream, reference framing or None)
    ("intn", "Int8 strings ab,'',xyz", "Int8StringReceiver", {}, b"\x02ab\x00\x03xyz", _ref_intn(1, 99999)),
    ("intn", "Int16 strings ab,'',xyz", "Int16StringReceiver", {}, b"\x00\x02ab\x00\x00\x00\x03xyz", _ref_intn(2, 99999)),
    ("intn", "Int32 strings ab,'',xyz", "Int32StringReceiver", {}, b"\x00\x00\x00\x02ab\x00\x00\x00\x00\x00\x00\x00\x03xyz", _ref_intn(4, 99999)),
    ("intn", "Int16 strings abcd,e,fgh,''", "Int16StringReceiver", {}, b"\x00\x04abcd\x00\x01e\x00\x03fgh\x00\x00", _ref_intn(2, 99999)),
    ("intn", "Int16 strings a,PAUSE,bc,d with pause inside a delivery", "Int16StringReceiver", {}, b"\x00\x01a\x00\x05PAUSE\x00\x02bc\x00\x01d", _ref_intn(2, 99999)),
    ("intn", "Int8 with an over-long string (MAX_LENGTH=5)", "Int8StringReceiver", {"MAX_LENGTH": 5}, b"\x02ab\x07toolong\x01z", _ref_intn(1, 5)),
    ("line-only", "lines ab,cde,'',x (MAX_LENGTH=5)", "LineOnlyReceiver", {"MAX_LENGTH": 5}, b"ab\r\ncde\r\n\r\nx\r\n", _ref_lines(5)),
    ("line-only", "line of exactly MAX_LENGTH=5 then more", "LineOnlyReceiver", {"MAX_LENGTH": 5}, b"abcde\r\nfg\r\n", _ref_lines(5)),
    ("line", "lines ab,cde,'',x (MAX_LENGTH=5)", "LineReceiver", {"MAX_LENGTH": 5}, b"ab\r\ncde\r\n\r\nx\r\n", _ref_lines(5)),
    ("line", "line of exactly MAX_LENGTH=5 then more", "LineReceiver", {"MAX_LENGTH": 5}, b"abcde\r\nfg\r\n", _ref_lines(5)),
    ("line", "raw mode switch and setLineMode(extra)", "LineReceiver", {}, b"ab\r\nRAW\r\nxy!cd\r\ne\r\n", None),
    ("line", "pause inside a delivery, resume afterwards", "LineReceiver", {}, b"a\r\nPAUSE\r\nbc\r\nd\r\n", None),
    ("netstring", "netstrings ab,'',xyz", "NetstringReceiver", {}, b"2:ab,0:,3:xyz,", _ref_netstring(99999)),
    ("netstring", "netstring of 12 bytes", "NetstringReceiver", {}, b"1:a,12:abcdefghijkl,", _ref_netstring(99999)),
    ("netstring", "invalid netstring after a valid one", "NetstringReceiver", {}, b"2:ab,x3:abc,", _ref_netstring(99999)),
    ("netstring", "over-long netstring (MAX_LENGTH=5)", "NetstringReceiver", {"MAX_LENGTH": 5}, b"2:ab,7:toolong,1:z,", _ref_netstring(5)),
]


def _splits(n, three_way):
    for i in range(1, n):
        yield (i,)
    if three_way:
        for i in range(1, n):
            for j in range(i + 1, n):
                yield (i, j)


def _segmentation(ctx):
    mod = ctx.mod(B)
    total = 0
    for prefix, label, cls_name, attrs, stream, ref in _SEG_CASES:
        with ctx.section(f"segmentation {cls_name}: {label}"):
            c = Q + f"{cls_name}.dataReceived | <{label}>"
            try:
                whole = _deliver(mod, cls_name, attrs, [stream])
                if ref is not None:
                    want = ref(stream)
                    ctx.check(whole == want, prefix + "/reference-framing", c,
                              f"delivered at once, the stream {stream!r} yields {whole!r}; the reference framing is {want!r}")
                three = ctx.tier == "thorough" or len(stream) <= 14
                bad = None
                nruns = 0
                for cuts in _splits(len(stream), three):
                    pts = (0,) + cuts + (len(stream),)
                    chunks = [stream[a:b] for a, b in zip(pts, pts[1:])]
                    got = _deliver(mod, cls_name, attrs, chunks)
                    nruns += 1
                    if got != whole:
                        bad = (chunks, got)
                        break
                total += nruns
            except VMError as e:
                raise AnalysisError(f"{cls_name}: construct outside the interpreter's subset: {e}")
            except (VMRaise, _NativeRaise) as e:
                ctx.violation(prefix + "/segmentation-invariant", c, f"interpreting {cls_name}.dataReceived on {stream!r} raises {e}")
                continue
            ctx.check(bad is None, prefix + "/segmentation-invariant", c,
                      "the events delivered depend on how the byte stream is cut into dataReceived calls: "
                      + (f"delivered as {bad[0]!r} -> {bad[1]!r}, delivered at once -> {whole!r}" if bad else ""),
                      detail=f"{nruns} segmentations agree with whole-stream delivery")
    ctx.extra["segmentations_evaluated"] = total


# ---- exactly-once when the application call-out re-enters dataReceived or raises ------------------------------------------------------

_REENTRY_CASES = [
    # (rule prefix, construct class, interpreted class, first segment = exactly one message, the rest, expected messages)
    ("intn", "IntNStringReceiver", "Int16StringReceiver", b"\x00\x02ab", b"\x00\x01c\x00\x00", [b"ab", b"c", b""]),
    ("line-only", "LineOnlyReceiver", "LineOnlyReceiver", b"ab\r\n", b"c\r\n\r\n", [b"ab", b"c", b""]),
    ("line", "LineReceiver", "LineReceiver", b"ab\r\n", b"c\r\n\r\n", [b"ab", b"c", b""]),
    ("netstring", "NetstringReceiver", "NetstringReceiver", b"2:ab,", b"1:c,0:,", [b"ab", b"c", b""]),
]


def _deliver_hostile(mod, cls_name, chunks, mode, rest=b""):
    """Sequential delivery of ``chunks`` with a stand-in message handler that, on its first call:
    'plain' does nothing; 'pause-resume-now' calls self.pauseProducing() and at once self.resumeProducing() (which re-runs
    dataReceived(b"") from inside the handler); 'pause-resume-later' calls self.pauseProducing() and the application resumes after the
    delivery returned; 'reenter' calls dataReceived(rest) itself; 'raise' raises once (``rest`` is delivered afterwards)."""
    got = []
    state = {"fired": False}

    def on_message(vm, o, msg):
        got.append(msg)
        if not state["fired"]:
            state["fired"] = True
            if mode == "reenter":
                vm.call_method(o, "dataReceived", rest)
            elif mode == "raise":
                raise RuntimeError("handler failed once")
            elif mode.startswith("pause"):
                vm.call_method(o, "pauseProducing")
                if mode == "pause-resume-now":
                    vm.call_method(o, "resumeProducing")

    vm = MiniVM(mod, hooks={"stringReceived": on_message, "lineReceived": on_message})
    o = vm.new(vm.cls(cls_name))
    tr = _Transport([])
    o.attrs["transport"] = tr
    o.attrs["connected"] = 1
    if vm.cls(cls_name).find("makeConnection"):
        vm.call_method(o, "makeConnection", tr)
        o.attrs["transport"] = tr
    for c in chunks:
        try:
            vm.call_method(o, "dataReceived", c)
        except _NativeRaise as e:
            if not (mode == "raise" and isinstance(e.native, RuntimeError)):
                got.append(("dataReceived raised", type(e.native).__name__))
                return got
        except VMRaise as e:
            got.append(("dataReceived raised", e.exc.names()[0]))
            return got
        if o.attrs.get("paused"):
            vm.call_method(o, "resumeProducing")
    if mode == "raise":
        vm.call_method(o, "dataReceived", rest)
    return got


def _reentrancy(ctx):
    """The statement quantifies over streams cut into *successive* deliveries, with pause/resume and mode switches where supported.
    Armed here: what the statement names - a handler that pauses (and resumes, at once or later; resumeProducing re-runs
    dataReceived) - for the receivers with _PauseableMixin, where it holds today; and re-entrant dataReceived for LineReceiver, whose
    code documents and supports it (_busyReceiving).  A handler that itself calls dataReceived on the other receivers, or that raises,
    is outside the statement: evaluated and reported as notes only."""
    mod = ctx.mod(B)
    armed = {("line", "reenter"): "line/exactly-once-under-reentrancy",
             ("line", "pause-resume-now"): "line/pause-resume-inside-handler", ("line", "pause-resume-later"): "line/pause-resume-inside-handler",
             ("intn", "pause-resume-later"): "intn/pause-inside-handler-resume-later",
             ("intn", "pause-resume-now"): "intn/pause-resume-inside-handler"}     # finding F16p, fixed in 5bfefbe
    describe = {"reenter": "the handler of the first message calls dataReceived with the following bytes",
                "raise": "the handler of the first message raises once, the following bytes are delivered afterwards",
                "pause-resume-now": "the handler of the first message calls pauseProducing() and at once resumeProducing()",
                "pause-resume-later": "the handler of the first message calls pauseProducing(), the application resumes after the delivery"}
    for prefix, ccls, cls_name, first, rest, want in _REENTRY_CASES:
        with ctx.section(f"exactly-once {cls_name}"):
            try:
                plain = _deliver_hostile(mod, cls_name, [first, rest], "plain")
                ctx.need(plain == want, f"sequential delivery of the {cls_name} sample gives the expected messages (got {plain!r})")
                pausable = vm_has_pause = bool(MiniVM(mod).cls(cls_name).find("pauseProducing"))
                for mode in ("pause-resume-now", "pause-resume-later", "reenter", "raise"):
                    if mode.startswith("pause") and not pausable:
                        continue
                    runs = [("in two deliveries", [first, rest])]
                    if mode.startswith("pause"):
                        runs.append(("in one delivery", [first + rest]))
                    if mode in ("reenter", "raise"):
                        runs = [("first message alone", [first])]
                    for how, chunks in runs:
                        got = _deliver_hostile(mod, cls_name, chunks, mode, rest=rest)
                        rule = armed.get((prefix, mode))
                        c = Q + f"{ccls}.dataReceived | <{describe[mode]}; {how}>"
                        if rule:
                            ctx.check(got == want, rule, c,
                                      f"{cls_name}: when {describe[mode]} ({how}), the application receives {got!r} instead of {want!r}: the parser had not "
                                      "consumed the message (buffer / offset / state) before handing it out, so the dataReceived run triggered from the "
                                      "handler sees it again or loses data")
                        else:
                            ctx.note(f"not armed (outside the statement, or not holding on today's tree): {cls_name}, {describe[mode]} ({how}): "
                                     f"delivered {got!r}, sequential delivery gives {want!r}" + ("" if got == want else "  <-- differs"))
            except VMError as e:
                raise AnalysisError(f"{cls_name}: construct outside the interpreter's subset: {e}")
            except (VMRaise, _NativeRaise) as e:
                ctx.note(f"hostile-handler evaluation of {cls_name} raised {e}")
    # structural counterpart for the netstring state machine: state (and buffer) consumed before the call-out, one helper level deep
    with ctx.section("netstring state before call-out"):
        cls = ctx.cls(B, "NetstringReceiver")
        from sa.source import methods as _methods
        helpers = {n for n, m in _methods(cls).items() if any(isinstance(c, ast.Call) and call_name(c) == "self.stringReceived" for c in walk_local(m))}
        f = _wide(ctx, "NetstringReceiver._consumePayload")
        g = ctx.cfg(f)
        q = Q + "NetstringReceiver._consumePayload"
        helpers -= _OPTIONAL_HELPERS | {"_consumePayload"}
        outs = call_nodes(g, "self.stringReceived", *[f"self.{h}" for h in sorted(helpers)])
        ctx.need(outs, "call-out (stringReceived, directly or through one helper) in _consumePayload")
        resets = self_assigns(g, "_state", lambda v: src(v) == "self._PARSING_LENGTH")
        # what takes the payload bytes out of the unconsumed data: the re-binding of _remainingData (in _extractPayload or written out in place)
        ext = self_assigns(g, "_remainingData")
        for n in outs:
            c = ctx.construct(q, g.node(n).ast)
            w = g.must_precede(resets, [n])
            ctx.check(bool(resets) and w is None, "netstring/state-consumed-before-callout", c,
                      "stringReceived runs while the parser is still in the payload state with the complete payload buffered: the parser must have consumed "
                      "the message before handing it out - any dataReceived run started from inside the handler (the mechanism behind resume-from-handler "
                      "in the pausable receivers) would deliver the same string again", witness=g.describe(w))
            w = g.must_precede(ext, [n])
            ctx.check(bool(ext) and w is None, "netstring/state-consumed-before-callout", c + " | buffer",
                      "the payload bytes are not removed from _remainingData before stringReceived runs", witness=g.describe(w))


def _stale_derived(ctx):
    """Structural: every quantity the parsing loop reads about a buffer (a cached length, an offset, a slice) is re-derived from the buffer
    that is current at that point.  For each local V assigned from an expression that mentions another local X: a use of V that can be reached
    from a re-binding of X without passing an assignment to V reads a value derived from the OLD X."""
    for cls_name, meth in (("IntNStringReceiver", "dataReceived"), ("LineReceiver", "dataReceived"), ("LineOnlyReceiver", "dataReceived"),
                           ("NetstringReceiver", "dataReceived"), ("NetstringReceiver", "_extractPayload"), ("NetstringReceiver", "_processLength")):
        with ctx.section(f"stale derived values {cls_name}.{meth}"):
            if meth in _OPTIONAL_HELPERS and not _has_method(ctx, cls_name, meth):
                continue            # the helper was written out in its caller
            f = _F(ctx, B, f"{cls_name}.{meth}")
            g = ctx.cfg(f)
            q = Q + f"{cls_name}.{meth}"
            defs = {}      # local name -> [(node id, rhs)]
            for n in g.nodes:
                if n.kind == "stmt" and g.reachable(n.id) and isinstance(n.ast, (ast.Assign, ast.AugAssign, ast.AnnAssign)):
                    tg = n.ast.targets if isinstance(n.ast, ast.Assign) else [n.ast.target]
                    for t in tg:
                        for e in (t.elts if isinstance(t, (ast.Tuple, ast.List)) else [t]):
                            if isinstance(e, ast.Name):
                                defs.setdefault(e.id, []).append((n.id, n.ast.value))
                elif n.kind == "for" and isinstance(n.ast.target, ast.Name):
                    defs.setdefault(n.ast.target.id, []).append((n.id, n.ast.iter))
            nchecked = 0
            for v, vdefs in defs.items():
                sources = set()
                for _, rhs in vdefs:
                    sources |= {x.id for x in ast.walk(rhs) if isinstance(x, ast.Name) and isinstance(x.ctx, ast.Load) and x.id in defs and x.id != v}
                vdef_nodes = [n for n, _ in vdefs]
                uses = [n.id for n in g.nodes if n.ast is not None and g.reachable(n.id) and n.kind in ("stmt", "test", "for")
                        and any(isinstance(x, ast.Name) and x.id == v and isinstance(x.ctx, ast.Load) for x in walk_local(n.ast if n.kind != "for" else n.ast.iter))]
                for x in sorted(sources):
                    rebinds = [n for n, _ in defs[x]]
                    if len(rebinds) < 2:
                        continue              # X is bound once: V can never outlive it
                    nchecked += 1
                    for r in rebinds:
                        if r in vdef_nodes:
                            continue          # X and V are assigned by the same statement
                        starts = [s_ for s_ in succ_of(g, r, None) + succ_of(g, r, "iter") if s_ not in vdef_nodes]
                        w = g.path(starts, [u for u in uses if u != r], avoid=vdef_nodes, edge_ok=lambda a, b, l: l != "exc") if starts else None
                        # a use that is itself the statement re-deriving V from the new X is fine (covered by avoid); the path must not start in r's own use
                        ctx.check(w is None, "stale/derived-value-after-rebinding", ctx.construct(q, g.node(r).ast) + f" | {v} derived from {x}",
                                  f"'{v}' is computed from '{x}', '{x}' is re-bound here, and '{v}' is then used without being recomputed: the parser works with "
                                  f"a length / offset / slice of the PREVIOUS buffer (struct.error, a truncated or a duplicated message)", witness=g.describe(w))
            ctx.extra.setdefault("stale_pairs_checked", 0)
            ctx.extra["stale_pairs_checked"] += nchecked


def g_before(g, x, others):
    """x happens before every node of ``others`` that is reachable together with it."""
    return all(g.path([o], [x], strict=True, edge_ok=lambda a, b, l: l != "exc") is None for o in others)


def check(ctx):
    from sa.props._lib_d import Guarded
    _check(Guarded(ctx, RULE_KINDS))


def _check(ctx):
    for name, fn in (("LineOnlyReceiver", _line_only), ("LineReceiver", _line_receiver), ("IntNStringReceiver", _intn), ("NetstringReceiver", _netstring)):
        with ctx.section(name):
            fn(ctx)
    _segmentation(ctx)
    _reentrancy(ctx)
    _stale_derived(ctx)


_LO = "        if len(self._buffer) >= (self.MAX_LENGTH + len(self.delimiter)):\n            return self.lineLengthExceeded(self._buffer)\n"
MUTANTS = [
    Mutant("netstring-inlined-extraction-leaves-the-payload-in-the-unconsumed-data", B, '        self._extractPayload()\n        if self._currentPayloadSize < self._expectedPayloadSize:\n            raise IncompleteNetstring()\n', '        if not self._payloadComplete():\n            self._payload.write(self._remainingData)\n            self._currentPayloadSize += len(self._remainingData)\n            self._remainingData = b""\n            raise IncompleteNetstring()\n        lacking = self._expectedPayloadSize - self._currentPayloadSize\n        self._payload.write(self._remainingData[:lacking])\n        self._currentPayloadSize = self._expectedPayloadSize\n', expect_rule="netstring/"),
    Mutant("line-generator-context-manager-without-finally", B, 'from io import BytesIO\n', 'from contextlib import contextmanager\nfrom io import BytesIO\n', more=[(B, '        try:\n            self._busyReceiving = True\n            self._buffer += data\n            while self._buffer and not self.paused:\n                if self.line_mode:\n                    try:\n                        line, self._buffer = self._buffer.split(self.delimiter, 1)\n                    except ValueError:\n                        if len(self._buffer) >= (self.MAX_LENGTH + len(self.delimiter)):\n                            line, self._buffer = self._buffer, b""\n                            return self.lineLengthExceeded(line)\n                        return\n                    else:\n                        lineLength = len(line)\n                        if lineLength > self.MAX_LENGTH:\n                            exceeded = line + self.delimiter + self._buffer\n                            self._buffer = b""\n                            return self.lineLengthExceeded(exceeded)\n                        why = self.lineReceived(line)\n                        if why or self.transport and self.transport.disconnecting:\n                            return why\n                else:\n                    data = self._buffer\n                    self._buffer = b""\n                    why = self.rawDataReceived(data)\n                    if why:\n                        return why\n        finally:\n            self._busyReceiving = False\n', '        with self._whileDelivering():\n            self._buffer += data\n            while self._buffer and not self.paused:\n                if self.line_mode:\n                    stop, outcome = self._oneLine()\n                else:\n                    stop, outcome = self._rawChunk()\n                if stop:\n                    return outcome\n\n    @contextmanager\n    def _whileDelivering(self):\n        self._busyReceiving = True\n        yield\n        self._busyReceiving = False\n\n    def _oneLine(self):\n        try:\n            line, self._buffer = self._buffer.split(self.delimiter, 1)\n        except ValueError:\n            if len(self._buffer) >= (self.MAX_LENGTH + len(self.delimiter)):\n                line, self._buffer = self._buffer, b""\n                return True, self.lineLengthExceeded(line)\n            return True, None\n        if len(line) > self.MAX_LENGTH:\n            exceeded = line + self.delimiter + self._buffer\n            self._buffer = b""\n            return True, self.lineLengthExceeded(exceeded)\n        why = self.lineReceived(line)\n        if why or self.transport and self.transport.disconnecting:\n            return True, why\n        return False, None\n\n    def _rawChunk(self):\n        data, self._buffer = self._buffer, b""\n        why = self.rawDataReceived(data)\n        if why:\n            return True, why\n        return False, None\n')], expect_rule="line/"),
    Mutant("line-split-into-two-locals-rest-never-stored", B, '                        line, self._buffer = self._buffer.split(self.delimiter, 1)\n', "                        line, rest = self._buffer.split(self.delimiter, 1)\n", expect_rule="line/"),
    Mutant("netstring-inlined-hand-over-without-comma-check", B, '        self._checkForTrailingComma()\n        self._state = self._PARSING_LENGTH\n        self._processPayload()\n', '        whole = self._payload.getvalue()\n        self._state = self._PARSING_LENGTH\n        self.stringReceived(whole[:-1])\n', expect_rule="netstring/comma-checked"),
    Mutant("netstring-inlined-hand-over-keeps-the-comma", B, '        self._checkForTrailingComma()\n        self._state = self._PARSING_LENGTH\n        self._processPayload()\n', '        whole = self._payload.getvalue()\n        if whole[-1:] != b",":\n            raise NetstringParseError(self._MISSING_COMMA)\n        self._state = self._PARSING_LENGTH\n        self.stringReceived(whole)\n', expect_rule="netstring/payload-without-comma"),
    Mutant("netstring-inlined-preparation-keeps-old-payload", B, '            self._consumeLength()\n            self._prepareForPayloadConsumption()\n', '            self._consumeLength()\n            self._currentPayloadSize = 0\n            self._state = self._PARSING_PAYLOAD\n', expect_rule="netstring/payload-state-reset"),
    Mutant("netstring-inlined-digit-pre-check-too-tight", B, '        self._checkStringSize(lengthAsString)\n        length = int(lengthAsString)\n', '        if len(lengthAsString) >= self._maxLengthSize():\n            raise NetstringParseError(self._TOO_LONG % (self.MAX_LENGTH,))\n        length = int(lengthAsString)\n', expect_rule="netstring/digit-precheck"),
    Mutant("intn-walrus-guard-needs-one-byte-more", B, '        while len(alldata) >= (currentOffset + prefixLength) and not self.paused:\n            messageStart = currentOffset + prefixLength\n', '        while len(alldata) > (messageStart := currentOffset + prefixLength) and not self.paused:\n', expect_rule="intn/prefix-boundary"),
    Mutant("line-busy-flag-context-manager-forgets-to-clear-it", B,
           '        try:\n            self._busyReceiving = True\n            self._buffer += data\n            while self._buffer and not self.paused:\n                if self.line_mode:\n                    try:\n                        line, self._buffer = self._buffer.split(self.delimiter, 1)\n                    except ValueError:\n                        if len(self._buffer) >= (self.MAX_LENGTH + len(self.delimiter)):\n                            line, self._buffer = self._buffer, b""\n                            return self.lineLengthExceeded(line)\n                        return\n                    else:\n                        lineLength = len(line)\n                        if lineLength > self.MAX_LENGTH:\n                            exceeded = line + self.delimiter + self._buffer\n                            self._buffer = b""\n                            return self.lineLengthExceeded(exceeded)\n                        why = self.lineReceived(line)\n                        if why or self.transport and self.transport.disconnecting:\n                            return why\n                else:\n                    data = self._buffer\n                    self._buffer = b""\n                    why = self.rawDataReceived(data)\n                    if why:\n                        return why\n        finally:\n            self._busyReceiving = False\n',
           '        with _Receiving(self):\n            self._buffer += data\n            while self._buffer and not self.paused:\n                if self.line_mode:\n                    try:\n                        line, self._buffer = self._buffer.split(self.delimiter, 1)\n                    except ValueError:\n                        if len(self._buffer) >= (self.MAX_LENGTH + len(self.delimiter)):\n                            line, self._buffer = self._buffer, b""\n                            return self.lineLengthExceeded(line)\n                        return\n                    else:\n                        lineLength = len(line)\n                        if lineLength > self.MAX_LENGTH:\n                            exceeded = line + self.delimiter + self._buffer\n                            self._buffer = b""\n                            return self.lineLengthExceeded(exceeded)\n                        why = self.lineReceived(line)\n                        if why or self.transport and self.transport.disconnecting:\n                            return why\n                else:\n                    data = self._buffer\n                    self._buffer = b""\n                    why = self.rawDataReceived(data)\n                    if why:\n                        return why\n',
           more=[(B, "class LineReceiver(protocol.Protocol, _PauseableMixin):", 'class _Receiving:\n    __slots__ = ("_receiver",)\n\n    def __init__(self, receiver):\n        self._receiver = receiver\n\n    def __enter__(self):\n        self._receiver._busyReceiving = True\n\n    def __exit__(self, excType, excValue, traceback):\n        pass\n\n\nclass LineReceiver(protocol.Protocol, _PauseableMixin):')]),
    Mutant("F16-reverted-pending-threshold", B, _LO, "        if len(self._buffer) > self.MAX_LENGTH:\n            return self.lineLengthExceeded(self._buffer)\n",
           expect_rule="line-only/pending-boundary"),
    Mutant("line-only-complete-ge", B, "            if len(line) > self.MAX_LENGTH:\n                return self.lineLengthExceeded(line)\n",
           "            if len(line) >= self.MAX_LENGTH:\n                return self.lineLengthExceeded(line)\n", expect_rule="line-only/complete-boundary"),
    Mutant("line-complete-ge", B, "                        if lineLength > self.MAX_LENGTH:", "                        if lineLength >= self.MAX_LENGTH:",
           expect_rule="line/complete-boundary"),
    Mutant("line-pending-off-by-one", B, "                        if len(self._buffer) >= (self.MAX_LENGTH + len(self.delimiter)):",
           "                        if len(self._buffer) > self.MAX_LENGTH:", expect_rule="line/pending-boundary"),
    Mutant("line-busy-flag-without-finally", B, "        finally:\n            self._busyReceiving = False\n", "        except ValueError:\n            raise\n        self._busyReceiving = False\n",
           expect_rule="line/busy-flag-reset-on-every-exit"),
    Mutant("line-raw-buffer-cleared-after-callout", B, "                    data = self._buffer\n                    self._buffer = b\"\"\n                    why = self.rawDataReceived(data)\n",
           "                    data = self._buffer\n                    why = self.rawDataReceived(data)\n                    self._buffer = b\"\"\n",
           expect_rule="line/raw-swap-before-callout"),
    Mutant("line-reentrant-data-dropped", B, "        if self._busyReceiving:\n            self._buffer += data\n            return\n", "        if self._busyReceiving:\n            return\n",
           expect_rule="line/reentrant-data-buffered"),
    Mutant("line-pause-ignored", B, "            while self._buffer and not self.paused:", "            while self._buffer:", expect_rule="line/pause-honoured"),
    Mutant("resume-without-reprocessing", B, "        self.transport.resumeProducing()\n        self.dataReceived(b\"\")\n", "        self.transport.resumeProducing()\n",
           expect_rule="pause/resume-reprocesses-buffer"),
    Mutant("line-exceeded-keeps-buffer", B, "                            exceeded = line + self.delimiter + self._buffer\n                            self._buffer = b\"\"\n",
           "                            exceeded = line + self.delimiter + self._buffer\n", expect_rule="line/buffer-cleared-before-exceeded"),
    Mutant("intn-limit-ge", B, "            if length > self.MAX_LENGTH:\n                self._unprocessed = alldata", "            if length >= self.MAX_LENGTH:\n                self._unprocessed = alldata",
           expect_rule="intn/limit-boundary"),
    Mutant("intn-complete-message-waits", B, "            if len(alldata) < messageEnd:\n                break", "            if len(alldata) <= messageEnd:\n                break",
           expect_rule="intn/complete-message-delivered"),
    Mutant("intn-prefix-boundary", B, "        while len(alldata) >= (currentOffset + prefixLength) and not self.paused:", "        while len(alldata) > (currentOffset + prefixLength) and not self.paused:",
           expect_rule="intn/prefix-boundary"),
    Mutant("intn-format-mismatch", B, "self.transport.write(pack(self.structFormat, len(string)) + string)", "self.transport.write(pack(\"!I\", len(string)) + string)", expect_rule="intn/format-agreement"),
    Mutant("intn-send-limit-off-by-one", B, "        if len(string) >= 2 ** (8 * self.prefixLength):", "        if len(string) > 2 ** (8 * self.prefixLength):", expect_rule="intn/send-limit"),
    Mutant("int16-signed-format", B, "    structFormat = \"!H\"\n", "    structFormat = \"!h\"\n", expect_rule="intn/prefix-table"),
    Mutant("intn-offset-not-advanced", B, "            currentOffset = messageEnd\n            self._compatibilityOffset = currentOffset\n            self.stringReceived(packet)\n",
           "            self._compatibilityOffset = messageEnd\n            self.stringReceived(packet)\n            currentOffset = messageEnd\n", expect_rule="intn/offset-advanced-before-callout"),
    Mutant("netstring-expected-size-through-temporary-forgets-the-comma", B, "        self._expectedPayloadSize = self._extractLength(lengthString) + 1\n",
           "        announced = self._extractLength(lengthString)\n        self._expectedPayloadSize = announced\n", expect_rule="netstring/expected-size"),
    Mutant("line-raw-helper-hands-over-without-clearing", B, "                    data = self._buffer\n                    self._buffer = b\"\"\n                    why = self.rawDataReceived(data)\n",
           "                    why = self._handRawOver()\n                    self._buffer = b\"\"\n",
           more=[(B, "    def setLineMode(self, extra=b\"\"):", "    def _handRawOver(self):\n        held = self._buffer\n        return self.rawDataReceived(held)\n\n    def setLineMode(self, extra=b\"\"):")],
           expect_rule="line/raw-swap-before-callout"),
    Mutant("netstring-common-tail-count-ignores-consumed", B,
           "        if self._payloadComplete():\n            remainingPayloadSize = self._expectedPayloadSize - self._currentPayloadSize\n            self._payload.write(self._remainingData[:remainingPayloadSize])\n"
           "            self._remainingData = self._remainingData[remainingPayloadSize:]\n            self._currentPayloadSize = self._expectedPayloadSize\n        else:\n"
           "            self._payload.write(self._remainingData)\n            self._currentPayloadSize += len(self._remainingData)\n            self._remainingData = b\"\"\n",
           "        held = self._remainingData\n        if self._payloadComplete():\n            count = self._expectedPayloadSize\n        else:\n            count = len(held)\n"
           "        self._payload.write(held[:count])\n        self._remainingData = held[count:]\n        self._currentPayloadSize += count\n", expect_rule="netstring/payload-split"),
    Mutant("netstring-payload-complete-through-temporary-strict", B, "        return (\n            len(self._remainingData) + self._currentPayloadSize\n            >= self._expectedPayloadSize\n        )",
           "        got = self._currentPayloadSize + len(self._remainingData)\n        return not got <= self._expectedPayloadSize", expect_rule="netstring/payload-complete-boundary"),
    Mutant("netstring-limit-ge", B, "        if length > self.MAX_LENGTH:\n            raise NetstringParseError(self._TOO_LONG % (self.MAX_LENGTH,))\n        return length",
           "        if length >= self.MAX_LENGTH:\n            raise NetstringParseError(self._TOO_LONG % (self.MAX_LENGTH,))\n        return length", expect_rule="netstring/limit-boundary"),
    Mutant("netstring-digit-precheck-too-tight", B, "        return math.ceil(math.log10(self.MAX_LENGTH)) + 1", "        return math.ceil(math.log10(self.MAX_LENGTH))",
           expect_rule="netstring/digit-precheck"),
    Mutant("netstring-payload-split-ignores-consumed", B, "            remainingPayloadSize = self._expectedPayloadSize - self._currentPayloadSize\n",
           "            remainingPayloadSize = self._expectedPayloadSize\n", expect_rule="netstring/payload-split"),
    Mutant("netstring-payload-complete-gt", B, "            len(self._remainingData) + self._currentPayloadSize\n            >= self._expectedPayloadSize",
           "            len(self._remainingData) + self._currentPayloadSize\n            > self._expectedPayloadSize", expect_rule="netstring/payload-complete-boundary"),
    Mutant("netstring-leading-zero-accepted", B, "    _LENGTH = re.compile(rb\"(0|[1-9]\\d*)(:)\")", "    _LENGTH = re.compile(rb\"(\\d+)(:)\")", expect_rule="netstring/length-syntax"),
    Mutant("netstring-parse-error-not-closed", B, "            except NetstringParseError:\n                self._handleParseError()\n                break\n",
           "            except NetstringParseError:\n                break\n", expect_rule="netstring/parse-error-closes"),
    Mutant("netstring-comma-not-checked", B, "        self._checkForTrailingComma()\n        self._state = self._PARSING_LENGTH\n", "        self._state = self._PARSING_LENGTH\n",
           expect_rule="netstring/comma-checked"),
    Mutant("netstring-complete-message-waits", B, "        if self._currentPayloadSize < self._expectedPayloadSize:\n            raise IncompleteNetstring()",
           "        if self._currentPayloadSize <= self._expectedPayloadSize:\n            raise IncompleteNetstring()", expect_rule="netstring/complete-message-delivered"),
    Mutant("intn-parsing-continues-after-limit", B, "                self.lengthLimitExceeded(length)\n                return\n", "                self.lengthLimitExceeded(length)\n",
           expect_rule="intn/"),
    Mutant("intn-waits-for-absolute-end-offset", B, "    _compatibilityOffset = 0\n\n    # Backwards compatibility support", "    _compatibilityOffset = 0\n    _needed = 0\n\n    # Backwards compatibility support",
           more=[(B, "        self._unprocessed = alldata\n\n        while len(alldata) >= (currentOffset + prefixLength) and not self.paused:",
                  "        self._unprocessed = alldata\n        if self._needed > len(alldata):\n            return\n        self._needed = 0\n\n        while len(alldata) >= (currentOffset + prefixLength) and not self.paused:"),
                 (B, "            if len(alldata) < messageEnd:\n                break\n", "            if len(alldata) < messageEnd:\n                self._needed = messageEnd\n                break\n")],
           expect_rule="intn/segmentation-invariant"),
    Mutant("netstring-size-counter-restarts-per-segment", B, "            self._currentPayloadSize += len(self._remainingData)\n", "            self._currentPayloadSize = len(self._remainingData)\n",
           expect_rule="netstring/segmentation-invariant"),
    Mutant("line-only-buffer-forgets-partial-delimiter", B, "        self._buffer = lines.pop(-1)\n", "        self._buffer = lines.pop(-1).rstrip(b\"\\r\")\n", expect_rule="line-only/segmentation-invariant"),
    Mutant("line-raw-extra-data-lost-after-mode-switch", B, "        self.line_mode = 1\n        if extra:\n            return self.dataReceived(extra)\n",
           "        self.line_mode = 1\n        if extra and not self._busyReceiving:\n            return self.dataReceived(extra)\n", expect_rule="line/segmentation-invariant"),
    Mutant("netstring-state-reset-only-after-the-handler-returned", B, "        self._state = self._PARSING_LENGTH\n        self._processPayload()\n",
           "        self._processPayload()\n        self._state = self._PARSING_LENGTH\n", expect_rule="netstring/state-consumed-before-callout"),
    Mutant("netstring-state-reset-in-finally", B, "        self._state = self._PARSING_LENGTH\n        self._processPayload()\n",
           "        try:\n            self._processPayload()\n        finally:\n            self._state = self._PARSING_LENGTH\n", expect_rule="netstring/"),
    Mutant("line-buffer-trimmed-after-the-handler", B, "                        line, self._buffer = self._buffer.split(self.delimiter, 1)\n",
           "                        line, rest = self._buffer.split(self.delimiter, 1)\n",
           more=[(B, "                        why = self.lineReceived(line)\n", "                        why = self.lineReceived(line)\n                        self._buffer = rest\n")],
           expect_rule="line/exactly-once"),
    Mutant("line-only-keeps-first-piece", B, "        self._buffer = lines.pop(-1)\n", "        self._buffer = lines.pop(0)\n", expect_rule="line-only/"),
    Mutant("line-only-starred-keeps-first-piece", B, "        lines = (self._buffer + data).split(self.delimiter)\n        self._buffer = lines.pop(-1)\n        for line in lines:\n",
           "        self._buffer, *lines = (self._buffer + data).split(self.delimiter)\n        for line in lines:\n", expect_rule="line-only/"),
    Mutant("intn-pause-tested-on-entry-only", B, "        while len(alldata) >= (currentOffset + prefixLength) and not self.paused:",
           "        if self.paused:\n            return\n        while len(alldata) >= (currentOffset + prefixLength):", expect_rule="intn/pause-honoured"),
    Mutant("F16p-reverted-nested-run-restarts-at-zero", B,
           "        # Normally zero; it is not when we are called again from inside\n        # stringReceived (for example by resumeProducing), while the strings\n"
           "        # before that offset have already been delivered.\n        currentOffset = self._compatibilityOffset\n", "        currentOffset = 0\n",
           more=[(B, "            if self._unprocessed is not alldata:\n                # dataReceived ran again while the string was being handled\n"
                     "                # and has consumed part of the buffer: carry on from where it\n                # stopped instead of delivering those strings a second time.\n"
                     "                alldata = self._unprocessed\n                currentOffset = self._compatibilityOffset\n\n", "")],
           expect_rule="intn/pause-resume-inside-handler"),
    Mutant("F16p-half-reverted-outer-loop-not-resynchronised", B,
           "            if self._unprocessed is not alldata:\n                # dataReceived ran again while the string was being handled\n"
           "                # and has consumed part of the buffer: carry on from where it\n                # stopped instead of delivering those strings a second time.\n"
           "                alldata = self._unprocessed\n                currentOffset = self._compatibilityOffset\n\n", "",
           expect_rule="intn/pause-resume-inside-handler"),
    Mutant("intn-cached-buffer-length-not-refreshed-after-nested-run", B, "        self._unprocessed = alldata\n\n        while len(alldata) >= (currentOffset + prefixLength) and not self.paused:",
           "        self._unprocessed = alldata\n        available = len(alldata)\n\n        while available >= (currentOffset + prefixLength) and not self.paused:",
           more=[(B, "            if len(alldata) < messageEnd:\n                break\n", "            if available < messageEnd:\n                break\n"),
                 (B, "                alldata = self.__dict__.pop(\"recvd\")\n", "                alldata = self.__dict__.pop(\"recvd\")\n                available = len(alldata)\n")],
           expect_rule="stale/derived-value-after-rebinding"),
    Mutant("line-only-new-before-old", B, "        lines = (self._buffer + data).split(self.delimiter)", "        lines = (data + self._buffer).split(self.delimiter)",
           expect_rule="line-only/segmentation-invariant"),
]
SILENT = [
    Silent("netstring-extraction-written-out-in-consume-payload-completeness-first", B, '        self._extractPayload()\n        if self._currentPayloadSize < self._expectedPayloadSize:\n            raise IncompleteNetstring()\n', '        if not self._payloadComplete():\n            self._payload.write(self._remainingData)\n            self._currentPayloadSize += len(self._remainingData)\n            self._remainingData = b""\n            raise IncompleteNetstring()\n        lacking = self._expectedPayloadSize - self._currentPayloadSize\n        self._payload.write(self._remainingData[:lacking])\n        self._remainingData = self._remainingData[lacking:]\n        self._currentPayloadSize = self._expectedPayloadSize\n'),
    Silent("line-busy-flag-by-generator-context-manager-loop-bodies-return-pairs", B, 'from io import BytesIO\n', 'from contextlib import contextmanager\nfrom io import BytesIO\n', more=[(B, '        try:\n            self._busyReceiving = True\n            self._buffer += data\n            while self._buffer and not self.paused:\n                if self.line_mode:\n                    try:\n                        line, self._buffer = self._buffer.split(self.delimiter, 1)\n                    except ValueError:\n                        if len(self._buffer) >= (self.MAX_LENGTH + len(self.delimiter)):\n                            line, self._buffer = self._buffer, b""\n                            return self.lineLengthExceeded(line)\n                        return\n                    else:\n                        lineLength = len(line)\n                        if lineLength > self.MAX_LENGTH:\n                            exceeded = line + self.delimiter + self._buffer\n                            self._buffer = b""\n                            return self.lineLengthExceeded(exceeded)\n                        why = self.lineReceived(line)\n                        if why or self.transport and self.transport.disconnecting:\n                            return why\n                else:\n                    data = self._buffer\n                    self._buffer = b""\n                    why = self.rawDataReceived(data)\n                    if why:\n                        return why\n        finally:\n            self._busyReceiving = False\n', '        with self._whileDelivering():\n            self._buffer += data\n            while self._buffer and not self.paused:\n                if self.line_mode:\n                    stop, outcome = self._oneLine()\n                else:\n                    stop, outcome = self._rawChunk()\n                if stop:\n                    return outcome\n\n    @contextmanager\n    def _whileDelivering(self):\n        try:\n            self._busyReceiving = True\n            yield\n        finally:\n            self._busyReceiving = False\n\n    def _oneLine(self):\n        try:\n            line, self._buffer = self._buffer.split(self.delimiter, 1)\n        except ValueError:\n            if len(self._buffer) >= (self.MAX_LENGTH + len(self.delimiter)):\n                line, self._buffer = self._buffer, b""\n                return True, self.lineLengthExceeded(line)\n            return True, None\n        if len(line) > self.MAX_LENGTH:\n            exceeded = line + self.delimiter + self._buffer\n            self._buffer = b""\n            return True, self.lineLengthExceeded(exceeded)\n        why = self.lineReceived(line)\n        if why or self.transport and self.transport.disconnecting:\n            return True, why\n        return False, None\n\n    def _rawChunk(self):\n        data, self._buffer = self._buffer, b""\n        why = self.rawDataReceived(data)\n        if why:\n            return True, why\n        return False, None\n')]),
    Silent("line-split-into-two-locals-rest-stored-next", B, '                        line, self._buffer = self._buffer.split(self.delimiter, 1)\n', "                        line, rest = self._buffer.split(self.delimiter, 1)\n                        self._buffer = rest\n"),
    Silent("netstring-comma-check-and-hand-over-written-out-in-place", B, '        self._checkForTrailingComma()\n        self._state = self._PARSING_LENGTH\n        self._processPayload()\n', '        whole = self._payload.getvalue()\n        if whole[-1:] != b",":\n            raise NetstringParseError(self._MISSING_COMMA)\n        self._state = self._PARSING_LENGTH\n        self.stringReceived(whole[:-1])\n'),
    Silent("netstring-payload-preparation-written-out-in-place", B, '            self._consumeLength()\n            self._prepareForPayloadConsumption()\n', '            self._consumeLength()\n            self._payload.seek(0)\n            self._payload.truncate()\n            self._currentPayloadSize = 0\n            self._state = self._PARSING_PAYLOAD\n'),
    Silent("netstring-digit-pre-check-written-out-in-place", B, '        self._checkStringSize(lengthAsString)\n        length = int(lengthAsString)\n', '        if len(lengthAsString) > self._maxLengthSize():\n            raise NetstringParseError(self._TOO_LONG % (self.MAX_LENGTH,))\n        length = int(lengthAsString)\n'),
    Silent("intn-header-end-bound-by-walrus-in-the-loop-test", B, '        while len(alldata) >= (currentOffset + prefixLength) and not self.paused:\n            messageStart = currentOffset + prefixLength\n', '        while len(alldata) >= (messageStart := currentOffset + prefixLength) and not self.paused:\n'),
    Silent("line-only-last-piece-by-index", B, "        lines = (self._buffer + data).split(self.delimiter)\n        self._buffer = lines.pop(-1)\n        for line in lines:\n",
           "        parts = (self._buffer + data).split(self.delimiter)\n        self._buffer = parts[-1]\n        for line in parts[:-1]:\n"),
    Silent("line-busy-flag-through-a-context-manager-class", B,
           '        try:\n            self._busyReceiving = True\n            self._buffer += data\n            while self._buffer and not self.paused:\n                if self.line_mode:\n                    try:\n                        line, self._buffer = self._buffer.split(self.delimiter, 1)\n                    except ValueError:\n                        if len(self._buffer) >= (self.MAX_LENGTH + len(self.delimiter)):\n                            line, self._buffer = self._buffer, b""\n                            return self.lineLengthExceeded(line)\n                        return\n                    else:\n                        lineLength = len(line)\n                        if lineLength > self.MAX_LENGTH:\n                            exceeded = line + self.delimiter + self._buffer\n                            self._buffer = b""\n                            return self.lineLengthExceeded(exceeded)\n                        why = self.lineReceived(line)\n                        if why or self.transport and self.transport.disconnecting:\n                            return why\n                else:\n                    data = self._buffer\n                    self._buffer = b""\n                    why = self.rawDataReceived(data)\n                    if why:\n                        return why\n        finally:\n            self._busyReceiving = False\n',
           '        with _Receiving(self):\n            self._buffer += data\n            while self._buffer and not self.paused:\n                if self.line_mode:\n                    try:\n                        line, self._buffer = self._buffer.split(self.delimiter, 1)\n                    except ValueError:\n                        if len(self._buffer) >= (self.MAX_LENGTH + len(self.delimiter)):\n                            line, self._buffer = self._buffer, b""\n                            return self.lineLengthExceeded(line)\n                        return\n                    else:\n                        lineLength = len(line)\n                        if lineLength > self.MAX_LENGTH:\n                            exceeded = line + self.delimiter + self._buffer\n                            self._buffer = b""\n                            return self.lineLengthExceeded(exceeded)\n                        why = self.lineReceived(line)\n                        if why or self.transport and self.transport.disconnecting:\n                            return why\n                else:\n                    data = self._buffer\n                    self._buffer = b""\n                    why = self.rawDataReceived(data)\n                    if why:\n                        return why\n',
           more=[(B, "class LineReceiver(protocol.Protocol, _PauseableMixin):", 'class _Receiving:\n    __slots__ = ("_receiver",)\n\n    def __init__(self, receiver):\n        self._receiver = receiver\n\n    def __enter__(self):\n        self._receiver._busyReceiving = True\n\n    def __exit__(self, excType, excValue, traceback):\n        self._receiver._busyReceiving = False\n\n\nclass LineReceiver(protocol.Protocol, _PauseableMixin):')]),
    Silent("line-only-lines-from-a-generator-helper", B,
           "        lines = (self._buffer + data).split(self.delimiter)\n        self._buffer = lines.pop(-1)\n        for line in lines:\n            if self.transport.disconnecting:\n",
           "        for line in self._completeLines(data):\n            if self.transport.disconnecting:\n",
           more=[(B, "    def dataReceived(self, data):\n        \"\"\"\n        Translates bytes into lines, and calls lineReceived.\n        \"\"\"\n",
                  "    def _completeLines(self, data):\n        lines = (self._buffer + data).split(self.delimiter)\n        self._buffer = lines.pop(-1)\n        for line in lines:\n            yield line\n\n"
                  "    def dataReceived(self, data):\n        \"\"\"\n        Translates bytes into lines, and calls lineReceived.\n        \"\"\"\n")]),
    Silent("length-tests-through-a-static-limit-helper", B, "            if len(line) > self.MAX_LENGTH:\n                return self.lineLengthExceeded(line)\n            else:\n",
           "            if _over(len(line), self.MAX_LENGTH):\n                return self.lineLengthExceeded(line)\n            else:\n",
           more=[(B, "                        if lineLength > self.MAX_LENGTH:\n", "                        if _over(lineLength, self.MAX_LENGTH):\n"),
                 (B, "class LineOnlyReceiver(protocol.Protocol):", "def _over(length, limit):\n    return length > limit\n\n\nclass LineOnlyReceiver(protocol.Protocol):")]),
    Silent("line-only-threshold-respelled", B, _LO,
           "        if not len(self._buffer) < len(self.delimiter) + self.MAX_LENGTH:\n            return self.lineLengthExceeded(self._buffer)\n"),
    Silent("line-only-complete-respelled", B, "            if len(line) > self.MAX_LENGTH:\n                return self.lineLengthExceeded(line)\n            else:\n                self.lineReceived(line)\n",
           "            if self.MAX_LENGTH >= len(line):\n                self.lineReceived(line)\n            else:\n                return self.lineLengthExceeded(line)\n"),
    Silent("line-length-inlined", B, "                        lineLength = len(line)\n                        if lineLength > self.MAX_LENGTH:",
           "                        if len(line) > self.MAX_LENGTH:"),
    Silent("intn-incomplete-respelled", B, "            if len(alldata) < messageEnd:\n                break", "            if messageEnd > len(alldata):\n                break"),
    Silent("intn-send-limit-respelled", B, "        if len(string) >= 2 ** (8 * self.prefixLength):", "        if not len(string) < 256 ** self.prefixLength:"),
    Silent("netstring-payload-complete-mirrored", B, "            len(self._remainingData) + self._currentPayloadSize\n            >= self._expectedPayloadSize",
           "            self._expectedPayloadSize\n            <= self._currentPayloadSize + len(self._remainingData)"),
    Silent("intn-correct-wait-optimisation-with-new-attribute", B, "    _compatibilityOffset = 0\n\n    # Backwards compatibility support", "    _compatibilityOffset = 0\n    _needed = 0\n\n    # Backwards compatibility support",
           more=[(B, "        self._unprocessed = alldata\n\n        while len(alldata) >= (currentOffset + prefixLength) and not self.paused:",
                  "        self._unprocessed = alldata\n        if self._needed > len(alldata):\n            return\n        self._needed = 0\n\n        while len(alldata) >= (currentOffset + prefixLength) and not self.paused:"),
                 (B, "            if len(alldata) < messageEnd:\n                break\n", "            if len(alldata) < messageEnd:\n                self._needed = messageEnd - currentOffset\n                break\n")]),
    Silent("netstring-state-reset-before-comma-check", B, "        self._checkForTrailingComma()\n        self._state = self._PARSING_LENGTH\n        self._processPayload()\n",
           "        self._state = self._PARSING_LENGTH\n        self._checkForTrailingComma()\n        self._processPayload()\n"),
    Silent("netstring-callout-inlined", B, "        self._state = self._PARSING_LENGTH\n        self._processPayload()\n",
           "        self._state = self._PARSING_LENGTH\n        self.stringReceived(self._payload.getvalue()[:-1])\n"),
    Silent("F16p-fix-respelled-with-a-named-flag", B,
           "            if self._unprocessed is not alldata:\n                # dataReceived ran again while the string was being handled\n",
           "            nestedRun = alldata is not self._unprocessed\n            if nestedRun:\n                # dataReceived ran again while the string was being handled\n"),
    Silent("line-only-starred-unpacking", B, "        lines = (self._buffer + data).split(self.delimiter)\n        self._buffer = lines.pop(-1)\n        for line in lines:\n",
           "        joined = self._buffer + data\n        *whole, self._buffer = joined.split(self.delimiter)\n        for line in whole:\n"),
    Silent("line-only-last-piece-by-index", B, "        lines = (self._buffer + data).split(self.delimiter)\n        self._buffer = lines.pop(-1)\n        for line in lines:\n",
           "        pieces = (self._buffer + data).split(self.delimiter)\n        self._buffer = pieces[-1]\n        for line in pieces[:-1]:\n"),
    Silent("intn-send-length-computed-once", B, "        self.transport.write(pack(self.structFormat, len(string)) + string)",
           "        size = len(string)\n        self.transport.write(pack(self.structFormat, size) + string)"),
    Silent("intn-cached-buffer-length-refreshed-at-every-rebinding", B, "        self._unprocessed = alldata\n\n        while len(alldata) >= (currentOffset + prefixLength) and not self.paused:",
           "        self._unprocessed = alldata\n        available = len(alldata)\n\n        while available >= (currentOffset + prefixLength) and not self.paused:",
           more=[(B, "            if len(alldata) < messageEnd:\n                break\n", "            if available < messageEnd:\n                break\n"),
                 (B, "                alldata = self.__dict__.pop(\"recvd\")\n", "                alldata = self.__dict__.pop(\"recvd\")\n                available = len(alldata)\n"),
                 (B, "                alldata = self._unprocessed\n                currentOffset = self._compatibilityOffset\n",
                  "                alldata = self._unprocessed\n                available = len(alldata)\n                currentOffset = self._compatibilityOffset\n")]),
    Silent("line-raw-delivery-in-helper-with-tuple-swap", B, "                    data = self._buffer\n                    self._buffer = b\"\"\n                    why = self.rawDataReceived(data)\n",
           "                    why = self._handRawOver()\n",
           more=[(B, "    def setLineMode(self, extra=b\"\"):", "    def _handRawOver(self):\n        held, self._buffer = self._buffer, b\"\"\n        return self.rawDataReceived(held)\n\n    def setLineMode(self, extra=b\"\"):")]),
    Silent("netstring-extract-payload-common-tail", B,
           "        if self._payloadComplete():\n            remainingPayloadSize = self._expectedPayloadSize - self._currentPayloadSize\n            self._payload.write(self._remainingData[:remainingPayloadSize])\n"
           "            self._remainingData = self._remainingData[remainingPayloadSize:]\n            self._currentPayloadSize = self._expectedPayloadSize\n        else:\n"
           "            self._payload.write(self._remainingData)\n            self._currentPayloadSize += len(self._remainingData)\n            self._remainingData = b\"\"\n",
           "        held = self._remainingData\n        if self._payloadComplete():\n            count = self._expectedPayloadSize - self._currentPayloadSize\n        else:\n            count = len(held)\n"
           "        self._payload.write(held[:count])\n        self._remainingData = held[count:]\n        self._currentPayloadSize += count\n"),
    Silent("netstring-sizes-through-temporaries", B, "        self._expectedPayloadSize = self._extractLength(lengthString) + 1\n",
           "        announced = self._extractLength(lengthString)\n        self._expectedPayloadSize = 1 + announced\n",
           more=[(B, "        return (\n            len(self._remainingData) + self._currentPayloadSize\n            >= self._expectedPayloadSize\n        )",
                  "        got = self._currentPayloadSize + len(self._remainingData)\n        return not got < self._expectedPayloadSize")]),
    Silent("netstring-buffer-append-spelled-out", B, "        self._remainingData += data\n        while self._remainingData:", "        self._remainingData = self._remainingData + data\n        while self._remainingData:"),
]
