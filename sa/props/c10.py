"""C10 - LoopingCall keeps cadence without overlap and counts skipped intervals."""
from __future__ import annotations

import ast

from sa.astx import body_walk, call_attr, call_name, dotted, src
from sa.effects import class_accesses
from sa.selftest import Mutant, Silent
from sa.source import AnalysisError, methods
from sa.props._lib_c import (Lin, SymEnv, SymInterp, norm_class, norm_func, Closure, anchor, section, EvalAssert, EvalUnsupported, Interp, SelfRef, all_funcs_of_class, assign_pairs, guarded_not_none,
                             gfind, is_const, is_none_test, must_pass, nested_defs, no_exc, self_attr)

PROPERTY = "C10"
TASK = "internet/task.py"
Q = "twisted.internet.task.LoopingCall"
TECHNIQUE = "CFG dominance/must-pass, who-may-call/write on normalised code; symbolic interval arithmetic"
EXPLANATION = (
    "All clauses are decided on a normalised copy of LoopingCall (private helpers inlined, naming temporaries substituted). "
    "(a) No overlap - STRUCTURAL (who-may-call + CFG dominance): _scheduleFrom / callLater(self) / self() are reached only from start (exclusive now / "
    "not-now branches), reset (pending call cancelled first) and the success callback on maybeDeferred(self.f) under `self.running`, each reached where "
    "it must be; __call__ clears self.call before f, calls f only through maybeDeferred, and the completion callbacks are never called directly but registered on the result Deferred on every path (who-may-call + must-pass). "
    "(b) start()'s Deferred fires exactly once, nothing afterwards - STRUCTURAL (take-then-fire, must-pass, who-may-write): every fire uses a local detached "
    "(swap with None) before the call-out with running already False; the errback always fires, the success callback fires on the not-running branch, stop() "
    "cancels, forgets and fires only when a call is pending; start() returns the local it stored and completes its state before the first call. "
    "(c) Cadence - STRUCTURAL: the time handed to _scheduleFrom is a clock reading taken at completion (def-use), one callLater(delay, self) per path, stored in "
    "self.call; FINITE-EXHAUSTIVE: _scheduleFrom is evaluated on symbolic times starttime + interval*(k + rho) (complete over the reals, cases interval = 0 / > 0) "
    "and must land exactly on starttime + interval*(k+1) with a positive delay; STRUCTURAL (def-use): the effectively-zero test `x == x + delay` has the clock reading `when` as x (over the reals every x is equivalent, in floating point only the reading callLater adds to is right); BOUNDED second layer: the same function on a dyadic float grid incl. the "
    "large-exponent absorption case (floating-point rounding has bounded evidence only - no finite abstraction of IEEE rounding is attempted). "
    "(d) withCount - FINITE-EXHAUSTIVE: an induction over the history on symbolic times (first / later call / first call after reset(), where the last report lies less than one interval before the re-anchored starttime and int() vs floor differ; x now True / False x same / later interval, and "
    "interval = 0): the reported count is I(now) - I(baseline), reported exactly when positive, and a report moves the baseline to now, so counts telescope to "
    "the boundaries elapsed since start(); BOUNDED second layer: ~2500 concrete calls over clock-jump histories incl. late first calls. "
    "Not decided: restart (stop then start again) interaction with _realLastTime, the clock implementation."
)
RULE_KINDS = {
    "*": "structural",
    # the repository's own arithmetic evaluated on symbolic times start + interval*(k + rho): complete abstract domain over the reals
    "cadence/delay-symbolic": "finite-exhaustive",
    "count/telescoping-symbolic": "finite-exhaustive",
    # the same functions interpreted on a dyadic float grid / on clock-jump histories: second layer, float behaviour (absorption case)
    "cadence/delay-is-next-boundary": "bounded",
    "count/sum-equals-boundaries": "bounded",
}
ASSUMPTIONS = [
    "rules read a normalised copy of the class: a private non-generator method that is not an anchor, is only ever called as self._h(...) "
    "inside its class and is mentioned in no other module is inlined at its call sites; single-assignment naming temporaries are substituted "
    "only where nothing they read is written (and no call runs) in between",
    "clock.callLater(delay, f) calls f once, not before delay has elapsed (C08/C09)",
    "Deferred callbacks registered on maybeDeferred's result run only when that result fires (C01/C03)",
    "dyadic sample domain of (interval, starttime, when) is representative of the delay arithmetic; evaluation uses Python float semantics",
]


_MODF = {}


def _with_modf(cls_):
    """Interpreter factory: instances may call the module-level helper functions of task.py found for this run."""
    def make(*a, **k):
        it = cls_(*a, **k)
        it.module_funcs = dict(_MODF)
        return it
    return make


def _is_call_to(c, text):
    return isinstance(c, ast.Call) and call_name(c) == text


def _clock_read(e):
    return isinstance(e, ast.Call) and call_name(e) == "self.clock.seconds" and not e.args


def _registrations(f_call, meths=None):
    """(callback-side names, errback-side names, maybeDeferred call nodes) of __call__."""
    nested = nested_defs(f_call)
    md_calls = [c for c in body_walk(f_call) if isinstance(c, ast.Call) and call_attr(c) == "maybeDeferred"]
    holders = set()

    def chain_root(e):
        # addCallback & co return the Deferred they are applied to: a chain rooted at the maybeDeferred call denotes that same Deferred
        while isinstance(e, ast.Call) and isinstance(e.func, ast.Attribute) and e.func.attr in ("addCallback", "addErrback", "addCallbacks", "addBoth"):
            e = e.func.value
        return e
    for st in body_walk(f_call):
        for t, v in assign_pairs(st):
            if isinstance(t, ast.Name) and any(chain_root(v) is c for c in md_calls):
                holders.add(t.id)

    def rooted(e):
        # receiver chain d.addCallback(..).addErrback(..) rooted at a holder or the maybeDeferred call itself
        while isinstance(e, ast.Call) and isinstance(e.func, ast.Attribute) and e.func.attr in ("addCallback", "addErrback", "addCallbacks", "addBoth"):
            e = e.func.value
        return (isinstance(e, ast.Name) and e.id in holders) or any(e is c for c in md_calls)

    cbs, ebs = set(), set()
    for c in body_walk(f_call):
        if not (isinstance(c, ast.Call) and isinstance(c.func, ast.Attribute) and rooted(c.func.value)):
            continue
        a = c.func.attr
        def cbkey(x):
            # a closure of __call__ (by name) or a bound method of the instance (closures lifted to methods): "self.<name>"
            if isinstance(x, ast.Name):
                return x.id
            if self_attr(x) and meths and x.attr in meths:
                nested["self." + x.attr] = meths[x.attr]
                return "self." + x.attr
            return None
        names = [cbkey(x) for x in c.args]
        kw = {k.arg: cbkey(k.value) for k in c.keywords}
        if a == "addCallback" and names:
            cbs.add(names[0])
        elif a == "addErrback" and names:
            ebs.add(names[0])
        elif a == "addBoth" and names:
            cbs.add(names[0]); ebs.add(names[0])
        elif a == "addCallbacks":
            if names:
                cbs.add(names[0])
            if len(names) > 1:
                ebs.add(names[1])
            if kw.get("callback"):
                cbs.add(kw["callback"])
            if kw.get("errback"):
                ebs.add(kw["errback"])
    cbs = {n for n in cbs if n in nested}
    ebs = {n for n in ebs if n in nested}
    return nested, cbs, ebs, md_calls


def check(ctx):
    mod = ctx.mod(TASK)
    _MODF.clear()
    _MODF.update({st.name: st for st in mod.tree.body if isinstance(st, ast.FunctionDef) and st.name.startswith("_") and not st.decorator_list})
    KEEP = ("__init__", "start", "stop", "reset", "__call__", "_scheduleFrom", "withCount", "_intervalOf", "deferred", "__repr__")
    # normalised view: private helpers that are not anchors (e.g. a `_takeDeferred()` doing the swap) are inlined at their call sites
    cls = norm_class(ctx, TASK, "LoopingCall", KEEP)
    meths = methods(cls)
    f_call = norm_func(ctx, TASK, "LoopingCall", "__call__", KEEP)
    f_start = norm_func(ctx, TASK, "LoopingCall", "start", KEEP)
    f_stop = norm_func(ctx, TASK, "LoopingCall", "stop", KEEP)
    f_reset = norm_func(ctx, TASK, "LoopingCall", "reset", KEEP)
    f_sched = norm_func(ctx, TASK, "LoopingCall", "_scheduleFrom", KEEP)
    f_wc = norm_func(ctx, TASK, "LoopingCall", "withCount", KEEP)
    funcs = all_funcs_of_class(cls)
    nested, cbs, ebs, md_calls = {}, set(), set(), []
    with section(ctx, "callbacks registered by __call__"):
        nested, cbs, ebs, md_calls = _registrations(f_call, meths)

    def qual_of(n):
        return f"LoopingCall.{n[5:]}" if n.startswith("self.") else f"LoopingCall.__call__.{n}"
    cb_quals = {qual_of(n) for n in cbs}
    eb_quals = {qual_of(n) for n in ebs}

    # ---- (a) the function is called only through maybeDeferred, with the stored arguments ---------------
    with section(ctx, '(a) the function is called only through maybeDeferred, with the stored arguments'):
        qc = f"{Q}.__call__"
        ctx.check(len(md_calls) == 1, "call/through-maybeDeferred", qc,
                  f"__call__ contains {len(md_calls)} maybeDeferred(...) call sites (exactly one expected): a raising f would not be turned into a failure")
        for c in md_calls:
            ok = (c.args and self_attr(c.args[0], "f") and any(isinstance(a, ast.Starred) and self_attr(a.value, "a") for a in c.args[1:])
                  and any(k.arg is None and self_attr(k.value, "kw") for k in c.keywords))
            ctx.check(ok, "call/through-maybeDeferred", ctx.construct(qc, c), "maybeDeferred is not applied to self.f with *self.a, **self.kw")
        for q, f in funcs:
            for c in body_walk(f):
                if isinstance(c, ast.Call) and self_attr(c.func, "f"):
                    ctx.violation("call/through-maybeDeferred", ctx.construct(f"twisted.internet.task.{q}", c),
                                  "self.f is called directly: an exception propagates instead of failing start()'s Deferred, and a returned Deferred is not awaited")
        ctx.check(bool(cbs), "call/callbacks-registered", qc + " | <success callback>",
                  "no nested function is registered as success callback on maybeDeferred's result: the loop never continues")
        ctx.check(bool(ebs), "call/callbacks-registered", qc + " | <failure callback>",
                  "no nested function is registered as errback on maybeDeferred's result: a failing f never fires start()'s Deferred")
        g = ctx.cfg(f_call)
        clear = g.ids(lambda n: n.kind == "stmt" and any(self_attr(t, "call") and is_const(v, None) for t, v in assign_pairs(n.ast)))
        mdn = gfind(g, lambda x: any(x is c for c in md_calls))
        w = g.must_precede(clear, mdn) if mdn else None
        ctx.check(bool(clear) and w is None, "call/clears-call-before-f", qc,
                  "self.call is not reset to None before f runs: stop()/reset() issued by f (or by the synchronous callback chain) would "
                  "cancel a stale DelayedCall, and a synchronously rescheduled call would be forgotten", witness=g.describe(w))

    # ---- (a) the continuation runs only through the result Deferred's callback chain --------------------
    with section(ctx, "(a) continuation only through the callback chain"):
        # cb (reschedule / report stop) and eb (failure) must run when - and only when - the Deferred of f's result has really finished: that is
        # what registering them on it guarantees (a fired Deferred can still be paused on an inner one).  So: they are never *called* by the
        # class itself, and __call__ registers both on every path after maybeDeferred.
        qcc = f"{Q}.__call__"
        def refers(x, key):
            return (isinstance(x, ast.Name) and x.id == key) or (key.startswith("self.") and self_attr(x, key[5:]))
        for key in sorted(cbs | ebs):
            for qx, fx in funcs:
                nodes_ = ast.walk(fx.body) if isinstance(fx, ast.Lambda) else body_walk(fx)
                for c in nodes_:
                    if isinstance(c, ast.Call) and refers(c.func, key) and (key.startswith("self.") or qx.startswith("LoopingCall.__call__")):
                        ctx.violation("no-overlap/continuation-only-as-callback", ctx.construct(f"twisted.internet.task.{qx}", "<direct call of the completion callback>"),
                                      f"{src(c)}: the completion callback is invoked directly instead of by the result Deferred: a Deferred that has fired but is still "
                                      "waiting on an inner Deferred counts as finished - the next call is scheduled while the previous one is in flight, stop() reports early, "
                                      "a later failure never reaches the errback")
        g = ctx.cfg(f_call)
        mdn = gfind(g, lambda x: any(x is c for c in md_calls))
        def reg_nodes(keys):
            return gfind(g, lambda x: isinstance(x, ast.Call) and isinstance(x.func, ast.Attribute) and x.func.attr in ("addCallback", "addErrback", "addCallbacks", "addBoth")
                         and any(refers(a_, k_) for k_ in keys for a_ in list(x.args) + [kw_.value for kw_ in x.keywords]))
        for side, keys in (("success", cbs), ("failure", ebs)):
            rn = reg_nodes(keys)
            # sources are the maybeDeferred statement(s) themselves: a registration chained onto the call in the same expression
            # (maybeDeferred(...).addCallback(cb).addErrback(eb)) satisfies the obligation at once
            w = must_pass(g, mdn, rn, exc=False) if mdn else None
            ctx.check(bool(rn) and w is None, "no-overlap/continuation-only-as-callback", qcc + f" | <{side} callback registered on every path>",
                      f"after f was called, __call__ can finish without registering the {side} callback on the result Deferred (a branch bypasses the callback chain)",
                      witness=g.describe(w))

    # ---- (a) who may (re)schedule -------------------------------------------------------------------------
    with section(ctx, '(a) who may (re)schedule'):
        nsites = 0
        for q, f in funcs:
            if isinstance(f, ast.Lambda):
                sites = [c for c in ast.walk(f.body) if _is_call_to(c, "self._scheduleFrom")]
                for c in sites:
                    nsites += 1
                    ctx.violation("no-overlap/reschedule-site", ctx.construct(f"twisted.internet.task.{q}", c), "_scheduleFrom called from a lambda")
                continue
            gf = ctx.cfg(f)
            fq = f"twisted.internet.task.{q}"
            for n in gfind(gf, lambda x: _is_call_to(x, "self._scheduleFrom")):
                nsites += 1
                node = gf.node(n).ast
                call = next(x for x in ast.walk(node) if _is_call_to(x, "self._scheduleFrom"))
                key = ctx.construct(fq, node)
                if q == "LoopingCall.start":
                    ctx.check(gf.guarded(n, lambda e: src(e) == "now", False), "no-overlap/reschedule-site", key,
                              "start() schedules the first delayed call even when it also calls the function immediately (two calls in flight)")
                elif q == "LoopingCall.reset":
                    cancels = gfind(gf, lambda x: _is_call_to(x, "self.call.cancel"))
                    w = gf.must_precede(cancels, [n])
                    ctx.check(guarded_not_none(gf, n, "self.call") and bool(cancels) and w is None, "no-overlap/reschedule-site", key,
                              "reset() schedules a new call without a pending call having been cancelled (while f's Deferred is unfired, or twice)",
                              witness=gf.describe(w))
                elif q in cb_quals and q not in eb_quals:
                    ctx.check(gf.guarded(n, lambda e: src(e) == "self.running", True), "no-overlap/reschedule-site", key,
                              "the completion callback reschedules although the loop was stopped")
                else:
                    ctx.violation("no-overlap/reschedule-site", key,
                                  "_scheduleFrom is called outside start / reset / the completion callback: the next call is "
                                  "scheduled while the previous call's Deferred may still be unfired")
                # reference time handed to _scheduleFrom
                arg = call.args[0] if call.args else None
                ok = False
                why = "the time passed to _scheduleFrom is not a clock reading taken in this function"
                if arg is not None and _clock_read(arg):
                    ok = True
                elif arg is not None and (self_attr(arg, "starttime") or isinstance(arg, ast.Name)):
                    def is_def(nd, arg=arg):
                        return nd.kind == "stmt" and any(src(t) == src(arg) and _clock_read(v) for t, v in assign_pairs(nd.ast))
                    defs = gf.ids(is_def)
                    w = gf.must_precede(defs, [n]) if defs else None
                    ok = bool(defs) and w is None
                    if q in cb_quals:
                        ok = ok and isinstance(arg, ast.Name)  # a local read inside the callback, i.e. at completion time
                ctx.check(ok, "cadence/reference-time", key,
                          why + " (after f completed): the next boundary would be computed from a stale time and calls drift or bunch up")
        ctx.floor("no-overlap/reschedule-site", nsites, 1)

    # ---- loop continues at the legitimate sites --------------------
    with section(ctx, 'loop continues at the legitimate sites'):
        # liveness of the three legitimate sites: the loop continues where it must
        def _sched_nodes(gx):
            return gfind(gx, lambda x: _is_call_to(x, "self._scheduleFrom"))
        gs = ctx.cfg(f_start)
        for t in gs.ids(lambda n: n.kind == "test" and src(n.ast) == "now"):
            w = must_pass(gs, [d for d, l in gs.succ[t] if l == "F"], _sched_nodes(gs), exc=False)
            ctx.check(w is None, "cadence/loop-continues", f"{Q}.start | <now=False>", "start(now=False) can return without scheduling the first call", witness=gs.describe(w))
            selfcalls = gfind(gs, lambda x: isinstance(x, ast.Call) and isinstance(x.func, ast.Name) and x.func.id == "self")
            w = must_pass(gs, [d for d, l in gs.succ[t] if l == "T"], selfcalls, exc=False)
            ctx.check(w is None, "cadence/loop-continues", f"{Q}.start | <now=True>", "start(now=True) can return without calling the function", witness=gs.describe(w))
        gr = ctx.cfg(f_reset)
        for t in [t for t in gr.ids(lambda n: n.kind == "test") if is_none_test(gr.node(t).ast, "self.call") is not None]:
            lab = "F" if is_none_test(gr.node(t).ast, "self.call") else "T"
            w = must_pass(gr, [d for d, l in gr.succ[t] if l == lab], _sched_nodes(gr), exc=False)
            ctx.check(w is None, "cadence/loop-continues", f"{Q}.reset", "reset() with a pending call cancels it without scheduling a new one: the loop silently ends",
                      witness=gr.describe(w))
        for n_ in sorted(cbs - ebs):
            gc = ctx.cfg(nested[n_])
            for t in gc.ids(lambda n: n.kind == "test" and src(n.ast) == "self.running"):
                w = must_pass(gc, [d for d, l in gc.succ[t] if l == "T"], _sched_nodes(gc), exc=False)
                ctx.check(w is None, "cadence/loop-continues", f"twisted.internet.task.{qual_of(n_)}", "a completed call of a running loop is not followed by the next one", witness=gc.describe(w))
        for q, f in funcs:
            for c in (body_walk(f) if not isinstance(f, ast.Lambda) else ast.walk(f.body)):
                if not isinstance(c, ast.Call):
                    continue
                if call_attr(c) == "callLater" and any(isinstance(a, ast.Name) and a.id == "self" for a in c.args):
                    ctx.check(q == "LoopingCall._scheduleFrom", "no-overlap/callLater-site", ctx.construct(f"twisted.internet.task.{q}", c),
                              "the LoopingCall is handed to callLater outside _scheduleFrom")
                if isinstance(c.func, ast.Name) and c.func.id == "self" and q.startswith("LoopingCall.") and q != "LoopingCall.withCount":
                    if q == "LoopingCall.start":
                        gs = ctx.cfg(f)
                        ns = gs.ids_of(c)
                        ctx.check(bool(ns) and all(gs.guarded(n, lambda e: src(e) == "now", True) for n in ns), "no-overlap/direct-call",
                                  ctx.construct(f"{Q}.start", c), "start() calls the function immediately even when now=False")
                    else:
                        ctx.violation("no-overlap/direct-call", ctx.construct(f"twisted.internet.task.{q}", c),
                                      "the LoopingCall invokes itself outside start()")

    # ---- _scheduleFrom shape --------------------------------------------------------------------------------------
    with section(ctx, '_scheduleFrom shape'):
        qs = f"{Q}._scheduleFrom"
        cl = [c for c in body_walk(f_sched) if isinstance(c, ast.Call) and call_attr(c) == "callLater"]
        gs_ = ctx.cfg(f_sched)
        cln = gfind(gs_, lambda x: isinstance(x, ast.Call) and call_attr(x) == "callLater")
        twice = next((gs_.path([a], [b], strict=True) for a in cln for b in cln if gs_.path([a], [b], strict=True)), None)
        ctx.check(len(cl) >= 1 and twice is None, "schedule/one-callLater", qs,
                  f"_scheduleFrom schedules {'no' if not cl else 'more than one'} call per invocation", witness=gs_.describe(twice))
        for c in cl:
            ok = len(c.args) == 2 and isinstance(c.args[1], ast.Name) and c.args[1].id == "self" and not c.keywords
            ctx.check(ok, "schedule/one-callLater", ctx.construct(qs, c), "callLater is not given exactly (delay, self)")
            pairs = [(t, v) for st in body_walk(f_sched) for t, v in assign_pairs(st)]
            locs = {t.id for t, v in pairs if isinstance(t, ast.Name) and v is c}
            stored = any(self_attr(t, "call") and (v is c or (isinstance(v, ast.Name) and v.id in locs)) for t, v in pairs)
            ctx.check(stored, "schedule/call-remembered", ctx.construct(qs, c),
                      "the DelayedCall is not stored in self.call: stop()/reset() cannot cancel it and a call happens after stop()")

    # ---- (b) every fire of start()'s Deferred ------------------------------------------------------------------
    with section(ctx, "(b) every fire of start()'s Deferred"):
        nfires = 0
        for q, f in funcs:
            if isinstance(f, ast.Lambda):
                continue
            fq = f"twisted.internet.task.{q}"
            aliases = {t.id for st in body_walk(f) for t, v in assign_pairs(st) if isinstance(t, ast.Name) and self_attr(v, "_deferred")}

            def is_fire(x, aliases=aliases):
                return (isinstance(x, ast.Call) and isinstance(x.func, ast.Attribute) and x.func.attr in ("callback", "errback")
                        and (self_attr(x.func.value, "_deferred") or (isinstance(x.func.value, ast.Name) and x.func.value.id in aliases)))
            gf = ctx.cfg(f)
            fires = gfind(gf, is_fire)
            if not fires:
                continue
            detach = gf.ids(lambda nd: nd.kind == "stmt" and any(self_attr(t, "_deferred") and is_const(v, None) for t, v in assign_pairs(nd.ast)))
            notrun = gf.ids(lambda nd: nd.kind == "stmt" and any(self_attr(t, "running") and is_const(v, False) for t, v in assign_pairs(nd.ast)))
            for n in fires:
                nfires += 1
                node = gf.node(n).ast
                call = next(x for x in ast.walk(node) if is_fire(x))
                key = ctx.construct(fq, node)
                ctx.check(q in ("LoopingCall.stop",) or q in cb_quals or q in eb_quals, "fire-once/site", key,
                          "start()'s Deferred is fired outside stop() and the completion callbacks")
                recv = call.func.value
                if not isinstance(recv, ast.Name):
                    ctx.violation("fire-once/swap", key, "self._deferred is fired in place, without first detaching it (swap with None): "
                                  "a re-entrant stop()/failure fires it a second time (AlreadyCalledError)")
                else:
                    reads = gf.ids(lambda nd: nd.kind == "stmt" and any(isinstance(t, ast.Name) and t.id == recv.id and self_attr(v, "_deferred") for t, v in assign_pairs(nd.ast)))
                    w1 = gf.must_precede(detach, [n]) if detach else [gf.entry, n]
                    w2 = gf.must_precede(reads, detach) if detach else None
                    ctx.check(bool(detach) and w1 is None and w2 is None, "fire-once/swap", key,
                              "the Deferred is fired while still stored in self._deferred (not detached before the call-out): a callback "
                              "that stops/fails the loop again fires it twice", witness=gf.describe(w1 or w2))
                ok = gf.guarded(n, lambda e: src(e) == "self.running", False)
                if not ok and notrun:
                    ok = gf.must_precede(notrun, [n]) is None
                ctx.check(ok, "fire-once/not-running", key,
                          "start()'s Deferred fires while self.running is still True (documented: False by the time it fires; a callback could not restart the loop)")
                if call.func.attr == "callback":
                    ctx.check(len(call.args) == 1 and src(call.args[0]) == "self", "fire-once/result", key, "the success result is not the LoopingCall")
                else:
                    ps_ = [a.arg for a in f.args.args if a.arg != "self"]   # closure: (failure); bound method: (self, failure)
                    p = ps_[0] if ps_ else None
                    ctx.check(len(call.args) == 1 and isinstance(call.args[0], ast.Name) and call.args[0].id == p, "fire-once/result", key,
                              "the errback is not fired with the failure received")
        ctx.floor("fire-once/swap", nfires, 2)

    # ---- completeness of firing --------------------
    with section(ctx, 'completeness of firing'):
        # completeness of firing
        for n_ in sorted(ebs):
            f = nested[n_]
            gf = ctx.cfg(f)
            fires = gfind(gf, lambda x: isinstance(x, ast.Call) and call_attr(x) == "errback")
            w = must_pass(gf, [gf.entry], fires, exc=False)
            ctx.check(bool(fires) and w is None, "fire-once/failure-fires", f"twisted.internet.task.{qual_of(n_)}",
                      "a failure of f can leave start()'s Deferred unfired", witness=gf.describe(w))
        for n_ in sorted(cbs - ebs):
            f = nested[n_]
            gf = ctx.cfg(f)
            tests = gf.ids(lambda nd: nd.kind == "test" and src(nd.ast) == "self.running")
            fires = gfind(gf, lambda x: isinstance(x, ast.Call) and call_attr(x) == "callback")
            ctx.check(bool(tests), "fire-once/stopped-in-flight", f"twisted.internet.task.{qual_of(n_)}",
                      "the completion callback does not test self.running: a loop stopped while f's Deferred was pending is rescheduled or never reports")
            for t in tests:
                fs = [d for d, l in gf.succ[t] if l == "F"]
                w = must_pass(gf, fs, fires, exc=False)
                ctx.check(bool(fires) and w is None, "fire-once/stopped-in-flight", f"twisted.internet.task.{qual_of(n_)}",
                          "stop() issued while f's Deferred was unfired never fires start()'s Deferred", witness=gf.describe(w))

    # ---- stop() --------------------
    with section(ctx, 'stop()'):
        # stop()
        g = ctx.cfg(f_stop)
        qst = f"{Q}.stop"
        fires = gfind(g, lambda x: isinstance(x, ast.Call) and call_attr(x) == "callback")
        cancels = gfind(g, lambda x: _is_call_to(x, "self.call.cancel"))
        clear = g.ids(lambda n: n.kind == "stmt" and any(self_attr(t, "call") and is_const(v, None) for t, v in assign_pairs(n.ast)))
        ctx.check(bool(fires), "stop/fires", qst, "stop() never fires start()'s Deferred")
        ctx.check(bool(cancels), "stop/cancels-pending", qst, "stop() does not cancel the pending DelayedCall: a call happens after stop()")
        for n in fires:
            key = ctx.construct(qst, g.node(n).ast)
            ctx.check(guarded_not_none(g, n, "self.call"), "stop/fires-only-if-pending", key,
                      "stop() fires start()'s Deferred although a call is in flight (self.call is None): the completion callback fires it again / asserts")
            w = g.must_precede(cancels, [n]) if cancels else None
            ctx.check(bool(cancels) and w is None, "stop/cancels-pending", key, "start()'s Deferred is fired before the pending call is cancelled",
                      witness=g.describe(w))
            w = g.must_precede(clear, [n]) if clear else [g.entry]
            ctx.check(bool(clear) and w is None, "stop/forgets-call", key,
                      "self.call still refers to the cancelled DelayedCall when callbacks run (a second stop()/reset() would cancel it again: AlreadyCancelled)",
                      witness=g.describe(w))
        tests = [t for t in g.ids(lambda n: n.kind == "test") if is_none_test(g.node(t).ast, "self.call") is not None]
        for t in tests:
            isnone = is_none_test(g.node(t).ast, "self.call")
            lab = "F" if isnone else "T"
            s = [d for d, l in g.succ[t] if l == lab]
            w = must_pass(g, s, fires, exc=False)
            ctx.check(w is None, "stop/fires", ctx.construct(qst, g.node(t).ast), "stop() with a pending call can return without firing start()'s Deferred",
                      witness=g.describe(w))
        for n in cancels:
            ctx.check(guarded_not_none(g, n, "self.call"), "stop/cancels-pending", ctx.construct(qst, g.node(n).ast),
                      "stop() dereferences self.call while a call is in flight (None)")

    # ---- who may write the state ----------------------------------------------------------------------------------
    with section(ctx, 'who may write the state'):
        acc = class_accesses(mod, cls, {"running", "_deferred", "call", "starttime", "interval"}, receivers={"self"})
        for a in acc:
            if a.via_alias:
                continue  # `x = self.attr; x -= 1` rebinds the local, not the attribute (scalars)
            key = ctx.construct(f"twisted.internet.task.{a.func}", a.node)
            pairs = [(t, v) for t, v in assign_pairs(a.node) if self_attr(t, a.attr)]
            for t, v in pairs:
                if a.attr == "running":
                    if is_const(v, True):
                        ctx.check(a.func == "LoopingCall.start", "who-may-write/running", key, "running set True outside start()")
                    elif is_const(v, False):
                        ctx.check(a.func == "LoopingCall.stop" or f"{a.func}" in eb_quals, "who-may-write/running", key,
                                  "running cleared outside stop() / the failure callback")
                    else:
                        ctx.violation("who-may-write/running", key, "running assigned a non-constant")
                elif a.attr == "_deferred":
                    if is_const(v, None):
                        ctx.check(a.func == "LoopingCall.stop" or a.func in cb_quals or a.func in eb_quals, "who-may-write/_deferred", key,
                                  "start()'s Deferred dropped outside the firing functions (it would never fire)")
                    else:
                        ctx.check(a.func == "LoopingCall.start", "who-may-write/_deferred", key, "start()'s Deferred replaced outside start()")
                elif a.attr == "call":
                    if is_const(v, None):
                        ctx.check(a.func in ("LoopingCall.__call__", "LoopingCall.stop", "LoopingCall.reset"), "who-may-write/call", key,
                                  "self.call cleared in an unexpected place (the pending call could no longer be cancelled)")
                    else:
                        ctx.check(a.func == "LoopingCall._scheduleFrom", "who-may-write/call", key, "self.call assigned outside _scheduleFrom")
                elif a.attr == "starttime":
                    vv = v
                    if isinstance(vv, ast.Name):   # a snapshot local: judged by its (single) definition in the same function
                        fown = next((fx for qx, fx in funcs if qx == a.func), None)
                        defs_ = [v2 for st2 in body_walk(fown) for t2, v2 in assign_pairs(st2) if isinstance(t2, ast.Name) and t2.id == vv.id] if fown is not None else []
                        stores2 = [n2 for n2 in body_walk(fown) if isinstance(n2, ast.Name) and n2.id == vv.id and isinstance(n2.ctx, ast.Store)] if fown is not None else []
                        if len(defs_) == 1 and len(stores2) == 1:
                            vv = defs_[0]
                    ctx.check(a.func in ("LoopingCall.start", "LoopingCall.reset") and _clock_read(vv), "who-may-write/starttime", ctx.construct(f"twisted.internet.task.{a.func}", "<starttime re-anchored>"),
                              "starttime (the origin of all boundaries) is written outside start/reset or not from the clock")
                elif a.attr == "interval":
                    ctx.check(a.func == "LoopingCall.start" and isinstance(v, ast.Name) and v.id in [x.arg for x in f_start.args.args], "who-may-write/interval", key,
                              "interval written outside start() or not from its argument")
            if not pairs:
                ctx.violation("who-may-write/" + a.attr, key, f"unexpected {a.kind} of self.{a.attr}")
        ctx.floor("who-may-write", len(acc), 8)

    # ---- start(): state complete before the first call, returns the stored Deferred ----------------------------
    with section(ctx, 'start(): state complete before the first call, returns the stored Deferred'):
        g = ctx.cfg(f_start)
        qs_ = f"{Q}.start"
        launch = gfind(g, lambda x: _is_call_to(x, "self._scheduleFrom") or (isinstance(x, ast.Call) and isinstance(x.func, ast.Name) and x.func.id == "self"))
        ctx.need(launch, "start() launches the loop")
        for attr in ("running", "_deferred", "starttime", "interval", "_runAtStart"):
            defs = g.ids(lambda n: n.kind == "stmt" and any(self_attr(t, attr) for t, v in assign_pairs(n.ast)))
            w = g.must_precede(defs, launch) if defs else [g.entry]
            ctx.check(bool(defs) and w is None, "start/state-before-first-call", f"{qs_} | self.{attr}",
                      f"self.{attr} is not set before the first call / scheduling (the completion callback and the delay arithmetic read it)",
                      witness=g.describe(w))
        rets = g.ids(lambda n: n.kind == "stmt" and isinstance(n.ast, ast.Return))
        ctx.need(rets, "return in start()")
        for r in rets:
            v = g.node(r).ast.value
            ok = False
            if isinstance(v, ast.Name):
                for st in body_walk(f_start):
                    ps = assign_pairs(st)
                    tv = [val for t, val in ps if isinstance(t, ast.Name) and t.id == v.id]
                    dv = [val for t, val in ps if self_attr(t, "_deferred")]
                    if tv and dv and tv[0] is dv[0]:
                        ok = True
                    if dv and isinstance(dv[0], ast.Name) and dv[0].id == v.id:
                        ok = True
            ctx.check(ok, "start/returns-stored-deferred", ctx.construct(qs_, g.node(r).ast),
                      "start() re-reads self._deferred for its result: when f fails (or stops the loop) synchronously the attribute is already None")

    # ---- (c) finite-domain evaluation of the delay and of the skip counter ---------------------------------------
    with section(ctx, '(c) finite-domain evaluation of the delay and of the skip counter'):
        _eval_schedule(ctx, f_sched, meths)

    with section(ctx, "(c) the effectively-zero test is about the clock reading"):
        # Over the reals `x == x + u` means u == 0 whatever x is (the symbolic rule cannot tell them apart); in floating point it asks whether u
        # is absorbed by x.  callLater(u) adds u to the clock reading, so the test must be made against the time handed in (`when`), not against
        # a smaller quantity derived from it (e.g. the elapsed time), or a remainder that cannot move the clock is scheduled as it is and the
        # function is called again at the same clock reading.  Structural def-use on the operands; the float grid keeps a witness.
        qa = f"{Q}._scheduleFrom"
        when_param = f_sched.args.args[1].arg if len(f_sched.args.args) > 1 else None
        ctx.need(when_param, "_scheduleFrom(self, when)")
        tests = []
        scopes = [(f_sched, when_param)]
        for c_ in ast.walk(f_sched):      # module-level helpers that receive `when`: the parameter it is bound to plays the same role there
            if isinstance(c_, ast.Call) and isinstance(c_.func, ast.Name) and c_.func.id in _MODF and not c_.keywords:
                hp = [a_.arg for a_ in _MODF[c_.func.id].args.args]
                for i_, a_ in enumerate(c_.args):
                    if src(a_) == when_param and i_ < len(hp):
                        scopes.append((_MODF[c_.func.id], hp[i_]))
        scope_of = {}
        for fx_, wp_ in scopes:
            for n in ast.walk(fx_):
                if isinstance(n, ast.Compare) and len(n.ops) == 1 and isinstance(n.ops[0], (ast.Eq, ast.NotEq, ast.LtE, ast.GtE, ast.Lt, ast.Gt)):
                    for x, y in ((n.left, n.comparators[0]), (n.comparators[0], n.left)):
                        if isinstance(y, ast.BinOp) and isinstance(y.op, ast.Add) and (src(y.left) == src(x) or src(y.right) == src(x)) and not isinstance(x, ast.Constant):
                            tests.append((n, x))
                            scope_of[id(n)] = (fx_, wp_)
        if not tests:
            ctx.note("cadence/absorption-test-on-clock-reading: no `x == x + delay` test recognised in _scheduleFrom; clause left to the bounded rule "
                     "cadence/delay-is-next-boundary (large-exponent cases)")
        for n, x in tests:
            f_scope, when_param = scope_of[id(n)]
            base = x
            seen = set()
            while isinstance(base, ast.Name) and base.id != when_param and base.id not in seen:   # follow pure aliases  t = when
                seen.add(base.id)
                owner = next((fn for fn in [f_scope] + [m for m in ast.walk(f_scope) if isinstance(m, (ast.FunctionDef, ast.AsyncFunctionDef)) and m is not f_scope]
                              if any(isinstance(st, (ast.Assign, ast.AnnAssign)) and any(isinstance(t, ast.Name) and t.id == base.id for t, v in assign_pairs(st)) for st in body_walk(fn))), None)
                if owner is None:
                    break
                defs = [v for st in body_walk(owner) for t, v in assign_pairs(st) if isinstance(t, ast.Name) and t.id == base.id]
                if len(defs) != 1 or not isinstance(defs[0], ast.Name):
                    break
                base = defs[0]
            ok = isinstance(base, ast.Name) and base.id == when_param
            ctx.check(ok, "cadence/absorption-test-on-clock-reading", ctx.construct(qa, "<effectively-zero test>"),
                      f"the test `{src(n)}` asks whether the remaining time is absorbed by `{src(x)}`, not by the clock reading `{when_param}` that callLater adds it to: "
                      "a remainder too small to move the clock (but not too small for the smaller operand) is scheduled as it is and the function is called again "
                      "at the same clock reading instead of one interval later")

    with section(ctx, "(c) symbolic evaluation of the delay over all times"):
        _sym_schedule(ctx, f_sched, meths)

    with section(ctx, "(c) symbolic (inductive) evaluation of the skip counter"):
        _sym_counter(ctx, f_wc, meths)

    with section(ctx, "(c) finite-domain evaluation of the skip counter"):
        _eval_counter(ctx, f_wc, meths)


_SYM_DOMAIN = ("abstract domain: every time >= starttime is starttime + interval*(k + rho) with k a non-negative integer and 0 <= rho < 1; the code is "
               "evaluated on these symbols once per case it can distinguish (interval == 0 / > 0, first call / later call, no boundary crossed / at least one "
               "crossed, now=True / False), in exact real arithmetic - complete for the reals; floating-point rounding is sampled by the grid rule only")


def _sym_schedule(ctx, f_sched, meths):
    rule = "cadence/delay-symbolic"
    qs = f"{Q}._scheduleFrom | <delay passed to callLater>"
    env = SymEnv(ints={"k"}, fracs={"rho"})
    i_ = Lin(env, None, {1: 1})
    s_ = Lin(env, None, None, 1)
    for label, interval, when, want in (("interval > 0", i_, s_ + Lin(env, None, {"k": 1, "rho": 1}), s_ + Lin(env, None, {"k": 1, 1: 1})),
                                        ("interval == 0", 0, s_ + Lin(env, {"k": 1, "rho": 1}), None)):
        rec = []
        sr = SelfRef({"interval": interval, "starttime": s_, "call": None})
        it = _with_modf(SymInterp)(sr, meths, {"self.clock.callLater": lambda d, fn, rec=rec: rec.append((d, fn)) or object()})
        try:
            it.call_function(f_sched, [when], bind_self=True)
        except (EvalUnsupported, EvalAssert) as e:
            ctx.note(f"{rule} [{label}]: shape not recognised ({e}); clause left to the bounded rule cadence/delay-is-next-boundary")
            continue
        ok = len(rec) == 1 and rec[0][1] is sr
        why = f"{len(rec)} callLater calls"
        if ok:
            d = rec[0][0]
            try:
                if want is None:
                    ok = (isinstance(d, (int, float)) and d == 0) or (isinstance(d, Lin) and d._const() == 0)
                    why = f"delay {d!r} instead of 0"
                else:
                    d = Lin.lift(env, d)
                    ok = (when + d).same(want) and d.sign() > 0
                    why = f"when + delay = {when + d!r}, expected the next boundary {want!r} with delay > 0"
            except EvalUnsupported as e:
                ctx.note(f"{rule} [{label}]: result not decidable ({e}); clause left to the bounded rule")
                continue
        ctx.check(ok, rule, qs + f" | {label}", f"for when = starttime + interval*(k + rho): {why} - the call does not land on the first boundary strictly after `when`",
                  detail=_SYM_DOMAIN)


def _sym_counter(ctx, f_wc, meths):
    rule = "count/telescoping-symbolic"
    qw = f"{Q}.withCount | <counter>"
    nd = nested_defs(f_wc)
    params = [a.arg for a in f_wc.args.args]
    ctor = [c for c in body_walk(f_wc) if isinstance(c, ast.Call) and isinstance(c.func, ast.Name) and params and c.func.id == params[0]
            and len(c.args) == 1 and isinstance(c.args[0], ast.Name) and c.args[0].id in nd]
    if len(ctor) != 1 or len(params) < 2:
        ctx.note(f"{rule}: counter not located; clause left to the bounded rule count/sum-equals-boundaries")
        return
    counter = nd[ctor[0].args[0].id]
    self_names = {t.id for st in body_walk(f_wc) for t, v in assign_pairs(st) if isinstance(t, ast.Name) and v is ctor[0]} or {"self"}
    cb_name = params[1]
    # Induction over the history.  I(t) = number of whole intervals between starttime and t.  Step A: first invocation (no count reported yet);
    # step B: _realLastTime = L was set by an earlier report.  In both the reported count must be I(now) - I(baseline or L), it must be reported
    # exactly when positive, and a report must move _realLastTime to now; then the counts telescope to I(now) - I(baseline) for every history.
    cases = []
    for ras in (True, False):
        for crossed in (False, True):
            cases.append(("first call", ras, crossed))
            cases.append(("later call", ras, crossed))
            # step C: reset() re-anchored starttime after the last report L, so L lies less than one interval BEFORE starttime
            # (reset is only possible while a call is pending, i.e. within one interval of the last call): elapsed is negative there,
            # where truncation toward zero and floor differ.  No boundary of the new schedule lies in (L, starttime].
            cases.append(("first call after reset()", ras, crossed))
    for step, ras, crossed in cases:
        label = (f"{step}, now={ras}, called in {'a later interval than' if crossed else 'the same interval as'} "
                 f"{'starttime' if step == 'first call' else 'the last report'}")
        if step == "first call after reset()":
            label = f"{step}, now={ras}, called {'after' if crossed else 'before'} the first boundary of the new schedule"
        if step in ("first call", "first call after reset()"):
            subst = {"n": ({1: 1, "d": 1} if crossed else {1: 0})}
        else:
            subst = {"n": ({"m": 1, 1: 1, "d": 1} if crossed else {"m": 1})}
        env = SymEnv(ints={"n", "m", "d"}, fracs={"rn", "rm"}, subst=subst, pfracs={"sigma"})
        i_ = Lin(env, None, {1: 1})
        s_ = Lin(env, None, None, 1)
        now = s_ + Lin(env, None, {"n": 1, "rn": 1})
        if step == "first call":
            last, expect = None, Lin(env, {"n": 1, 1: (1 if ras else 0)})
        elif step == "later call":
            last, expect = s_ + Lin(env, None, {"m": 1, "rm": 1}), Lin(env, {"n": 1, "m": -1})
        else:
            last, expect = s_ - Lin(env, None, {"sigma": 1}), Lin(env, {"n": 1})   # L = starttime - interval*sigma, 0 < sigma < 1
        sr = SelfRef({"interval": i_, "starttime": s_, "_runAtStart": ras, "_realLastTime": last})
        got = []
        siblings = {"__outer__": None}
        for nm, fn in nd.items():
            siblings[nm] = Closure(fn, siblings)
        it = _with_modf(SymInterp)(sr, meths, {"self.clock.seconds": lambda now=now: now, cb_name: lambda c, got=got: got.append(c)}, self_names=tuple(self_names))
        try:
            it.call_function(counter, [], outer=siblings)
            esign = expect.sign()
            after = sr.attrs.get("_realLastTime")
            if esign > 0:
                ok = len(got) == 1 and Lin.lift(env, got[0]).same(expect) and isinstance(after, Lin) and after.same(now)
                why = f"reported {got!r}, _realLastTime -> {after!r}; expected exactly one report of I(now) - I(baseline) = {expect!r} and _realLastTime = now"
            else:
                ok = not got and (after is last or (isinstance(after, Lin) and (after.same(now) or (last is not None and after.same(last)))))
                why = f"reported {got!r}, _realLastTime -> {after!r}; expected no report (no boundary elapsed) and the baseline kept in the same interval"
        except (EvalUnsupported, EvalAssert) as e:
            ctx.note(f"{rule} [{label}]: shape not recognised / not decidable ({e}); clause left to the bounded rule count/sum-equals-boundaries")
            continue
        ctx.check(ok, rule, qw + f" | {label}", f"with now = starttime + interval*(n + rho): {why}: the counts no longer sum to the number of boundaries elapsed since start()",
                  detail=_SYM_DOMAIN + "; induction: reported count = I(now) - I(previous baseline) and a report moves the baseline to now, so counts telescope")
    # interval == 0: every invocation counts one
    for last0 in (None, 3.0):
        env = SymEnv(ints={"n"}, fracs={"rn"})
        now = Lin(env, {"n": 1, "rn": 1})
        sr = SelfRef({"interval": 0, "starttime": 0.0, "_runAtStart": True, "_realLastTime": last0})
        got = []
        siblings = {"__outer__": None}
        for nm, fn in nd.items():
            siblings[nm] = Closure(fn, siblings)
        it = _with_modf(SymInterp)(sr, meths, {"self.clock.seconds": lambda now=now: now, cb_name: lambda c, got=got: got.append(c)}, self_names=tuple(self_names))
        try:
            it.call_function(counter, [], outer=siblings)
        except (EvalUnsupported, EvalAssert) as e:
            ctx.note(f"{rule} [interval == 0]: shape not recognised ({e}); clause left to the bounded rule")
            continue
        ctx.check(len(got) == 1 and got[0] == 1, rule, qw + f" | interval == 0, {'first' if last0 is None else 'later'} call", f"interval 0: reported {got!r} instead of 1",
                  detail=_SYM_DOMAIN)


def _eval_schedule(ctx, f_sched, meths):
    qs = f"{Q}._scheduleFrom | <delay passed to callLater>"
    cases = []
    for interval in (0.25, 0.5, 1.0, 1.5, 3.0, 7.0):
        for start in (0.0, 0.75, 10.5, 1024.0):
            for j in range(0, 18):
                cases.append((interval, start, start + j * interval / 4, True))
    cases.append((0, 5.0, 7.25, True))
    cases.append((0.0, 0.0, 0.0, True))
    cases.append((3.0, 0.0, 2.0 ** 53, False))       # untilNextInterval (1.0) is absorbed by when
    cases.append((3.0, 0.0, 2.0 ** 53 + 2.0, False))
    cases.append((1.0, 2.0 ** -26, 2.0 ** 27, False))   # remainder 2**-26 moves the elapsed time but not the clock reading 2**27
    cases.append((0.5, 2.0 ** -30, 2.0 ** 24, False))
    bad = None
    n = 0
    for interval, start, when, exact in cases:
        rec = []
        token = object()
        sr = SelfRef({"interval": interval, "starttime": start, "call": None})

        def call_later(delay, fn, rec=rec, token=token):
            rec.append((delay, fn))
            return token
        it = _with_modf(Interp)(sr, meths, {"self.clock.callLater": call_later})
        try:
            it.call_function(f_sched, [when], bind_self=True)
        except EvalUnsupported as e:
            raise AnalysisError(f"C10: _scheduleFrom is outside the evaluable subset: {e}")
        except EvalAssert as e:
            bad = bad or (interval, start, when, f"assert {e} fails")
            continue
        n += 1
        if len(rec) != 1 or rec[0][1] is not sr or isinstance(rec[0][0], bool) or not isinstance(rec[0][0], (int, float)):
            bad = bad or (interval, start, when, f"callLater calls: {len(rec)}")
            continue
        d = rec[0][0]
        if interval == 0:
            ok = d == 0
        else:
            ok = 0 < d <= interval and when + d > when
            if ok and exact:
                ok = ((when + d) - start) % interval == 0
        if not ok and bad is None:
            bad = (interval, start, when, f"delay {d!r}")
    ctx.check(bad is None, "cadence/delay-is-next-boundary", qs,
              "" if bad is None else f"interval={bad[0]} starttime={bad[1]} when={bad[2]}: {bad[3]} does not land on the first boundary "
              "starttime + k*interval strictly after `when`", detail=f"{n} evaluations")
    ctx.extra["delay_evaluations"] = n


def _eval_counter(ctx, f_wc, meths):
    qw = f"{Q}.withCount"
    nd = nested_defs(f_wc)
    params = [a.arg for a in f_wc.args.args]
    ctor = [c for c in body_walk(f_wc) if isinstance(c, ast.Call) and isinstance(c.func, ast.Name) and c.func.id == params[0]
            and len(c.args) == 1 and isinstance(c.args[0], ast.Name) and c.args[0].id in nd]
    ctx.check(len(ctor) == 1, "count/constructed-with-counter", qw, "withCount does not build the LoopingCall around its nested counter")
    if len(ctor) != 1 or len(params) < 2:
        return
    counter = nd[ctor[0].args[0].id]
    # sibling closures of withCount (helpers the counter calls) are interpreted too
    siblings = {"__outer__": None}
    for nm, fn in nd.items():
        siblings[nm] = Closure(fn, siblings)
    # the receiver name used inside the counter is the local the instance is bound to
    self_names = {t.id for st in body_walk(f_wc) for t, v in assign_pairs(st) if isinstance(t, ast.Name) and v is ctor[0]} or {"self"}
    cb_name = params[1]
    bad = None
    n = 0
    patterns = [
        [1.0] * 6, [0.25] * 10, [3.5, 0.5, 7.0, 0.25, 0.25, 1.0, 2.75], [0.5, 0.5, 0.5, 0.5, 4.0], [1.0, 0.0, 1.0, 0.75, 0.25, 10.0],
    ]
    for interval in (0.5, 1.0, 1.5, 0):
        for start in (0.0, 10.25):
            for ras in (True, False):
                # (first-call lateness in intervals, pattern): the very first invocation may happen on time or k >= 2
                # intervals after start() (clock jump before the first scheduled call / a blocked reactor), for now=True and now=False
                histories = [(first, pat) for pat in patterns for first in ((0.0 if ras else 1.0), 2.0, 3.5, 7.25)]
                for first, pat in histories:
                    sr = SelfRef({"interval": interval, "starttime": start, "_runAtStart": ras, "_realLastTime": None})
                    now = [start + first * (interval or 1.0)]
                    got = []
                    it = _with_modf(Interp)(sr, meths, {"self.clock.seconds": lambda now=now: now[0], cb_name: lambda c, got=got: got.append(c)},
                                self_names=tuple(self_names))
                    calls = 0
                    for step in [0.0] + [p * (interval or 1.0) for p in pat]:
                        now[0] += step
                        calls += 1
                        before = len(got)
                        try:
                            it.budget = 4000
                            it.call_function(counter, [], outer=siblings)
                        except EvalUnsupported as e:
                            raise AnalysisError(f"C10: withCount counter is outside the evaluable subset: {e}")
                        except EvalAssert as e:
                            bad = bad or (interval, start, ras, now[0], f"assert {e} fails")
                            break
                        n += 1
                        if interval == 0:
                            expect = calls
                        else:
                            expect = int((now[0] - start) / interval) + (1 if ras else 0)
                        if any((not isinstance(c, int)) or isinstance(c, bool) or c <= 0 for c in got[before:]) and bad is None:
                            bad = (interval, start, ras, now[0], f"count passed {got[before:]}")
                        if sum(c for c in got if isinstance(c, (int, float))) != expect and bad is None:
                            bad = (interval, start, ras, now[0], f"counts {got} sum to {sum(got)}, boundaries elapsed {expect}")
                    if bad:
                        break
    # histories with reset(): reset() only re-anchors starttime (who-may-write/starttime) while a call is pending; afterwards the
    # counts must sum to the boundaries of the new schedule
    for interval in (0.5, 1.0, 1.5):
        for ras in (True, False):
            for frac in (0.25, 0.5, 0.75):
                if bad:
                    break
                start = 0.0
                sr = SelfRef({"interval": interval, "starttime": start, "_runAtStart": ras, "_realLastTime": None})
                now = [start]
                got = []
                it = _with_modf(Interp)(sr, meths, {"self.clock.seconds": lambda now=now: now[0], cb_name: lambda c, got=got: got.append(c)}, self_names=tuple(self_names))
                times = ([start] if ras else []) + [start + interval * k for k in (1, 2, 3)]
                try:
                    for t in times:
                        now[0] = t
                        it.budget = 4000
                        it.call_function(counter, [], outer=siblings)
                    base_sum = sum(got)
                    r = times[-1] + frac * interval          # reset() here
                    sr.attrs["starttime"] = r
                    for k in (1, 4, 4.5, 9):
                        now[0] = r + k * interval
                        it.budget = 4000
                        it.call_function(counter, [], outer=siblings)
                        n += 1
                        if sum(got) != base_sum + int(k) and bad is None:
                            bad = (interval, start, ras, now[0], f"after reset() at t={r}: counts {got} sum to {sum(got)}, boundaries elapsed {base_sum + int(k)}")
                except EvalUnsupported as e:
                    raise AnalysisError(f"C10: withCount counter is outside the evaluable subset: {e}")
                except EvalAssert as e:
                    bad = bad or (interval, start, ras, now[0], f"assert {e} fails")
    ctx.check(bad is None, "count/sum-equals-boundaries", qw + " | <counter>",
              "" if bad is None else f"interval={bad[0]} starttime={bad[1]} now={bad[2]} at t={bad[3]}: {bad[4]}", detail=f"{n} evaluations")
    ctx.extra["counter_evaluations"] = n


_CB = ("            if self.running:\n                self._scheduleFrom(self.clock.seconds())\n            else:\n"
       "                d, self._deferred = self._deferred, None\n                assert d is not None\n                d.callback(self)\n")
_EB = ("            self.running = False\n            d, self._deferred = self._deferred, None\n            assert d is not None\n            d.errback(failure)\n")
_STOP = ("        self.running = False\n        if self.call is not None:\n            self.call.cancel()\n            self.call = None\n"
         "            d, self._deferred = self._deferred, None\n            assert d is not None\n            d.callback(self)\n")

MUTANTS = [
    Mutant("reschedule-in-call", TASK, "        d = maybeDeferred(self.f, *self.a, **self.kw)\n        d.addCallback(cb)\n",
           "        d = maybeDeferred(self.f, *self.a, **self.kw)\n        self._scheduleFrom(self.clock.seconds())\n        d.addCallback(cb)\n",
           expect_rule="no-overlap/reschedule-site"),
    Mutant("errback-fires-in-place", TASK, _EB, "            self.running = False\n            self._deferred.errback(failure)\n", expect_rule="fire-once/swap"),
    Mutant("clear-call-after-f", TASK, "        self.call = None\n        d = maybeDeferred(self.f, *self.a, **self.kw)\n",
           "        d = maybeDeferred(self.f, *self.a, **self.kw)\n        self.call = None\n", expect_rule="call/clears-call-before-f"),
    Mutant("reference-time-captured-before-f", TASK, "                self._scheduleFrom(self.clock.seconds())\n            else:\n",
           "                self._scheduleFrom(began)\n            else:\n",
           more=[(TASK, "        self.call = None\n        d = maybeDeferred(", "        self.call = None\n        began = self.clock.seconds()\n        d = maybeDeferred(")],
           expect_rule="cadence/reference-time"),
    Mutant("delay-ignores-starttime", TASK, "            runningFor = when - self.starttime\n", "            runningFor = when\n",
           expect_rule="cadence/delay-is-next-boundary"),
    Mutant("delay-drops-absorption-check", TASK, "            if when == when + untilNextInterval:\n", "            if untilNextInterval == 0:\n",
           expect_rule="cadence/delay-is-next-boundary"),
    Mutant("absorption-measured-against-elapsed-time", TASK, "            if when == when + untilNextInterval:\n", "            if untilNextInterval + runningFor == runningFor:\n",
           expect_rule="cadence/absorption-test-on-clock-reading"),
    Mutant("interval-number-rounded-down-instead-of-toward-zero", TASK, "        intervalNum = int(elapsedTime / self.interval)\n", "        intervalNum = elapsedTime // self.interval\n",
           expect_rule="count/telescoping-symbolic"),
    Mutant("module-helper-tests-absorption-against-elapsed-time", TASK, "        self.call = self.clock.callLater(howLong(), self)\n", "        wait = _untilNextTick(self.starttime, self.interval, when)\n        self.call = self.clock.callLater(wait, self)\n",
           more=[(TASK, "class LoopingCall:\n", "def _untilNextTick(origin, period, at):\n    if period == 0:\n        return 0\n    into = at - origin\n    left = period - (into % period)\n    absorbed = into + left == into\n    return period if absorbed else left\n\n\nclass LoopingCall:\n")], expect_rule="cadence/absorption-test-on-clock-reading"),
    Mutant("reset-re-anchors-on-a-stale-snapshot", TASK, "            self.starttime = self.clock.seconds()\n            self._scheduleFrom(self.starttime)\n",
           "            again = self.starttime\n            self.starttime = again\n            self._scheduleFrom(again)\n", expect_rule="who-may-write/starttime"),
    Mutant("finished-result-short-circuits-the-callback-chain", TASK, "        d.addCallback(cb)\n        d.addErrback(eb)\n",
           "        if getattr(d, \"called\", False) and not d.paused and not isinstance(d.result, Failure):\n            return cb(d.result)\n        d.addCallback(cb)\n        d.addErrback(eb)\n",
           expect_rule="no-overlap/continuation-only-as-callback"),
    Mutant("chained-registration-loses-the-errback", TASK, "        d = maybeDeferred(self.f, *self.a, **self.kw)\n        d.addCallback(cb)\n        d.addErrback(eb)\n",
           "        chain = maybeDeferred(self.f, *self.a, **self.kw).addCallback(cb)\n        if self.running:\n            chain.addErrback(eb)\n",
           expect_rule="no-overlap/continuation-only-as-callback"),
    Mutant("errback-registered-only-on-one-branch", TASK, "        d.addCallback(cb)\n        d.addErrback(eb)\n",
           "        d.addCallback(cb)\n        if not d.called:\n            d.addErrback(eb)\n", expect_rule="no-overlap/continuation-only-as-callback"),
    Mutant("count-boundary-off-by-one", TASK, "            if count > 0:\n                self._realLastTime = now\n", "            if count > 1:\n                self._realLastTime = now\n",
           expect_rule="count/sum-equals-boundaries"),
    Mutant("count-forgets-immediate-call", TASK, "                    lastTime -= self.interval\n", "                    pass\n",
           expect_rule="count/sum-equals-boundaries"),
    Mutant("first-count-measured-from-now", TASK,
           "                lastTime = self.starttime\n                if self._runAtStart:\n                    assert (\n                        self.interval is not None\n"
           "                    ), \"Looping call called with None interval\"\n                    lastTime -= self.interval\n",
           "                assert self.interval is not None\n                lastTime = now - self.interval\n",
           expect_rule="count/sum-equals-boundaries"),
    Mutant("start-returns-attribute", TASK, "            self._scheduleFrom(self.starttime)\n        return deferred\n",
           "            self._scheduleFrom(self.starttime)\n        return self._deferred\n", expect_rule="start/returns-stored-deferred"),
    Mutant("stop-does-not-cancel", TASK, "        if self.call is not None:\n            self.call.cancel()\n            self.call = None\n            d, self._deferred",
           "        if self.call is not None:\n            self.call = None\n            d, self._deferred", expect_rule="stop/cancels-pending"),
    Mutant("stop-fires-while-in-flight", TASK, _STOP,
           "        self.running = False\n        if self.call is not None:\n            self.call.cancel()\n            self.call = None\n"
           "        d, self._deferred = self._deferred, None\n        assert d is not None\n        d.callback(self)\n",
           expect_rule="stop/fires-only-if-pending"),
    Mutant("failure-leaves-running", TASK, _EB, "            d, self._deferred = self._deferred, None\n            assert d is not None\n            d.errback(failure)\n",
           expect_rule="fire-once/not-running"),
    Mutant("start-schedules-and-calls", TASK, "        if now:\n            self()\n        else:\n            self._scheduleFrom(self.starttime)\n",
           "        if now:\n            self()\n        self._scheduleFrom(self.starttime)\n", expect_rule="no-overlap/reschedule-site"),
    Mutant("stopped-in-flight-never-reports", TASK, _CB, "            if self.running:\n                self._scheduleFrom(self.clock.seconds())\n",
           expect_rule="fire-once/stopped-in-flight"),
    Mutant("reset-while-in-flight", TASK, "        if self.call is not None:\n            self.call.cancel()\n            self.call = None\n            self.starttime = self.clock.seconds()\n            self._scheduleFrom(self.starttime)\n",
           "        if self.call is not None:\n            self.call.cancel()\n            self.call = None\n        self.starttime = self.clock.seconds()\n        self._scheduleFrom(self.starttime)\n",
           expect_rule="no-overlap/reschedule-site"),
    Mutant("f-called-directly", TASK, "        d = maybeDeferred(self.f, *self.a, **self.kw)\n", "        d = succeed(self.f(*self.a, **self.kw))\n",
           expect_rule="call/through-maybeDeferred"),
    Mutant("deferred-set-after-first-call", TASK, "        deferred = self._deferred = Deferred()\n        self.starttime = self.clock.seconds()\n",
           "        self.starttime = self.clock.seconds()\n",
           more=[(TASK, "        if now:\n            self()\n        else:\n            self._scheduleFrom(self.starttime)\n        return deferred\n",
                  "        if now:\n            self()\n        else:\n            self._scheduleFrom(self.starttime)\n        deferred = self._deferred = Deferred()\n        return deferred\n")],
           expect_rule="start/state-before-first-call"),
]

SILENT = [
    Silent("rename-callbacks-and-invert", TASK,
           "        def cb(result: object) -> None:\n" + _CB,
           "        def completed(result: object) -> None:\n            if not self.running:\n                done, self._deferred = self._deferred, None\n"
           "                assert done is not None\n                done.callback(self)\n            else:\n                self._scheduleFrom(self.clock.seconds())\n",
           more=[(TASK, "        d.addCallback(cb)\n        d.addErrback(eb)\n", "        d.addCallbacks(completed)\n        d.addErrback(eb)\n")]),
    Silent("swap-as-two-statements", TASK, _EB,
           "            self.running = False\n            d = self._deferred\n            self._deferred = None\n            assert d is not None\n            d.errback(failure)\n"),
    Silent("delay-inlined-without-nested-function", TASK,
           "        self.call = self.clock.callLater(howLong(), self)\n",
           "        delay = howLong() if self.interval != 0 else 0\n        pending = self.clock.callLater(delay, self)\n        self.call = pending\n"),
    Silent("local-clock-reading", TASK, "                self._scheduleFrom(self.clock.seconds())\n            else:\n",
           "                finishedAt = self.clock.seconds()\n                self._scheduleFrom(finishedAt)\n            else:\n"),
    Silent("counter-comparison-flipped", TASK, "            if count > 0:\n                self._realLastTime = now\n", "            if not count <= 0:\n                self._realLastTime = now\n"),

    # --- shapes of the independent refactor set (helpers extracted / inlined, sibling closures, one call site per branch)
    Silent("absorption-test-through-alias-and-flipped", TASK, "            if when == when + untilNextInterval:\n",
           "            reference = when\n            if reference + untilNextInterval == reference:\n"),
    Silent("callbacks-chained-onto-the-maybeDeferred-call", TASK, "        d = maybeDeferred(self.f, *self.a, **self.kw)\n        d.addCallback(cb)\n        d.addErrback(eb)\n",
           "        maybeDeferred(self.f, *self.a, **self.kw).addCallback(cb).addErrback(eb)\n"),
    Silent("take-helper-extracted", TASK, _EB, "            self.running = False\n            self._detachDeferred().errback(failure)\n",
           more=[(TASK, "    def reset(self) -> None:\n", "    def _detachDeferred(self):\n        waiting, self._deferred = self._deferred, None\n        assert waiting is not None\n        return waiting\n\n    def reset(self) -> None:\n")]),
    Silent("counter-uses-sibling-closure", TASK,
           "                lastTime = self.starttime\n                if self._runAtStart:\n                    assert (\n                        self.interval is not None\n"
           "                    ), \"Looping call called with None interval\"\n                    lastTime -= self.interval\n",
           "                lastTime = firstBaseline()\n",
           more=[(TASK, "        def counter() -> object:\n", "        def firstBaseline() -> float:\n            if not self._runAtStart:\n                return self.starttime\n            return self.starttime - self.interval\n\n        def counter() -> object:\n")]),
    Silent("one-callLater-per-branch", TASK, "        self.call = self.clock.callLater(howLong(), self)\n",
           "        if self.interval == 0:\n            self.call = self.clock.callLater(0, self)\n        else:\n            self.call = self.clock.callLater(howLong(), self)\n"),

    # --- second round of independent refactors: closures lifted to bound methods, a helper that answers a question in an if-test
    Silent("callbacks-as-bound-methods-and-cancel-question-helper", TASK, "        def cb(result: object) -> None:\n" + _CB + "\n        def eb(failure: Failure) -> None:\n" + _EB + "\n", "",
           more=[(TASK, "        d.addCallback(cb)\n        d.addErrback(eb)\n", "        d.addCallback(self._done)\n        d.addErrback(self._failed)\n"),
                 (TASK, "    def _scheduleFrom(self, when: float) -> None:\n",
                  "    def _done(self, result: object) -> None:\n" + _CB.replace("            ", "        ", 1).replace("\n            ", "\n        ") +
                  "\n    def _failed(self, failure: Failure) -> None:\n" + _EB.replace("            ", "        ", 1).replace("\n            ", "\n        ") +
                  "\n    def _dropPending(self) -> bool:\n        if self.call is None:\n            return False\n        self.call.cancel()\n        self.call = None\n        return True\n\n"
                  "    def _scheduleFrom(self, when: float) -> None:\n"),
                 (TASK, "        if self.call is not None:\n            self.call.cancel()\n            self.call = None\n            self.starttime = self.clock.seconds()\n",
                  "        if self._dropPending():\n            self.starttime = self.clock.seconds()\n"),
                 (TASK, "        if self.call is not None:\n            self.call.cancel()\n            self.call = None\n            d, self._deferred", "        if self._dropPending():\n            d, self._deferred")]),
    # --- third round: snapshot locals for the clock readings, the delay computed by a module-level pure helper with one conditional return
    Silent("snapshot-locals-and-module-level-delay-helper", TASK, "        self.call = self.clock.callLater(howLong(), self)\n", "        wait = _untilNextTick(self.starttime, self.interval, when)\n        self.call = self.clock.callLater(wait, self)\n",
           more=[(TASK, "class LoopingCall:\n", "def _untilNextTick(origin, period, at):\n    if period == 0:\n        return 0\n    into = at - origin\n    left = period - (into % period)\n    absorbed = at + left == at\n    return period if absorbed else left\n\n\nclass LoopingCall:\n"), (TASK, "        self.starttime = self.clock.seconds()\n        self.interval = interval\n", "        began = self.clock.seconds()\n        self.starttime = began\n        self.interval = interval\n"),
                 (TASK, "            self.starttime = self.clock.seconds()\n            self._scheduleFrom(self.starttime)\n", "            again = self.clock.seconds()\n            self.starttime = again\n            self._scheduleFrom(again)\n")]),
]
