"""C04 - DeferredList, gatherResults and race fire once with correctly ordered results."""
from __future__ import annotations

import ast
import itertools

from sa.astx import NotConst, const_eval, dotted, module_consts, src
from sa.selftest import Mutant, Silent
from sa.source import AnalysisError
from sa.props._lib_a import (inlined_func, DEFER, Q, group, attr_of, avoiding_path, call_nodes, calls_of, const_int, exc_escape, catching_handlers, facts,
                             handler_names, ident_fact, is_const, is_name, known_bool, known_ident, known_none, kw, method_call,
                             name_assign_nodes, no_exc, params, passes_between, stmt_nodes, succ_on, targets_values)

PROPERTY = "C04"
TECHNIQUE = "exhaustive guard-assignment evaluation of _cbDeferred; CFG dominance/def-use elsewhere (structural)"
EXPLANATION = (
    "[finite-exhaustive] DeferredList._cbDeferred (private helpers inlined) is evaluated path by path over all 64 valuations of (succeeded, called, fireOnOneCallback, "
    "fireOnOneErrback, consumeErrors, all-finished) and compared with the documented decision table: result stored at the input's "
    "index before any firing, counter +1 once before the completion test, never fires when already called, fires (result, index) / "
    "FirstError(result, index) / the result list as specified, returns None exactly for a consumed failure; the domain is complete because the function branches on nothing else (checked: cb/domain-complete) and only stores/forwards result and index. [structural: CFG dominance, must-pass, def-use, exception escape] DeferredList.__init__: "
    "index counter 0,+1 per input and the same variable in callbackArgs/errbackArgs with SUCCESS/FAILURE the right way round, flags and "
    "counters initialised before callbacks are attached; cancel(): every input cancelled under `not called` with a catch-all "
    "around each call-out. gatherResults: keyword agreement and order-preserving extraction. race: closures decided by dominance "
    "(winner guard, winner assigned before the cancel call-outs, winner skipped, payload order, all-failed test, sort before "
    "extraction, cancel closure covers the copied list, enumerate index to both callbacks). Not decided: result values under "
    "arbitrary firing permutations (value flow through user Deferreds); empty-list behaviour."
)
RULE_KINDS = {
    # _cbDeferred (helpers inlined) evaluated path by path by the checker's own evaluator over EVERY truth assignment of the
    # conditions it branches on (see cb/domain-complete for the completeness argument)
    "cb/domain-complete": "structural",
    "cb/": "finite-exhaustive",
    # __init__, cancel, gatherResults, race: CFG dominance / must-pass, def-use of the index, exception escape, who-may-mutate
    "*": "structural",
}
ASSUMPTIONS = [
    "finishedCount never exceeds len(resultList) (each input fires its _cbDeferred once: C03)",
    "SUCCESS / FAILURE are the module-level constants of defer.py",
]

FLAGS = ("succeeded", "called", "fireOnOneCallback", "fireOnOneErrback", "consumeErrors", "complete")


class _Unknown(Exception):
    pass


def _unwrap_cast(e):
    while isinstance(e, ast.Call) and (dotted(e.func) or "").split(".")[-1] == "cast" and len(e.args) == 2:
        e = e.args[1]
    return e


class _CbEval:
    """Path evaluation of DeferredList._cbDeferred under a valuation of its boolean inputs."""

    def __init__(self, ctx, f, consts):
        self.ctx = ctx
        self.f = f
        self.g = ctx.cfg(f)
        ps = params(f)
        ctx.need(len(ps) >= 4, "_cbDeferred(self, result, index, succeeded) signature")
        self.p_result, self.p_index, self.p_flag = ps[1], ps[2], ps[3]
        self.consts = consts

    def _is_count(self, e):
        return attr_of(e, "finishedCount", "self")

    def _is_total(self, e):
        return isinstance(e, ast.Call) and dotted(e.func) == "len" and len(e.args) == 1 and \
            (attr_of(e.args[0], "resultList", "self") or attr_of(e.args[0], "_deferredList", "self"))

    def ev(self, e, env, trace):
        if isinstance(e, ast.Constant):
            return e.value
        if isinstance(e, ast.Name):
            for ev_ in reversed(trace):          # named temporaries of this path
                if ev_[0] == "let" and ev_[1] == e.id:
                    return ev_[2]
                if ev_[0] == "alias" and ev_[1] == e.id:
                    return self.ev(ast.Name(id=ev_[2], ctx=ast.Load()), env, [])
                if ev_[0] == "expr" and ev_[1] == e.id:
                    return self.ev(ev_[2], env, [])
                if ev_[0] == "forget" and ev_[1] == e.id:
                    raise _Unknown(e.id)
            if e.id == self.p_flag:
                return env["succeeded"]
            if e.id in self.consts:
                return self.consts[e.id]
            raise _Unknown(e.id)
        if isinstance(e, ast.Attribute) and is_name(e.value, "self") and e.attr in ("called", "fireOnOneCallback", "fireOnOneErrback", "consumeErrors"):
            return env[e.attr]
        if isinstance(e, ast.UnaryOp) and isinstance(e.op, ast.Not):
            return not self.ev(e.operand, env, trace)
        if isinstance(e, ast.BoolOp):
            vals = [bool(self.ev(x, env, trace)) for x in e.values]
            return all(vals) if isinstance(e.op, ast.And) else any(vals)
        if isinstance(e, ast.Compare) and len(e.ops) == 1:
            l, r, op = e.left, e.comparators[0], type(e.ops[0])
            flip = {ast.Lt: ast.Gt, ast.Gt: ast.Lt, ast.LtE: ast.GtE, ast.GtE: ast.LtE}
            if self._is_total(l) and self._is_count(r):
                l, r, op = r, l, flip.get(op, op)
            if self._is_count(l) and self._is_total(r):
                trace.append(("test-complete",))
                c = env["complete"]
                # count <= total always (assumption): == and >= mean "complete"
                return {ast.Eq: c, ast.GtE: c, ast.NotEq: not c, ast.Lt: not c, ast.Gt: False, ast.LtE: True}[op] if op in (
                    ast.Eq, ast.GtE, ast.NotEq, ast.Lt, ast.Gt, ast.LtE) else self._unknown(e)
            a, b = self.ev(l, env, trace), self.ev(r, env, trace)
            if op in (ast.Eq, ast.Is):
                return a == b
            if op in (ast.NotEq, ast.IsNot):
                return a != b
        raise _Unknown(src(e))

    def _unknown(self, e):
        raise _Unknown(src(e))

    def paths(self, env):
        """all event traces from entry to the normal exit under env (unknown tests fork)"""
        g = self.g
        out = []
        stack = [(g.entry, [], 0)]
        while stack:
            n, trace, depth = stack.pop()
            if depth > 400:
                raise AnalysisError("C04: _cbDeferred contains a loop; path evaluation not applicable")
            node = g.node(n)
            if n == g.exit:
                out.append(trace)
                continue
            if n == g.raise_exit:
                out.append(trace + [("raise",)])
                continue
            trace = list(trace)
            if node.kind == "for":
                raise AnalysisError("C04: loop in _cbDeferred; path evaluation not applicable")
            if node.kind == "stmt":
                for t_, v_ in targets_values(node.ast):
                    if isinstance(t_, ast.Name):
                        try:
                            if v_ is None:
                                raise _Unknown(t_.id)
                            trace.append(("let", t_.id, self.ev(v_, env, trace)))
                        except _Unknown:
                            params_ = (self.p_result, self.p_index, self.p_flag)
                            if isinstance(v_, ast.Name) and (v_.id in params_ or self._alias(v_.id, trace) in params_):
                                trace.append(("alias", t_.id, self._alias(v_.id, trace)))
                            elif v_ is not None:
                                trace.append(("expr", t_.id, self._norm(v_, trace)))     # a named temporary: seen through where it is used
                            else:
                                trace.append(("forget", t_.id))
                self._events(node.ast, trace)
                if trace and trace[-1][0] in ("return", "store", "fire"):
                    trace[-1] = tuple(self._norm(x, trace) if isinstance(x, ast.AST) else x for x in trace[-1])
                if trace and trace[-1][0] == "return":
                    v = trace[-1][1]
                    try:
                        while isinstance(v, ast.IfExp):
                            v = v.body if self.ev(v.test, env, trace) else v.orelse
                        trace[-1] = ("return", v)
                    except _Unknown:
                        pass
            if node.kind == "test":
                try:
                    v = bool(self.ev(node.ast, env, trace))
                    labs = ["T" if v else "F"]
                except _Unknown:
                    labs = ["T", "F"]
                for d, l in g.succ[n]:
                    if l in labs:
                        stack.append((d, trace, depth + 1))
                continue
            for d, l in g.succ[n]:
                if l == "exc":
                    continue
                stack.append((d, trace, depth + 1))
        return out

    def _alias(self, name, trace):
        """the parameter a local currently stands for (plain copies only), else the name itself"""
        for ev_ in reversed(trace):
            if ev_[0] in ("let", "forget", "expr") and ev_[1] == name:
                return name
            if ev_[0] == "alias" and ev_[1] == name:
                return ev_[2]
        return name

    def _norm(self, expr, trace):
        """copy of an expression with locals that are plain copies of a parameter replaced by that parameter"""
        ev = self

        class T(ast.NodeTransformer):
            def visit_Name(self, n):
                for ev_ in reversed(trace):
                    if ev_[0] == "expr" and ev_[1] == n.id and isinstance(n.ctx, ast.Load):
                        return clone(ev_[2])
                    if ev_[0] == "let" and ev_[1] == n.id and isinstance(n.ctx, ast.Load) and (ev_[2] is None or isinstance(ev_[2], bool)):
                        return ast.copy_location(ast.Constant(value=ev_[2]), n)
                    if ev_[0] in ("let", "forget", "alias") and ev_[1] == n.id:
                        break
                a = ev._alias(n.id, trace)
                return ast.copy_location(ast.Name(id=a, ctx=n.ctx), n) if a != n.id else n
        from sa.props._lib_a import clone
        return T().visit(clone(expr))

    def _events(self, st, trace):
        if isinstance(st, ast.Assert):
            return
        if isinstance(st, ast.Return):
            trace.append(("return", st.value))
            return
        for t, v in targets_values(st):
            if isinstance(t, ast.Subscript) and attr_of(t.value, "resultList", "self"):
                trace.append(("store", t.slice, v))
            elif attr_of(t, "finishedCount", "self"):
                inc = isinstance(st, ast.AugAssign) and isinstance(st.op, ast.Add) and const_int(st.value) == 1
                inc = inc or (isinstance(v, ast.BinOp) and isinstance(v.op, ast.Add) and
                              {src(v.left), src(v.right)} == {"self.finishedCount", "1"})
                trace.append(("count", 1 if inc else "?"))
            elif isinstance(t, ast.Attribute) and is_name(t.value, "self") and t.attr in ("called", "result"):
                trace.append(("other", src(st)))
        if isinstance(st, ast.Expr) and isinstance(st.value, ast.Call):
            c = st.value
            if method_call(c, "callback", "self") or method_call(c, "errback", "self"):
                trace.append(("fire", c.func.attr, c.args[0] if c.args else None))
            elif method_call(c, "_startRunCallbacks", "self"):
                trace.append(("fire", "raw", c.args[0] if c.args else None))

    # -- payload shapes -----------------------------------------------------------------------
    def is_pair(self, e, a, b):
        return isinstance(e, ast.Tuple) and len(e.elts) == 2 and is_name(e.elts[0], a) and is_name(e.elts[1], b)

    def is_first_error(self, e):
        if not (isinstance(e, ast.Call) and dotted(e.func) == "Failure" and len(e.args) == 1):
            return False
        fe = e.args[0]
        return isinstance(fe, ast.Call) and dotted(fe.func) == "FirstError" and len(fe.args) == 2 and not fe.keywords \
            and is_name(fe.args[0], self.p_result) and is_name(fe.args[1], self.p_index)


def _expected(env):
    if env["called"]:
        fire = None
    elif env["succeeded"] and env["fireOnOneCallback"]:
        fire = "one-callback"
    elif (not env["succeeded"]) and env["fireOnOneErrback"]:
        fire = "one-errback"
    elif env["complete"]:
        fire = "all"
    else:
        fire = None
    ret = "None" if ((not env["succeeded"]) and env["consumeErrors"]) else "result"
    return fire, ret


def _env_label(env):
    return " ".join(f"{k}={'T' if env[k] else 'F'}" for k in FLAGS)


def _check_cb(ctx, consts):
    f = inlined_func(ctx, DEFER, "DeferredList._cbDeferred")
    q = Q + "DeferredList._cbDeferred"
    E = _CbEval(ctx, f, consts)
    # completeness of the enumerated domain, checked on the code: which conditions does the function branch on?
    g = E.g
    tests = [src(t.ast) for t in g.nodes if t.kind == "test" and g.reachable(t.id)]
    vocab = {E.p_flag, "SUCCESS", "FAILURE", "self", "len", "called", "fireOnOneCallback", "fireOnOneErrback", "consumeErrors", "finishedCount",
             "resultList", "_deferredList"}
    locs = {x.id for x in ast.walk(f) if isinstance(x, ast.Name) and isinstance(x.ctx, ast.Store)}
    outside = []
    for t in g.nodes:
        if t.kind == "test" and g.reachable(t.id):
            names = {x.id for x in ast.walk(t.ast) if isinstance(x, ast.Name)} | {x.attr for x in ast.walk(t.ast) if isinstance(x, ast.Attribute)}
            if names - vocab - locs:
                outside.append(src(t.ast))
    domain = ("finite-exhaustive: all 64 truth assignments of (succeeded, self.called, self.fireOnOneCallback, self.fireOnOneErrback, self.consumeErrors, "
              "finishedCount == len(resultList)); these are the only facts the function's branch conditions read ("
              + "; ".join(tests) + "), named temporaries are evaluated from their definitions"
              + (f"; conditions reading anything else are followed both ways: {'; '.join(outside)}" if outside else "")
              + "; result and index are only stored / passed on, never inspected, so one symbolic value each suffices")
    ctx.ok("cb/domain-complete", q, domain)
    CB_NOTE = "one of the 64 truth assignments; see cb/domain-complete for why they are all the cases"
    for vals in itertools.product((True, False), repeat=len(FLAGS)):
        env = dict(zip(FLAGS, vals))
        lab = _env_label(env)
        want_fire, want_ret = _expected(env)
        traces = E.paths(env)
        ctx.need(traces, "a path through _cbDeferred")
        p_store = p_count = p_once = p_decide = p_payload = p_ret = p_order = True
        why = []
        for tr in traces:
            stores = [e for e in tr if e[0] == "store"]
            counts = [e for e in tr if e[0] == "count"]
            fires = [e for e in tr if e[0] == "fire"]
            rets = [e for e in tr if e[0] == "return"]
            if not (len(stores) == 1 and is_name(stores[0][1], E.p_index) and E.is_pair(stores[0][2], E.p_flag, E.p_result)):
                p_store = False
                why.append("stores=" + ";".join(f"[{src(s[1])}]={src(s[2])}" for s in stores))
            if not (len(counts) == 1 and counts[0][1] == 1):
                p_count = False
            if len(fires) > 1 or (env["called"] and fires) or any(e[0] in ("raise", "other") for e in tr):
                p_once = False
            kind = None
            if len(fires) == 1:
                _, how, arg = fires[0]
                a = _unwrap_cast(arg) if arg is not None else None
                if how == "callback" and E.is_pair(a, E.p_result, E.p_index):
                    kind = "one-callback"
                elif how == "errback" and E.is_first_error(a):
                    kind = "one-errback"
                elif how == "callback" and a is not None and attr_of(a, "resultList", "self"):
                    kind = "all"
                else:
                    kind = "?"
                    why.append(f"payload={how}({src(arg)})")
            if not env["called"]:
                if kind == "?":
                    p_payload = False
                    # decide on the method + coarse shape so that a payload slip is reported once, by the payload rule
                    how = fires[0][1]
                    coarse = {"one-callback": "callback", "one-errback": "errback", "all": "callback"}.get(want_fire)
                    if coarse != how:
                        p_decide = False
                elif kind != want_fire:
                    p_decide = False
                    why.append(f"fires={kind} expected={want_fire}")
            # order: store and count come before the firing / the completion test
            idx = {e[0]: i for i, e in reversed(list(enumerate(tr)))}
            if "fire" in idx and ("store" not in idx or idx["store"] > idx["fire"]):
                p_order = False
            if "test-complete" in idx and ("count" not in idx or idx["count"] > idx["test-complete"]):
                p_order = False
            r = rets[-1][1] if rets else None
            got = "None" if (r is None or is_const(r, None)) else ("result" if is_name(r, E.p_result) else "?")
            if got != want_ret:
                p_ret = False
                why.append(f"returns={src(r) if r is not None else 'None'} expected={want_ret}")
        w = "; ".join(dict.fromkeys(why))
        cons = f"{q} | {lab}"
        ctx.check(p_store, "cb/stores-result-at-index", cons, detail=CB_NOTE, fails=f"resultList[index] = (succeeded, result) is not stored exactly once ({w})")
        ctx.check(p_count, "cb/counts-once", cons, detail=CB_NOTE, fails="finishedCount is not incremented exactly once per input result")
        ctx.check(p_once, "cb/fires-at-most-once", cons, detail=CB_NOTE, fails=f"the DeferredList is fired although already called, or twice in one call ({w})")
        ctx.check(p_decide, "cb/fire-decision", cons, detail=CB_NOTE, fails=f"wrong firing decision for this flag combination ({w})")
        ctx.check(p_payload, "cb/fire-payload", cons, detail=CB_NOTE, fails=f"the DeferredList fires with the wrong payload ({w})")
        ctx.check(p_order, "cb/store-and-count-before-firing", cons, detail=CB_NOTE, fails=
                  "the result list is handed out / completion is tested before this input's result and count are recorded")
        ctx.check(p_ret, "cb/return-value", cons, detail=CB_NOTE, fails=f"wrong value passed on to callbacks added later to the input ({w})")


def _loop_heads(g, pred):
    return [n.id for n in g.nodes if n.kind == "for" and g.reachable(n.id) and pred(n.ast)]


def _no_early_exit(g, head):
    """witness if an iteration of the loop can leave the function / loop without returning to the head"""
    body = succ_on(g, [head], "iter")
    done = set(succ_on(g, [head], "done")) | {g.exit}
    return avoiding_path(g, body, done, [head], strict=False)


def _bind(call: ast.Call, f) -> dict:
    """parameter name -> argument expression (positional + keywords; self skipped for methods)"""
    ps = params(f)
    if ps and ps[0] == "self":
        ps = ps[1:]
    out = {}
    for p, a in zip(ps, call.args):
        out[p] = a
    for k in call.keywords:
        if k.arg:
            out[k.arg] = k.value
    return out


def check(ctx):
    mod = ctx.mod(DEFER)
    consts = {k: v for k, v in module_consts(mod).items() if k in ("SUCCESS", "FAILURE")}
    ctx.check(consts.get("SUCCESS") is True and consts.get("FAILURE") is False, "constants/success-failure", Q + "SUCCESS/FAILURE",
              f"SUCCESS/FAILURE are no longer True/False ({consts}): the first element of every (success, result) pair is wrong")
    consts.setdefault("SUCCESS", True)
    consts.setdefault("FAILURE", False)

    for name, fn in (("DeferredList._cbDeferred", lambda: _check_cb(ctx, consts)), ("DeferredList.__init__", lambda: _check_init(ctx, consts)),
                     ("DeferredList.cancel", lambda: _check_cancel(ctx)), ("gatherResults", lambda: _check_gather(ctx)),
                     ("race", lambda: _check_race(ctx))):
        with group(ctx, name):
            fn()


# ---------------------------------------------------------------------------------------------
def _check_init(ctx, consts):
    f = inlined_func(ctx, DEFER, "DeferredList.__init__")
    g = ctx.cfg(f)
    q = Q + "DeferredList.__init__"
    cb = ctx.func(DEFER, "DeferredList._cbDeferred")
    is_reg = lambda c: isinstance(c.func, ast.Attribute) and c.func.attr in ("addCallbacks", "addBoth", "addCallback", "addErrback") and \
        any(attr_of(x, "_cbDeferred", "self") for a in list(c.args) + [k.value for k in c.keywords] for x in ast.walk(a))
    all_regs = call_nodes(g, is_reg)
    ctx.check(bool(all_regs), "init/registers-each-input", q + " | <registration of self._cbDeferred>",
              "DeferredList.__init__ attaches self._cbDeferred to nothing: the list never learns about its inputs")
    heads = [h for h in _loop_heads(g, lambda st: True) if any(g.path([h], [r], strict=True) and g.path([r], [h], strict=True) for r in all_regs)]
    ctx.check(len(heads) == 1, "init/one-registration-loop", q, f"self._cbDeferred is attached in {len(heads)} loops (expected exactly one loop over the inputs)")
    if not heads:
        return
    head = heads[0]
    st = g.node(head).ast
    it_src = st.iter.args[0] if isinstance(st.iter, ast.Call) and dotted(st.iter.func) == "enumerate" and st.iter.args else st.iter
    ctx.check(attr_of(it_src, "_deferredList", "self"), "init/iterates-the-copied-inputs", q + " | " + src(st.iter),
              "callbacks are attached while iterating something other than self._deferredList (the argument may be a one-shot iterable already "
              "consumed by list(), or differ in length/order from resultList)")
    # the inputs are copied once and the result list has one slot per input
    copies = stmt_nodes(g, lambda s: any(attr_of(t, "_deferredList", "self") and isinstance(v, ast.Call) and dotted(v.func) == "list"
                                         and len(v.args) == 1 and is_name(v.args[0], params(f)[1]) for t, v in targets_values(s) if v is not None))
    ctx.check(len(copies) == 1 and g.must_precede(copies, [head]) is None, "init/inputs-copied", q,
              "self._deferredList is not list(deferredList) made before the callbacks are attached")
    rl = [(n, v) for n in stmt_nodes(g, lambda s: True) for t, v in targets_values(g.node(n).ast) if attr_of(t, "resultList", "self")]
    def is_inputs(e):
        return attr_of(e, "_deferredList", "self")

    def is_count(e, depth=0):
        """len(self._deferredList), or a local that was assigned it (once)"""
        if isinstance(e, ast.Call) and dotted(e.func) == "len" and len(e.args) == 1 and is_inputs(e.args[0]):
            return True
        if isinstance(e, ast.Name) and depth < 2:
            defs = name_assign_nodes(g, e.id)
            vals = [v for d in defs for t, v in targets_values(g.node(d).ast) if is_name(t, e.id)]
            return len(vals) == 1 and vals[0] is not None and is_count(vals[0], depth + 1) and g.must_precede(copies, defs) is None
        return False
    ok = False
    for n, v in rl:
        if isinstance(v, ast.BinOp) and isinstance(v.op, ast.Mult):
            sides = [v.left, v.right]
            lst = [s for s in sides if isinstance(s, ast.List) and len(s.elts) == 1 and is_const(s.elts[0], None)]
            ok = bool(lst) and any(is_count(s) for s in sides)
        elif isinstance(v, ast.ListComp) and is_const(v.elt, None) and len(v.generators) == 1 and not v.generators[0].ifs:
            it = v.generators[0].iter
            ok = is_inputs(it) or (isinstance(it, ast.Call) and dotted(it.func) == "range" and len(it.args) == 1 and is_count(it.args[0]))
    ctx.check(len(rl) == 1 and ok and g.must_precede([rl[0][0]], [head]) is None and g.must_precede(copies, [rl[0][0]]) is None,
              "init/result-list-sized", q, "resultList is not [None] * len(self._deferredList) created before the callbacks are attached")
    # flags and counter are in place before callbacks are attached (inputs may already have fired)
    for attr, want in (("fireOnOneCallback", lambda v: is_name(v, "fireOnOneCallback")), ("fireOnOneErrback", lambda v: is_name(v, "fireOnOneErrback")),
                       ("consumeErrors", lambda v: is_name(v, "consumeErrors")), ("finishedCount", lambda v: const_int(v) == 0)):
        sets = stmt_nodes(g, lambda s: any(attr_of(t, attr, "self") for t, _ in targets_values(s)))
        good = [n for n in sets if any(attr_of(t, attr, "self") and v is not None and want(v) for t, v in targets_values(g.node(n).ast))]
        wit = g.must_precede(good, [head]) if good else [g.entry, head]
        ctx.check(bool(good) and len(sets) == len(good) and wit is None, "init/state-before-registration", f"{q} | self.{attr}",
                  f"self.{attr} is not set (from its own parameter / to 0) on every path before callbacks are attached: an input that has "
                  "already fired runs _cbDeferred synchronously with the wrong flag / counter", witness=g.describe(wit))
    # registration
    in_loop = [n for n in all_regs if g.path([head], [n], strict=True) and g.path([n], [head], strict=True)]
    regs = [n for n in in_loop if calls_of(g, n, is_reg)[0].func.attr == "addCallbacks"]
    ctx.check(len(regs) == 1 and len(in_loop) == 1, "init/registers-each-input", q,
              f"expected one `<input>.addCallbacks(self._cbDeferred, self._cbDeferred, ...)` per input, found "
              f"{[calls_of(g, n, is_reg)[0].func.attr for n in in_loop]}: success and failure of an input must both be recorded, with their own flag")
    wit = _no_early_exit(g, head)
    ctx.check(wit is None, "init/registers-each-input", q + " | <loop covers every input>", "the registration loop can stop before the last input",
              witness=g.describe(wit))
    for r in regs:
        c = calls_of(g, r, lambda c: isinstance(c.func, ast.Attribute) and c.func.attr == "addCallbacks")[0]
        cons = ctx.construct(q, "<input>.addCallbacks(...)")
        # loop variable
        if isinstance(st.target, ast.Tuple):
            dvar = st.target.elts[-1].id if isinstance(st.target.elts[-1], ast.Name) else None
        else:
            dvar = st.target.id if isinstance(st.target, ast.Name) else None
        ctx.check(is_name(c.func.value, dvar), "init/registers-each-input", cons + " (receiver)", "callbacks are not attached to the loop's Deferred")
        wit = avoiding_path(g, succ_on(g, [head], "iter"), [head], [r], strict=False)
        ctx.check(wit is None, "init/registers-each-input", cons + " (every iteration)", "an input can be skipped by the registration loop",
                  witness=g.describe(wit))
        b = _bind(c, _addcallbacks_sig(ctx))
        cbx, ebx, ca, ea = b.get("callback"), b.get("errback"), b.get("callbackArgs"), b.get("errbackArgs")
        ctx.check(cbx is not None and ebx is not None and attr_of(cbx, "_cbDeferred", "self") and attr_of(ebx, "_cbDeferred", "self"),
                  "init/both-outcomes-recorded", cons, "success and failure of an input are not both routed to self._cbDeferred")
        shape = isinstance(ca, ast.Tuple) and isinstance(ea, ast.Tuple) and len(ca.elts) == 2 and len(ea.elts) == 2 and \
            not b.get("callbackKeywords") and not b.get("errbackKeywords")
        ctx.check(shape, "init/extra-args-shape", cons, "callbackArgs / errbackArgs are not (index, flag) pairs matching _cbDeferred(result, index, succeeded)")
        if not shape:
            continue
        ctx.check(isinstance(ca.elts[0], ast.Name) and src(ca.elts[0]) == src(ea.elts[0]), "init/same-index-both-outcomes", cons,
                  f"success is recorded at index `{src(ca.elts[0])}` but failure at `{src(ea.elts[0])}`")

        def flag(e):
            try:
                return const_eval(e, consts)
            except NotConst:
                return "?"
        ctx.check(flag(ca.elts[1]) is True and flag(ea.elts[1]) is False, "init/flag-matches-outcome", cons,
                  f"the success callback passes succeeded={src(ca.elts[1])} and the errback succeeded={src(ea.elts[1])}")
        # _cbDeferred parameter order agrees with the tuple order
        cps = params(cb)
        uses_idx = any(isinstance(x, ast.Subscript) and attr_of(x.value, "resultList", "self") and is_name(x.slice, cps[2]) for x in ast.walk(cb))
        ctx.check(len(cps) == 4 and uses_idx, "init/extra-args-shape", cons + " (parameter order)",
                  "the first extra argument is not the parameter _cbDeferred uses as the index")
        # provenance of the index
        iname = ca.elts[0].id if isinstance(ca.elts[0], ast.Name) else None
        if iname is None:
            continue
        icons = q + " | <index of the input>"
        if isinstance(st.target, ast.Tuple) and is_name(st.target.elts[0], iname):
            it = st.iter
            ok = isinstance(it, ast.Call) and dotted(it.func) == "enumerate" and len(it.args) == 1 and attr_of(it.args[0], "_deferredList", "self") \
                and (kw(it, "start") is None or const_int(kw(it, "start")) == 0)
            ctx.check(ok, "init/index-counts-from-zero", icons, "the index does not come from enumerate(self._deferredList) starting at 0")
            ctx.check(not [n for n in name_assign_nodes(g, iname) if n != head], "init/index-plus-one-per-input", icons,
                      "the enumerate index is modified inside the loop")
        else:
            defs = name_assign_nodes(g, iname)
            inits = [n for n in defs if any(is_name(t, iname) and v is not None and const_int(v) == 0 for t, v in targets_values(g.node(n).ast))]
            incs = [n for n in defs if _is_incr(g.node(n).ast, iname)]
            other = [n for n in defs if n not in inits and n not in incs]
            wit = g.must_precede(inits, [head]) if inits else [g.entry, head]
            ctx.check(bool(inits) and wit is None and not any(g.path([head], [i], strict=True) for i in inits), "init/index-counts-from-zero", icons,
                      "the index is not initialised to 0 once before the loop", witness=g.describe(wit))
            ctx.check(not other, "init/index-plus-one-per-input", icons + " (other writes)", "the index is assigned in another way inside __init__")
            body = succ_on(g, [head], "iter")
            wit = avoiding_path(g, body, [head], incs, strict=False)
            ctx.check(bool(incs) and wit is None, "init/index-plus-one-per-input", icons,
                      "an iteration can finish without incrementing the index: two inputs share a slot", witness=g.describe(wit))
            wit = avoiding_path(g, incs, incs, [head])
            ctx.check(wit is None, "init/index-plus-one-per-input", icons + " (once)", "the index is incremented twice in one iteration",
                      witness=g.describe(wit))
            ctx.check(not passes_between(g, body, incs, [r], stop=[head]) and not any(i in body and i == r for i in incs), "init/index-used-before-increment", icons,
                      "the index is incremented before it is passed to the callbacks: slot 0 is never filled and the last input overflows")


def _is_incr(st, name):
    if isinstance(st, ast.AugAssign):
        return is_name(st.target, name) and isinstance(st.op, ast.Add) and const_int(st.value) == 1
    if isinstance(st, ast.Assign) and len(st.targets) == 1 and is_name(st.targets[0], name) and isinstance(st.value, ast.BinOp) \
            and isinstance(st.value.op, ast.Add):
        l, r = st.value.left, st.value.right
        return (is_name(l, name) and const_int(r) == 1) or (is_name(r, name) and const_int(l) == 1)
    return False


def _addcallbacks_sig(ctx):
    from sa.props._lib_a import real_func
    return real_func(ctx, DEFER, "Deferred.addCallbacks")


# ---------------------------------------------------------------------------------------------
def _check_cancel(ctx):
    f = inlined_func(ctx, DEFER, "DeferredList.cancel")
    g = ctx.cfg(f, exception_is_all=False)
    q = Q + "DeferredList.cancel"
    heads = _loop_heads(g, lambda st: any(attr_of(x, "_deferredList", "self") for x in ast.walk(st.iter)))
    ctx.check(len(heads) == 1, "cancel/iterates-inputs", q, "cancel() does not loop over self._deferredList")
    for head in heads:
        var = g.node(head).ast.target
        outs = call_nodes(g, lambda c: isinstance(c.func, ast.Attribute) and c.func.attr == "cancel" and isinstance(var, ast.Name) and is_name(c.func.value, var.id))
        ctx.check(len(outs) >= 1, "cancel/iterates-inputs", q + " | <input>.cancel()", "no input is cancelled in the loop")
        ctx.check(known_bool(g, head, lambda e: attr_of(e, "called", "self")) is False, "cancel/only-if-unfired", q,
                  "inputs are cancelled although the DeferredList has already fired")
        # when not called the loop is reached
        ctests = {t.id for t in g.nodes if t.kind == "test" and attr_of(t.ast, "called", "self")}
        wit = g.path([g.entry], [g.exit], avoid={head}, edge_ok=lambda a, b, l: l != "exc" and not (a in ctests and l == "T"))
        ctx.check(wit is None, "cancel/unfired-cancels-inputs", q, "an unfired DeferredList can return from cancel() without visiting its inputs",
                  witness=g.describe(wit))
        wit = avoiding_path(g, succ_on(g, [head], "iter"), [head], outs, strict=False)
        ctx.check(wit is None, "cancel/every-input", q + " | <input>.cancel()", "an input can be skipped", witness=g.describe(wit))
        wit = _no_early_exit(g, head)
        ctx.check(wit is None, "cancel/every-input", q + " | <loop covers every input>", "the loop can stop before the last input",
                  witness=g.describe(wit))
        for o in outs:
            wit = exc_escape(g, o)
            hs = catching_handlers(g, o)
            ctx.check(wit is None, "cancel/isolated-call-out", q + " | <input>.cancel()",
                      "an exception raised by one input's canceller (BaseException included) leaves the loop: the remaining inputs are "
                      "not cancelled (handlers: " + ", ".join(n for h in hs for n in handler_names(g.node(h).ast)) + ")",
                      witness=g.describe(wit))
            for h in hs:
                wit = g.path([h], [g.exit, g.raise_exit], avoid={head}, edge_ok=no_exc, strict=True)
                ctx.check(wit is None, "cancel/isolated-call-out", q + " | except " + "/".join(handler_names(g.node(h).ast)),
                          "the handler around an input's cancel() ends the loop", witness=g.describe(wit))


# ---------------------------------------------------------------------------------------------
def _check_gather(ctx):
    f = inlined_func(ctx, DEFER, "gatherResults")
    q = Q + "gatherResults"
    init = ctx.func(DEFER, "DeferredList.__init__")
    ps = params(f)
    rets = [st for st in ast.walk(f) if isinstance(st, ast.Return)]
    ctx.check(bool(rets), "gather/extracts-values", q + " | <return>", "gatherResults returns nothing")
    calls = [x for x in ast.walk(f) if isinstance(x, ast.Call) and dotted(x.func) == "DeferredList"]
    ctx.check(len(calls) == 1, "gather/builds-deferredlist", q, "gatherResults does not build exactly one DeferredList")
    for c in calls:
        b = _bind(c, init)
        ctx.check(is_name(b.get("deferredList"), ps[0]), "gather/keywords", q + " | deferredList", "the inputs are not passed through")
        ctx.check(is_const(b.get("fireOnOneErrback"), True), "gather/keywords", q + " | fireOnOneErrback",
                  "fireOnOneErrback=True is not passed: with a failing input gatherResults would wait for all and then succeed with a list")
        ctx.check(b.get("fireOnOneCallback") is None or is_const(b.get("fireOnOneCallback"), False), "gather/keywords", q + " | fireOnOneCallback",
                  "fireOnOneCallback is set: gatherResults would fire with the first value only")
        ctx.check(is_name(b.get("consumeErrors"), ps[1]), "gather/keywords", q + " | consumeErrors", "the consumeErrors argument is not forwarded")
    g = ctx.cfg(f)
    is_parse = lambda x: isinstance(x, ast.Call) and isinstance(x.func, ast.Attribute) and x.func.attr == "addCallback" and len(x.args) == 1 \
        and is_name(x.args[0], "_parseDeferredListResult")
    assigns = [(n, t.id, v) for n in stmt_nodes(g, lambda s_: True) for t, v in targets_values(g.node(n).ast) if isinstance(t, ast.Name) and v is not None]
    holders, parsed = set(), set()      # locals holding the DeferredList / holding it after addCallback(_parseDeferredListResult)

    def is_list(e):
        return e in calls or (is_name(e) and e.id in holders)
    for _ in range(3):
        for n, name, v in assigns:
            if is_list(v):
                holders.add(name)
            if (is_parse(v) and is_list(v.func.value)) or (is_name(v) and v.id in parsed):
                parsed.add(name)
                holders.add(name)
    ok = True
    for r in stmt_nodes(g, lambda s_: isinstance(s_, ast.Return)):
        v = g.node(r).ast.value
        if is_parse(v) and is_list(v.func.value):
            continue            # return <DeferredList>.addCallback(_parseDeferredListResult)
        if is_name(v) and v.id in parsed:
            continue            # gathered = aggregate.addCallback(_parse...); return gathered
        if is_name(v) and v.id in holders:
            adds = call_nodes(g, lambda c: is_parse(c) and is_list(c.func.value))
            if adds and avoiding_path(g, [g.entry], [r], adds) is None:
                continue        # d = DeferredList(...); d.addCallback(_parse...); return d
        ok = False
    ctx.check(ok, "gather/extracts-values", q, "the (success, value) pairs are not reduced to values by _parseDeferredListResult")
    pf = inlined_func(ctx, DEFER, "_parseDeferredListResult")
    pq = Q + "_parseDeferredListResult"
    prets = [st for st in ast.walk(pf) if isinstance(st, ast.Return)]
    good = False
    if len(prets) == 1 and isinstance(prets[0].value, ast.ListComp) and len(prets[0].value.generators) == 1:
        lc = prets[0].value
        gen = lc.generators[0]
        if is_name(gen.iter, params(pf)[0]) and not gen.ifs:
            if isinstance(gen.target, ast.Name) and isinstance(lc.elt, ast.Subscript) and is_name(lc.elt.value, gen.target.id) and const_int(lc.elt.slice) == 1:
                good = True
            if isinstance(gen.target, ast.Tuple) and len(gen.target.elts) == 2 and isinstance(lc.elt, ast.Name) and is_name(gen.target.elts[1], lc.elt.id):
                good = True
    if not good and len(prets) == 1 and is_name(prets[0].value):
        # values = []; for item in resultList: values.append(item[1]); return values
        V = prets[0].value.id
        pg = ctx.cfg(pf)
        inits = [d for d in name_assign_nodes(pg, V) if any(is_name(t, V) and isinstance(v, ast.List) and not v.elts for t, v in targets_values(pg.node(d).ast))]
        heads = _loop_heads(pg, lambda st: is_name(st.iter, params(pf)[0]) and isinstance(st.target, (ast.Name, ast.Tuple)))
        muts = _mutations(pg, V)
        for h in heads:
            tgt = pg.node(h).ast.target
            def takes_value(c):
                if not (method_call(c, "append", V) and len(c.args) == 1):
                    return False
                a = c.args[0]
                if isinstance(tgt, ast.Name):
                    return isinstance(a, ast.Subscript) and is_name(a.value, tgt.id) and const_int(a.slice) == 1
                return len(tgt.elts) == 2 and is_name(a) and is_name(tgt.elts[1], a.id)
            apps = call_nodes(pg, takes_value)
            if (len(inits) == 1 and len(name_assign_nodes(pg, V)) == 1 and apps and sorted(muts) == sorted(apps)
                    and all(pg.path([h], [a], strict=True) and pg.path([a], [h], strict=True) for a in apps)
                    and avoiding_path(pg, succ_on(pg, [h], "iter"), [h], apps, strict=False) is None and _no_early_exit(pg, h) is None
                    and pg.must_precede(inits, [h]) is None):
                good = True
    ctx.check(good, "gather/values-in-input-order", pq, "_parseDeferredListResult does not return [pair[1] for pair in resultList] in list order")


# ---------------------------------------------------------------------------------------------
def _check_race(ctx):
    f = inlined_func(ctx, DEFER, "race")
    g = ctx.cfg(f)
    q = Q + "race"
    ds = params(f)[0]
    # L: the collection the closures iterate / index / measure ("to_cancel")
    closures = [st for st in ast.walk(f) if isinstance(st, (ast.FunctionDef, ast.AsyncFunctionDef)) and st is not f]
    votes = {}
    for cf_ in closures:
        for x in ast.walk(cf_):
            if isinstance(x, (ast.For, ast.AsyncFor)) and isinstance(x.iter, ast.Name):
                votes[x.iter.id] = votes.get(x.iter.id, 0) + 2
            elif isinstance(x, ast.Subscript) and isinstance(x.value, ast.Name) and isinstance(x.ctx, ast.Load) and isinstance(x.slice, ast.Name):
                votes[x.value.id] = votes.get(x.value.id, 0) + 1
    ctx.check(bool(votes), "race/losers-cancelled", q + " | <collection of inputs used by the closures>",
              "no closure of race() iterates over the inputs: neither the losers nor, on cancel, the inputs can be cancelled")
    L = max(sorted(votes), key=lambda k: votes[k]) if votes else "<no input collection>"
    _check_race_inputs_complete(ctx, f, g, q, ds, L, closures)
    # result Deferred
    finals = [(n, t.id, v) for n in stmt_nodes(g, lambda s: True) for t, v in targets_values(g.node(n).ast)
              if isinstance(t, ast.Name) and isinstance(v, ast.Call) and dotted(v.func) == "Deferred"]
    ctx.check(bool(finals), "race/result-deferred", q, "race() creates no result Deferred")
    if not finals:
        return
    F = finals[0][1]
    dinit = _deferred_init(ctx)
    canc = _bind(finals[0][2], dinit).get("canceller")
    ctx.check(is_name(canc) and ctx.mod(DEFER).find(f"race.{canc.id}") is not None, "race/cancel-closure-installed", q,
              "the result Deferred has no canceller that cancels the inputs")
    rets = stmt_nodes(g, lambda s: isinstance(s, ast.Return))
    ctx.check(bool(rets) and all(is_name(g.node(r).ast.value, F) for r in rets), "race/returns-result", q, "race() does not return its result Deferred")
    # registration loop
    heads = _race_reg_heads(g)
    ctx.check(len(heads) == 1, "race/registration-loop", q, f"race() attaches callbacks to its inputs in {len(heads)} loops (expected exactly one)")
    sname = fname = None
    for head in heads:
        st = g.node(head).ast
        it = st.iter
        ok = isinstance(it, ast.Call) and dotted(it.func) == "enumerate" and len(it.args) == 1 and (is_name(it.args[0], ds) or is_name(it.args[0], L)) and (kw(it, "start") is None or const_int(kw(it, "start")) == 0) \
            and isinstance(st.target, ast.Tuple) and len(st.target.elts) == 2 and all(isinstance(e, ast.Name) for e in st.target.elts)
        ctx.check(ok, "race/index-from-enumerate", q, "the index does not come from enumerate() over the inputs, starting at 0")
        if not ok:
            continue
        iname, dname = st.target.elts[0].id, st.target.elts[1].id
        wit = g.must_precede([finals[0][0]], [head])
        ctx.check(wit is None, "race/copy-before-registration", q + " | result Deferred", "the result Deferred is created after callbacks are attached",
                  witness=g.describe(wit))
        regs = [n for n in call_nodes(g, lambda c: method_call(c, "addCallbacks", dname)) if g.path([head], [n], strict=True) and g.path([n], [head], strict=True)]
        ctx.check(len(regs) == 1, "race/registers-each-input", q, f"{len(regs)} registrations in the loop")
        wit = _no_early_exit(g, head)
        ctx.check(wit is None, "race/registers-each-input", q + " | <loop covers every input>", "the loop can stop early", witness=g.describe(wit))
        for r in regs:
            wit = avoiding_path(g, succ_on(g, [head], "iter"), [head], [r], strict=False)
            ctx.check(wit is None, "race/registers-each-input", q + " | <every iteration>", "an input can be skipped", witness=g.describe(wit))
            c = calls_of(g, r, lambda c: method_call(c, "addCallbacks", dname))[0]
            b = _bind(c, _addcallbacks_sig(ctx))
            cbx, ebx, ca, ea = b.get("callback"), b.get("errback"), b.get("callbackArgs"), b.get("errbackArgs")
            ok = is_name(cbx) and is_name(ebx) and isinstance(ca, ast.Tuple) and isinstance(ea, ast.Tuple) and len(ca.elts) == 1 and len(ea.elts) == 1
            ctx.check(ok and is_name(ca.elts[0], iname) and is_name(ea.elts[0], iname), "race/index-to-both-callbacks", q + " | <input>.addCallbacks(...)",
                      "the enumerate index is not the (only) extra argument of both the success and the failure callback")
            if ok:
                sname, fname = cbx.id, ebx.id
            ctx.check(not [n for n in name_assign_nodes(g, iname) if n != head], "race/index-from-enumerate", q + " | <index unmodified>",
                      "the index is modified inside the loop")
    # the closures by role: the one that calls back the result / the one that errbacks it
    by_cb = [c_.name for c_ in closures if any(isinstance(x, ast.Call) and method_call(x, "callback", F) for x in ast.walk(c_))]
    by_eb = [c_.name for c_ in closures if any(isinstance(x, ast.Call) and method_call(x, "errback", F) for x in ast.walk(c_))]
    ctx.check(len(by_cb) == 1 and len(by_eb) == 1 and by_cb != by_eb, "race/closure-roles", q + " | <one success and one failure closure>",
              f"closures firing the result: callback in {by_cb}, errback in {by_eb} (expected one each)")
    if not (by_cb and by_eb):
        return
    ctx.check(sname == by_cb[0] and fname == by_eb[0], "race/closure-roles", q,
              f"registered (success, failure) callbacks are ({sname}, {fname}); the closure calling back the result is {by_cb[0]}, the one errbacking it {by_eb[0]}")
    sname, fname = by_cb[0], by_eb[0]
    sf, ff = inlined_func(ctx, DEFER, f"race.{sname}"), inlined_func(ctx, DEFER, f"race.{fname}")
    # ---- succeeded -----------------------------------------------------------------------------
    sg = ctx.cfg(sf)
    sq = Q + f"race.{sname}"
    p_out, p_idx = params(sf)[0], params(sf)[1]
    wassign = [(n, t.id) for n in stmt_nodes(sg, lambda s: True) for t, v in targets_values(sg.node(n).ast)
               if isinstance(t, ast.Name) and isinstance(v, ast.Subscript) and is_name(v.value, L)]
    ctx.check(len(wassign) == 1, "race/winner-recorded", sq, "the winning input is not recorded once from the copied list")
    if wassign:
        wn, Wn = wassign[0]
        v = [v for t, v in targets_values(sg.node(wn).ast) if is_name(t, Wn)][0]
        ctx.check(is_name(v.slice, p_idx), "race/winner-recorded", ctx.construct(sq, sg.node(wn).ast), "the winner is not the input at this callback's index")
        ctx.check(any(isinstance(x, ast.Nonlocal) and Wn in x.names for x in ast.walk(sf)), "race/winner-shared", sq,
                  f"`{Wn}` is not declared nonlocal: a second success would not see the first")
        ctx.check(any(is_name(t, Wn) and is_const(v_, None) for n in stmt_nodes(g, lambda s: True) for t, v_ in targets_values(g.node(n).ast) if v_ is not None),
                  "race/winner-shared", q + f" | {Wn} = None", "the winner is not initialised to None in race()")
        wsubj = lambda e: is_name(e, Wn)
        fires = call_nodes(sg, lambda c: method_call(c, "callback", F))
        filtered = {}     # local -> node of `local = [x for x in L if x is not winner]`
        for n_ in stmt_nodes(sg, lambda s_: True):
            for t, v in targets_values(sg.node(n_).ast):
                if isinstance(t, ast.Name) and isinstance(v, ast.ListComp) and len(v.generators) == 1 and is_name(v.generators[0].iter, L) \
                        and isinstance(v.generators[0].target, ast.Name) and is_name(v.elt, v.generators[0].target.id) and len(v.generators[0].ifs) == 1 \
                        and ident_fact(v.generators[0].ifs[0], True, lambda e: is_name(e, v.generators[0].target.id), wsubj) is False \
                        and len(name_assign_nodes(sg, t.id)) == 1:
                    filtered[t.id] = n_
        sheads = _loop_heads(sg, lambda st: is_name(st.iter, L) or (isinstance(st.iter, ast.Name) and st.iter.id in filtered))
        ctx.check(len(sheads) == 1, "race/losers-cancelled", sq, "no loop over the copied inputs cancels the losers")
        for n in fires + [wn]:
            ctx.check(known_none(sg, n, wsubj, falsy_is_none=True) is True, "race/first-success-only", ctx.construct(sq, sg.node(n).ast),
                      "a second success (an input whose canceller fired it) fires the result again / replaces the winner")
        for n in fires:
            c = calls_of(sg, n, lambda c: method_call(c, "callback", F))[0]
            a = c.args[0] if c.args else None
            ctx.check(isinstance(a, ast.Tuple) and len(a.elts) == 2 and is_name(a.elts[0], p_idx) and is_name(a.elts[1], p_out), "race/success-payload",
                      ctx.construct(sq, c), "the result is not (index, value) of the winning input")
            wit = sg.must_precede([wn], [n])
            ctx.check(wit is None, "race/winner-before-call-outs", ctx.construct(sq, c), "the result fires before the winner is recorded", witness=sg.describe(wit))
        tests = [t.id for t in sg.nodes if t.kind == "test" and sg.reachable(t.id) and any(wsubj(x) for x in ast.walk(t.ast)) and
                 ident_fact(t.ast, True, wsubj, lambda x: is_const(x, None)) is not None or (t.kind == "test" and wsubj(t.ast))]
        first = [d for t in tests for d, l in sg.succ[t] if l in ("T", "F") and
                 ((ident_fact(sg.node(t).ast, l == "T", wsubj, lambda x: is_const(x, None)) is True) or (wsubj(sg.node(t).ast) and l == "F"))]
        wit = avoiding_path(sg, first, [sg.exit], fires, strict=False) if first else None
        ctx.check(bool(first) and bool(fires) and wit is None, "race/first-success-fires", sq, "the first success can return without firing the result",
                  witness=sg.describe(wit))
        for head in sheads:
            dv = sg.node(head).ast.target
            outs = call_nodes(sg, lambda c: isinstance(dv, ast.Name) and method_call(c, "cancel", dv.id))
            ctx.check(bool(outs), "race/losers-cancelled", sq + " | <loser>.cancel()", "the loop does not cancel anything")
            ctx.check(known_none(sg, head, wsubj, falsy_is_none=True) is True, "race/first-success-only", sq + " | <cancel loop>",
                      "losers are cancelled again on a later success")
            wit = avoiding_path(sg, first, [sg.exit], [head], strict=False) if first else None
            ctx.check(wit is None, "race/losers-cancelled", sq + " | <first success reaches the cancel loop>",
                      "the first success can finish without cancelling the other inputs", witness=sg.describe(wit))
            wit = sg.must_precede([wn], [head])
            ctx.check(wit is None, "race/winner-before-call-outs", sq + " | <cancel loop>",
                      "the winner is recorded after the cancel call-outs: a canceller that fires its Deferred with a value re-enters "
                      "`succeeded` with winner still None and the result fires twice", witness=sg.describe(wit))
            wit = _no_early_exit(sg, head)
            ctx.check(wit is None, "race/losers-cancelled", sq + " | <loop covers every input>", "the cancel loop can stop early", witness=sg.describe(wit))
            pre = filtered.get(sg.node(head).ast.iter.id) if isinstance(sg.node(head).ast.iter, ast.Name) else None
            if pre is not None:
                # the loop runs over the precomputed losers: the list must be computed after the winner is known
                wit = sg.must_precede([wn], [pre])
                ctx.check(wit is None, "race/winner-not-cancelled", ctx.construct(sq, sg.node(pre).ast),
                          "the list of losers is computed before the winner is recorded (it would contain the winner)", witness=sg.describe(wit))
            for o in outs:
                ctx.check(pre is not None or known_ident(sg, o, lambda e: isinstance(dv, ast.Name) and is_name(e, dv.id), wsubj) is False, "race/winner-not-cancelled",
                          ctx.construct(sq, "<loser>.cancel()"), "the winning input itself is cancelled (its owner is still using it)")
            # every non-winner is cancelled: the only way round the call-out inside an iteration is `d is winner`
            itests = {t.id for t in sg.nodes if t.kind == "test" and isinstance(dv, ast.Name) and
                      ident_fact(t.ast, True, lambda e: is_name(e, dv.id), wsubj) is not None}

            def not_winner(a, b, l):
                if l == "exc":
                    return False
                if a in itests:
                    same = ident_fact(sg.node(a).ast, l == "T", lambda e: is_name(e, dv.id), wsubj)
                    return same is False
                return True
            wit = sg.path(succ_on(sg, [head], "iter"), [head], avoid=set(outs), edge_ok=not_winner)
            wit = wit if not any(s in outs for s in succ_on(sg, [head], "iter")) else None
            ctx.check(wit is None, "race/losers-cancelled", sq + " | <every loser>", "an input other than the winner can be skipped by the cancel loop",
                      witness=sg.describe(wit))

    # ---- failed --------------------------------------------------------------------------------
    fg = ctx.cfg(ff)
    fq = Q + f"race.{fname}"
    p_fail, p_fidx = params(ff)[0], params(ff)[1]
    apps = [(n, c) for n in call_nodes(fg, lambda c: isinstance(c.func, ast.Attribute) and c.func.attr == "append" and isinstance(c.func.value, ast.Name))
            for c in calls_of(fg, n, lambda c: isinstance(c.func, ast.Attribute) and c.func.attr == "append")]
    # alternative record: a dict keyed by the input's position  `failures[index] = failure`
    dstores = [(n, t) for n in stmt_nodes(fg, lambda s_: True) for t, v in targets_values(fg.node(n).ast)
               if isinstance(t, ast.Subscript) and isinstance(t.value, ast.Name) and is_name(v, p_fail)]
    as_dict = not apps and len(dstores) == 1
    ctx.check(len(apps) == 1 or as_dict, "race/failure-recorded", fq, "a failure is not recorded exactly once")
    if apps or as_dict:
        if as_dict:
            an, tgt = dstores[0]
            FS = tgt.value.id
            ctx.check(is_name(tgt.slice, p_fidx), "race/failure-recorded", ctx.construct(fq, fg.node(an).ast),
                      "the failure is not recorded under its input index: reading back in key order would not restore input order")
        else:
            an, ac = apps[0]
            FS = ac.func.value.id
            a = ac.args[0] if ac.args else None
            ctx.check(isinstance(a, ast.Tuple) and len(a.elts) == 2 and is_name(a.elts[0], p_fidx) and is_name(a.elts[1], p_fail), "race/failure-recorded",
                      ctx.construct(fq, ac), "the failure is not recorded as (index, failure): sorting would not restore input order")
        wit = avoiding_path(fg, [fg.entry], [fg.exit], [an])
        ctx.check(wit is None, "race/failure-recorded", fq + " | <every call>", "a failure can go unrecorded", witness=fg.describe(wit))
        ebs = call_nodes(fg, lambda c: method_call(c, "errback", F))
        ctx.check(bool(ebs), "race/all-failed-fires", fq, "the result never errbacks when every input failed")

        def all_failed(e, pol):
            if not (isinstance(e, ast.Compare) and len(e.ops) == 1):
                return None
            l, r, op = e.left, e.comparators[0], type(e.ops[0])
            is_len = lambda x, nm: isinstance(x, ast.Call) and dotted(x.func) == "len" and len(x.args) == 1 and is_name(x.args[0], nm)
            flip = {ast.LtE: ast.GtE, ast.GtE: ast.LtE, ast.Lt: ast.Gt, ast.Gt: ast.Lt}
            if is_len(l, L) and is_len(r, FS):
                l, r, op = r, l, flip.get(op, op)
            if not (is_len(l, FS) and (is_len(r, L) or is_len(r, ds))):
                return None
            if op in (ast.Eq, ast.GtE):
                return pol
            if op in (ast.NotEq, ast.Lt):
                return not pol
            return "?"
        for e_ in ebs:
            fs = [all_failed(e, pol) for e, pol in facts(fg, e_)]
            ctx.check(True in fs, "race/all-failed-only", ctx.construct(fq, fg.node(e_).ast),
                      "the result errbacks before every input has failed (an input may still succeed)")
            ctx.check(fg.must_precede([an], [e_]) is None, "race/all-failed-only", ctx.construct(fq, fg.node(e_).ast) + " (after recording)",
                      "the count is tested before this failure is recorded")
            c = calls_of(fg, e_, lambda c: method_call(c, "errback", F))[0]
            arg = c.args[0] if c.args else None
            grp = arg if isinstance(arg, ast.Call) and dotted(arg.func) == "FailureGroup" else (
                arg.args[0] if isinstance(arg, ast.Call) and dotted(arg.func) == "Failure" and arg.args and isinstance(arg.args[0], ast.Call)
                and dotted(arg.args[0].func) == "FailureGroup" else None)
            lst = grp.args[0] if grp is not None and grp.args else None
            # the list: [f for (i, f) in FS] after FS.sort(), or [f for (i, f) in sorted(FS)]
            comp, comp_node = None, None
            if isinstance(lst, ast.ListComp):
                comp, comp_node = lst, e_
            elif isinstance(lst, ast.Name):
                for n in name_assign_nodes(fg, lst.id):
                    for t, v in targets_values(fg.node(n).ast):
                        if is_name(t, lst.id) and isinstance(v, ast.ListComp):
                            comp, comp_node = v, n
            good = False
            sorted_inline = False
            if comp is not None and len(comp.generators) == 1 and not comp.generators[0].ifs:
                gen = comp.generators[0]
                itx = gen.iter
                if isinstance(itx, ast.Name) and not is_name(itx, FS):
                    # a local holding sorted(failure_state) (assigned once)
                    vals = [v for d_ in name_assign_nodes(fg, itx.id) for t, v in targets_values(fg.node(d_).ast) if is_name(t, itx.id)]
                    if len(vals) == 1 and vals[0] is not None:
                        itx = vals[0]
                if isinstance(itx, ast.Call) and dotted(itx.func) == "sorted" and len(itx.args) == 1 and not itx.keywords:
                    sorted_inline, itx = True, itx.args[0]
                if as_dict and sorted_inline and is_name(itx, FS) and isinstance(gen.target, ast.Name) and isinstance(comp.elt, ast.Subscript) \
                        and is_name(comp.elt.value, FS) and is_name(comp.elt.slice, gen.target.id):
                    good = True        # [failures[i] for i in sorted(failures)]
                if as_dict and sorted_inline and isinstance(itx, ast.Call) and method_call(itx, "items", FS) and isinstance(gen.target, ast.Tuple) \
                        and len(gen.target.elts) == 2 and is_name(comp.elt) and is_name(gen.target.elts[1], comp.elt.id):
                    good = True        # [f for i, f in sorted(failures.items())]
                if is_name(itx, FS) and not as_dict:
                    if isinstance(gen.target, ast.Tuple) and len(gen.target.elts) == 2 and is_name(comp.elt) and is_name(gen.target.elts[1], comp.elt.id):
                        good = True
                    if isinstance(gen.target, ast.Name) and isinstance(comp.elt, ast.Subscript) and is_name(comp.elt.value, gen.target.id) and const_int(comp.elt.slice) == 1:
                        good = True
            ctx.check(grp is not None and good, "race/failure-payload", ctx.construct(fq, c),
                      "the result does not errback with FailureGroup([failure for (index, failure) in failure_state])")
            sorts = call_nodes(fg, lambda c: method_call(c, "sort", FS) and not c.args and not c.keywords)
            if comp_node is not None:
                wit = None if sorted_inline else (fg.must_precede(sorts, [comp_node]) if sorts else [fg.entry, comp_node])
                ctx.check(wit is None, "race/failures-in-input-order", ctx.construct(fq, c),
                          "the failures are not sorted by input index before they are collected (they would be in firing order)",
                          witness=fg.describe(wit))
        # when all failed, the errback happens
        etests = [t.id for t in fg.nodes if t.kind == "test" and fg.reachable(t.id) and all_failed(t.ast, True) is not None]
        allT = [d for t in etests for d, l in fg.succ[t] if l in ("T", "F") and all_failed(fg.node(t).ast, l == "T") is True]
        wit = avoiding_path(fg, allT, [fg.exit], ebs, strict=False) if allT else None
        ctx.check(bool(allT) and wit is None, "race/all-failed-fires", fq + " | <all inputs failed>", "when the last input fails the result may not fire",
                  witness=fg.describe(wit))
        ctx.check(any(is_name(t, FS) and ((isinstance(v, ast.List) and not v.elts and not as_dict) or (isinstance(v, ast.Dict) and not v.keys and as_dict))
                      for n in stmt_nodes(g, lambda s: True)
                      for t, v in targets_values(g.node(n).ast) if v is not None), "race/failure-state-shared", q + f" | {FS} = []",
                  "the failure list is not created once per race() call")

    # ---- cancel closure ------------------------------------------------------------------------
    if is_name(canc):
        cf = inlined_func(ctx, DEFER, f"race.{canc.id}")
        cg_ = ctx.cfg(cf)
        cq = Q + f"race.{canc.id}"
        cheads = _loop_heads(cg_, lambda st: is_name(st.iter, L))
        ctx.check(len(cheads) == 1, "race/cancel-covers-inputs", cq, "the canceller does not loop over the copied inputs")
        for head in cheads:
            dv = cg_.node(head).ast.target
            outs = call_nodes(cg_, lambda c: isinstance(dv, ast.Name) and method_call(c, "cancel", dv.id))
            wit = avoiding_path(cg_, [cg_.entry], [cg_.exit], [head])
            ctx.check(wit is None, "race/cancel-covers-inputs", cq + " | <loop reached>", "cancelling the result can skip the inputs", witness=cg_.describe(wit))
            def not_none_edge(a, b, l):
                # the inputs are Deferreds: an edge that needs `<loop variable> is None` is not taken
                if l == "exc":
                    return False
                if l in ("T", "F") and cg_.node(a).kind == "test" and isinstance(dv, ast.Name):
                    isnone = ident_fact(cg_.node(a).ast, l == "T", lambda e: is_name(e, dv.id), lambda e: is_const(e, None))
                    if isnone is True:
                        return False
                return True
            starts_ = [x for x in succ_on(cg_, [head], "iter") if x not in outs]
            wit = cg_.path(starts_, [head], avoid=set(outs), edge_ok=not_none_edge) if starts_ else None
            ctx.check(bool(outs) and wit is None, "race/cancel-covers-inputs", cq + " | <input>.cancel()", "an input can be skipped", witness=cg_.describe(wit))
            wit = _no_early_exit(cg_, head)
            ctx.check(wit is None, "race/cancel-covers-inputs", cq + " | <loop covers every input>", "the loop can stop early", witness=cg_.describe(wit))


_MUTATORS = ("append", "appendleft", "extend", "insert", "remove", "pop", "popleft", "clear", "sort", "reverse")


def _race_reg_heads(g):
    """loops of race() in which callbacks are attached to the loop's Deferred"""
    out = []
    for h in _loop_heads(g, lambda st: True):
        names = {x.id for x in ast.walk(g.node(h).ast.target) if isinstance(x, ast.Name)}
        regs = call_nodes(g, lambda c: isinstance(c.func, ast.Attribute) and c.func.attr in ("addCallbacks", "addBoth", "addCallback", "addErrback")
                          and isinstance(c.func.value, ast.Name) and c.func.value.id in names)
        if any(g.path([h], [r], strict=True) and g.path([r], [h], strict=True) for r in regs):
            out.append(h)
    return out


def _mutations(g, L):
    """CFG nodes that change the content / order of the local collection L"""
    out = call_nodes(g, lambda c: isinstance(c.func, ast.Attribute) and c.func.attr in _MUTATORS and is_name(c.func.value, L))
    out += stmt_nodes(g, lambda s: (isinstance(s, ast.AugAssign) and is_name(s.target, L)) or
                      any(isinstance(t, ast.Subscript) and is_name(t.value, L) for t, _ in targets_values(s)) or
                      (isinstance(s, ast.Delete) and any(isinstance(t, ast.Subscript) and is_name(t.value, L) for t in s.targets)))
    return sorted(set(out))


def _is_full_copy(v, ds) -> bool:
    if is_name(v, ds):   # plain alias of the argument: complete by construction
        return True
    if isinstance(v, ast.Call) and dotted(v.func) in ("list", "tuple") and len(v.args) == 1 and not v.keywords and is_name(v.args[0], ds):
        return True
    if isinstance(v, ast.Subscript) and is_name(v.value, ds) and isinstance(v.slice, ast.Slice) and v.slice.lower is None and v.slice.upper is None \
            and v.slice.step is None:
        return True
    if isinstance(v, (ast.List, ast.Tuple)) and len(v.elts) == 1 and isinstance(v.elts[0], ast.Starred) and is_name(v.elts[0].value, ds):
        return True
    if isinstance(v, ast.ListComp) and len(v.generators) == 1 and not v.generators[0].ifs and is_name(v.generators[0].iter, ds) \
            and isinstance(v.generators[0].target, ast.Name) and is_name(v.elt, v.generators[0].target.id):
        return True
    return False


def _check_race_inputs_complete(ctx, f, g, q, ds, L, closures):
    """The collection the closures iterate / index / measure holds ALL inputs, in input order, before the first callback is
    attached (an input that already fired calls back synchronously) and is not changed afterwards."""
    cons = q + f" | <inputs collection `{L}`>"
    heads = _race_reg_heads(g)
    regs = [r for h in heads for r in call_nodes(g, lambda c: isinstance(c.func, ast.Attribute) and c.func.attr in ("addCallbacks", "addBoth", "addCallback", "addErrback"))
            if g.path([h], [r], strict=True) and g.path([r], [h], strict=True)]
    if L == ds:
        ctx.ok("race/inputs-complete-before-registration", cons, "the closures use the argument itself")
    else:
        defs = name_assign_nodes(g, L)
        full = [d for d in defs if any(is_name(t, L) and v is not None and _is_full_copy(v, ds) for t, v in targets_values(g.node(d).ast))]
        muts = _mutations(g, L)
        # a separate fill loop that completes before the registration loop is acceptable
        fills = []
        for h in _loop_heads(g, lambda st: is_name(st.iter, ds) or (isinstance(st.iter, ast.Call) and dotted(st.iter.func) == "enumerate"
                                                                    and st.iter.args and is_name(st.iter.args[0], ds))):
            if h in heads:
                continue
            tv = g.node(h).ast.target
            var = tv.elts[-1] if isinstance(tv, ast.Tuple) else tv
            apps = call_nodes(g, lambda c: method_call(c, "append", L) and len(c.args) == 1 and isinstance(var, ast.Name) and is_name(c.args[0], var.id))
            if apps and avoiding_path(g, succ_on(g, [h], "iter"), [h], apps, strict=False) is None and _no_early_exit(g, h) is None:
                fills.append(h)
        complete = [d for d in full] + fills
        wit = None
        if complete and heads:
            wit = g.must_precede(complete, heads)
        ctx.check(bool(complete) and wit is None, "race/inputs-complete-before-registration", cons,
                  f"`{L}` is not a complete copy of the inputs (list({ds}) or an equivalent finished before the registration loop) when the first "
                  "callbacks are attached: an input that has already fired calls back synchronously and sees a partial list (later inputs are "
                  "not cancelled; the all-failed test is true too early)", witness=g.describe(wit))
        late = [m for m in muts + [d for d in defs if d not in full] if any(g.path([r], [m], edge_ok=no_exc, strict=True) for r in regs)
                or any(g.path([h], [m], edge_ok=no_exc, strict=True) and g.path([m], [h], edge_ok=no_exc, strict=True) for h in heads)]
        ctx.check(not late, "race/inputs-complete-before-registration", cons + " (filled while registering)",
                  f"`{L}` is still being filled / changed inside or after the loop that attaches the callbacks ("
                  + "; ".join(sorted({src(g.node(m).ast)[:50] for m in late})) + "): a pre-fired input calls back while the collection is incomplete")
    bad = [src(x)[:50] for cf_ in closures for x in ast.walk(cf_)
           if (isinstance(x, ast.Call) and isinstance(x.func, ast.Attribute) and x.func.attr in _MUTATORS and is_name(x.func.value, L))
           or (isinstance(x, (ast.AugAssign,)) and is_name(x.target, L))]
    ctx.check(not bad, "race/inputs-list-stable", cons, f"a closure changes `{L}` ({bad}): indexes passed to the callbacks no longer identify their input")


def _deferred_init(ctx):
    return ctx.func(DEFER, "Deferred.__init__")


D = DEFER
MUTANTS = [
    Mutant("drop-called-guard", D, "        if not self.called:\n            if succeeded == SUCCESS and self.fireOnOneCallback:",
           "        if True:\n            if succeeded == SUCCESS and self.fireOnOneCallback:", expect_rule="cb/fires-at-most-once"),
    Mutant("index-plus-one", D, "                callbackArgs=(index, SUCCESS),\n                errbackArgs=(index, FAILURE),",
           "                callbackArgs=(index, SUCCESS),\n                errbackArgs=(index + 1, FAILURE),", expect_rule="init/same-index-both-outcomes"),
    Mutant("swap-success-failure", D, "                errbackArgs=(index, FAILURE),", "                errbackArgs=(index, SUCCESS),", expect_rule="init/flag-matches-outcome"),
    Mutant("cancel-winner-too", D, "                if d is not winner:\n                    d.cancel()\n", "                d.cancel()\n", expect_rule="race/winner-not-cancelled"),
    Mutant("winner-after-cancel-loop", D,
           "            winner = to_cancel[this_index]\n\n            # Cancel the rest.\n            for d in to_cancel:\n                if d is not winner:\n                    d.cancel()\n",
           "            # Cancel the rest.\n            for d in to_cancel:\n                if d is not to_cancel[this_index]:\n                    d.cancel()\n            winner = to_cancel[this_index]\n",
           expect_rule="race/winner-before-call-outs"),
    Mutant("consume-errors-on-success-too", D, "        if succeeded == FAILURE and self.consumeErrors:\n            return None\n",
           "        if self.consumeErrors:\n            return None\n", expect_rule="cb/return-value"),
    Mutant("complete-checked-first", D,
           "            if succeeded == SUCCESS and self.fireOnOneCallback:\n                self.callback((result, index))  # type: ignore[arg-type]\n            elif succeeded == FAILURE and self.fireOnOneErrback:",
           "            if self.finishedCount == len(self.resultList) and not self.fireOnOneErrback:\n                self.callback(cast(_DeferredListResultListT[Any], self.resultList))\n            elif succeeded == SUCCESS and self.fireOnOneCallback:\n                self.callback((result, index))  # type: ignore[arg-type]\n            elif succeeded == FAILURE and self.fireOnOneErrback:",
           expect_rule="cb/fire-decision"),
    Mutant("count-after-test", D, "        self.finishedCount += 1\n        if not self.called:", "        if not self.called:",
           more=[(D, "        if succeeded == FAILURE and self.consumeErrors:\n            return None\n", "        self.finishedCount += 1\n        if succeeded == FAILURE and self.consumeErrors:\n            return None\n")],
           expect_rule="cb/store-and-count-before-firing"),
    Mutant("flags-after-registration", D, "        self.consumeErrors = consumeErrors\n        self.finishedCount = 0\n", "        self.finishedCount = 0\n",
           more=[(D, "            index = index + 1\n\n    def _cbDeferred(", "            index = index + 1\n        self.consumeErrors = consumeErrors\n\n    def _cbDeferred(")],
           expect_rule="init/state-before-registration"),
    Mutant("cancel-handler-narrowed", D, "                    deferred.cancel()\n                except BaseException:", "                    deferred.cancel()\n                except Exception:",
           expect_rule="cancel/isolated-call-out"),
    Mutant("gather-waits-for-all", D, "deferredList, fireOnOneErrback=True, consumeErrors=consumeErrors", "deferredList, fireOnOneErrback=False, consumeErrors=consumeErrors",
           expect_rule="gather/keywords"),
    Mutant("race-failures-unsorted", D, "            failure_state.sort()\n", "", expect_rule="race/failures-in-input-order"),
    Mutant("race-payload-swapped", D, "final_result.callback((this_index, this_output))", "final_result.callback((this_output, this_index))", expect_rule="race/success-payload"),
    Mutant("race-fires-before-all-failed", D, "        if len(failure_state) == len(to_cancel):\n", "        if len(failure_state) <= len(to_cancel):\n", expect_rule="race/all-failed-only"),
    Mutant("first-error-index-lost", D, "self.errback(Failure(FirstError(result, index)))", "self.errback(Failure(FirstError(result, self.finishedCount)))", expect_rule="cb/fire-payload"),
    Mutant("increment-before-registration", D, "        for deferred in self._deferredList:\n            deferred.addCallbacks(", "        for deferred in self._deferredList:\n            index = index + 1\n            deferred.addCallbacks(",
           more=[(D, "                errbackArgs=(index, FAILURE),\n            )\n            index = index + 1\n", "                errbackArgs=(index, FAILURE),\n            )\n")],
           expect_rule="init/index-used-before-increment"),
    Mutant("result-stored-after-firing", D, "        self.resultList[index] = (succeeded, result)\n\n        self.finishedCount += 1\n", "        self.finishedCount += 1\n",
           more=[(D, "        if succeeded == FAILURE and self.consumeErrors:\n            return None\n", "        self.resultList[index] = (succeeded, result)\n        if succeeded == FAILURE and self.consumeErrors:\n            return None\n")],
           expect_rule="cb/store-and-count-before-firing"),
    Mutant("cancel-stops-at-first-error", D, "                except BaseException:\n                    log.failure(\"Exception raised from user supplied canceller\")",
           "                except BaseException:\n                    log.failure(\"Exception raised from user supplied canceller\")\n                    break", expect_rule="cancel/isolated-call-out"),
    Mutant("complete-one-early", D, "elif self.finishedCount == len(self.resultList):", "elif self.finishedCount == len(self.resultList) - 1:", expect_rule="cb/fire-decision"),
    Mutant("inputs-list-filled-while-registering", D, "    to_cancel = list(ds)\n    for index, d in enumerate(ds):\n",
           "    to_cancel = []\n    for index, d in enumerate(ds):\n        to_cancel.append(d)\n", expect_rule="race/inputs-complete-before-registration"),
    Mutant("init-loops-over-the-argument", D, "        for deferred in self._deferredList:\n            deferred.addCallbacks(", "        for deferred in deferredList:\n            deferred.addCallbacks(",
           expect_rule="init/iterates-the-copied-inputs"),
    Mutant("race-winner-popped-from-inputs", D, "            winner = to_cancel[this_index]\n", "            winner = to_cancel.pop(this_index)\n", expect_rule="race/inputs-list-stable"),
    Mutant("success-handler-also-swallows-the-value", D, "        if not self.called:\n            if succeeded == SUCCESS and self.fireOnOneCallback:\n                self.callback((result, index))  # type: ignore[arg-type]\n            elif succeeded == FAILURE and self.fireOnOneErrback:\n                assert isinstance(result, Failure)\n                self.errback(Failure(FirstError(result, index)))\n            elif self.finishedCount == len(self.resultList):\n                # At this point, None values in self.resultList have been\n                # replaced by result values, so we cast it to\n                # _DeferredListResultListT to match the callback result type.\n                self.callback(cast(_DeferredListResultListT[Any], self.resultList))\n\n        if succeeded == FAILURE and self.consumeErrors:\n            return None\n\n        return result\n",
           "        if succeeded == SUCCESS:\n            return self._onGood(result, index)\n        return self._onBad(result, index)\n\n    def _onGood(self, value, position):\n        if not self.called:\n            if self.fireOnOneCallback:\n                self.callback((value, position))\n            else:\n                self._maybeDone()\n        if self.consumeErrors:\n            return None\n        return value\n\n    def _onBad(self, reason, position):\n        if not self.called:\n            if self.fireOnOneErrback:\n                self.errback(Failure(FirstError(reason, position)))\n            else:\n                self._maybeDone()\n        if self.consumeErrors:\n            return None\n        return reason\n\n    def _maybeDone(self):\n        if self.finishedCount == len(self.resultList):\n            self.callback(self.resultList)\n", expect_rule="cb/return-value"),
]
SILENT = [
    Silent("enumerate-index", D, "        index = 0\n        for deferred in self._deferredList:\n", "        for index, deferred in enumerate(self._deferredList):\n",
           more=[(D, "                errbackArgs=(index, FAILURE),\n            )\n            index = index + 1\n", "                errbackArgs=(index, FAILURE),\n            )\n")]),
    Silent("not-succeeded", D, "        if succeeded == FAILURE and self.consumeErrors:\n            return None\n\n        return result\n",
           "        if self.consumeErrors and not succeeded:\n            result = None  # consumed\n            return None\n        return result\n"),
    Silent("cb-branches-reordered", D,
           "            if succeeded == SUCCESS and self.fireOnOneCallback:\n                self.callback((result, index))  # type: ignore[arg-type]\n            elif succeeded == FAILURE and self.fireOnOneErrback:\n                assert isinstance(result, Failure)\n                self.errback(Failure(FirstError(result, index)))\n",
           "            if succeeded == FAILURE and self.fireOnOneErrback:\n                assert isinstance(result, Failure)\n                self.errback(Failure(FirstError(result, index)))\n            elif succeeded == SUCCESS and self.fireOnOneCallback:\n                self.callback((result, index))  # type: ignore[arg-type]\n"),
    Silent("race-sorted-inline", D, "            failure_state.sort()\n            failures = [f for (ignored, f) in failure_state]\n", "            failures = [f for (ignored, f) in sorted(failure_state)]\n"),
    Silent("race-fire-before-cancel", D,
           "            # Cancel the rest.\n            for d in to_cancel:\n                if d is not winner:\n                    d.cancel()\n\n            # Fire our Deferred\n            final_result.callback((this_index, this_output))\n",
           "            final_result.callback((this_index, this_output))\n            for d in to_cancel:\n                if d is winner:\n                    continue\n                d.cancel()\n"),
    Silent("augmented-increment", D, "            index = index + 1\n", "            index += 1\n"),
    Silent("cb-early-return-when-called", D, "        self.finishedCount += 1\n        if not self.called:\n            if succeeded == SUCCESS and self.fireOnOneCallback:",
           "        self.finishedCount += 1\n        if self.called:\n            return None if (not succeeded and self.consumeErrors) else result\n        if True:\n            if succeeded == SUCCESS and self.fireOnOneCallback:"),
    Silent("gather-positional-arguments", D, "        deferredList, fireOnOneErrback=True, consumeErrors=consumeErrors\n", "        deferredList, False, True, consumeErrors\n"),
    Silent("race-inputs-filled-by-own-loop-first", D, "    to_cancel = list(ds)\n", "    to_cancel = []\n    for each in ds:\n        to_cancel.append(each)\n"),
    Silent("cbDeferred-firing-extracted-with-temporaries", D,
           "        self.resultList[index] = (succeeded, result)\n\n        self.finishedCount += 1\n        if not self.called:\n            if succeeded == SUCCESS and self.fireOnOneCallback:\n                self.callback((result, index))  # type: ignore[arg-type]\n            elif succeeded == FAILURE and self.fireOnOneErrback:\n                assert isinstance(result, Failure)\n                self.errback(Failure(FirstError(result, index)))\n            elif self.finishedCount == len(self.resultList):\n                # At this point, None values in self.resultList have been\n                # replaced by result values, so we cast it to\n                # _DeferredListResultListT to match the callback result type.\n                self.callback(cast(_DeferredListResultListT[Any], self.resultList))\n\n        if succeeded == FAILURE and self.consumeErrors:\n            return None\n\n        return result\n",
           "        failed = succeeded == FAILURE\n        self.resultList[index] = (succeeded, result)\n        self.finishedCount += 1\n        self._maybeFire(result, index, failed)\n        if failed and self.consumeErrors:\n            return None\n        return result\n\n    def _maybeFire(self, outcome, position, failed):\n        if self.called:\n            return\n        if not failed and self.fireOnOneCallback:\n            self.callback((outcome, position))\n            return\n        if failed and self.fireOnOneErrback:\n            self.errback(Failure(FirstError(outcome, position)))\n            return\n        allDone = self.finishedCount == len(self.resultList)\n        if allDone:\n            self.callback(self.resultList)\n"),
    Silent("registration-extracted-into-helper", D, "            deferred.addCallbacks(\n                self._cbDeferred,\n                self._cbDeferred,\n                callbackArgs=(index, SUCCESS),\n                errbackArgs=(index, FAILURE),\n            )\n            index = index + 1\n",
           "            self._watch(deferred, index)\n            index = index + 1\n",
           more=[(D, "    def _cbDeferred(\n        self, result: _SelfResultT, index: int, succeeded: bool\n", "    def _watch(self, d, position):\n        d.addCallbacks(self._cbDeferred, self._cbDeferred, callbackArgs=(position, SUCCESS), errbackArgs=(position, FAILURE))\n\n    def _cbDeferred(\n        self, result: _SelfResultT, index: int, succeeded: bool\n")]),
    Silent("cbDeferred-flattened-with-named-comparisons", D,
           "        if not self.called:\n            if succeeded == SUCCESS and self.fireOnOneCallback:\n                self.callback((result, index))  # type: ignore[arg-type]\n            elif succeeded == FAILURE and self.fireOnOneErrback:\n                assert isinstance(result, Failure)\n                self.errback(Failure(FirstError(result, index)))\n            elif self.finishedCount == len(self.resultList):",
           "        wasSuccess = SUCCESS == succeeded\n        wasFailure = FAILURE == succeeded\n        if self.called:\n            pass\n        elif wasFailure and self.fireOnOneErrback:\n            problem = FirstError(result, index)\n            self.errback(Failure(problem))\n        elif wasSuccess and self.fireOnOneCallback:\n            self.callback((result, index))\n        elif len(self.resultList) == self.finishedCount:\n            if True:",
           more=[(D, "        if succeeded == FAILURE and self.consumeErrors:\n            return None\n\n        return result\n", "        return None if wasFailure and self.consumeErrors else result\n")]),
    Silent("gather-through-locals-and-explicit-loop", D, "    return DeferredList(\n        deferredList, fireOnOneErrback=True, consumeErrors=consumeErrors\n    ).addCallback(_parseDeferredListResult)\n",
           "    whole = DeferredList(deferredList, fireOnOneErrback=True, consumeErrors=consumeErrors)\n    onlyValues = whole.addCallback(_parseDeferredListResult)\n    return onlyValues\n",
           more=[(D, "    return [x[1] for x in resultList]\n", "    out = []\n    for pair in resultList:\n        out.append(pair[1])\n    return out\n"),
                 (D, "        self.resultList: List[Optional[_DeferredListResultItemT[Any]]] = [None] * len(\n            self._deferredList\n        )\n",
                  "        howMany = len(self._deferredList)\n        self.resultList = [None for _ in range(howMany)]\n")]),
    Silent("race-losers-precomputed-and-sorted-copy", D,
           "            for d in to_cancel:\n                if d is not winner:\n                    d.cancel()\n",
           "            others = [d for d in to_cancel if d is not winner]\n            for other in others:\n                other.cancel()\n",
           more=[(D, "            failure_state.sort()\n            failures = [f for (ignored, f) in failure_state]\n", "            ordered = sorted(failure_state)\n            failures = [f for (ignored, f) in ordered]\n")]),
    Silent("race-shared-cancel-helper-and-failures-by-position", D, "        for d in to_cancel:\n            d.cancel()\n", "        cancelExcept(None)\n",
           more=[(D, "            for d in to_cancel:\n                if d is not winner:\n                    d.cancel()\n", "            cancelExcept(winner)\n"),
                 (D, "    final_result: Deferred[tuple[int, _T]] = Deferred(canceller=cancel)\n", "    def cancelExcept(keep):\n        for one in to_cancel:\n            if one is not keep:\n                one.cancel()\n\n    final_result: Deferred[tuple[int, _T]] = Deferred(canceller=cancel)\n"),
                 (D, "    failure_state = []\n", "    failure_state = {}\n"),
                 (D, "        failure_state.append((this_index, failure))\n", "        failure_state[this_index] = failure\n"),
                 (D, "            failure_state.sort()\n            failures = [f for (ignored, f) in failure_state]\n", "            failures = [failure_state[k] for k in sorted(failure_state)]\n")]),
    Silent("outcome-dispatched-to-two-private-handlers", D, "        if not self.called:\n            if succeeded == SUCCESS and self.fireOnOneCallback:\n                self.callback((result, index))  # type: ignore[arg-type]\n            elif succeeded == FAILURE and self.fireOnOneErrback:\n                assert isinstance(result, Failure)\n                self.errback(Failure(FirstError(result, index)))\n            elif self.finishedCount == len(self.resultList):\n                # At this point, None values in self.resultList have been\n                # replaced by result values, so we cast it to\n                # _DeferredListResultListT to match the callback result type.\n                self.callback(cast(_DeferredListResultListT[Any], self.resultList))\n\n        if succeeded == FAILURE and self.consumeErrors:\n            return None\n\n        return result\n",
           "        if succeeded == SUCCESS:\n            return self._onGood(result, index)\n        return self._onBad(result, index)\n\n    def _onGood(self, value, position):\n        if not self.called:\n            if self.fireOnOneCallback:\n                self.callback((value, position))\n            else:\n                self._maybeDone()\n        return value\n\n    def _onBad(self, reason, position):\n        if not self.called:\n            if self.fireOnOneErrback:\n                self.errback(Failure(FirstError(reason, position)))\n            else:\n                self._maybeDone()\n        if self.consumeErrors:\n            return None\n        return reason\n\n    def _maybeDone(self):\n        if self.finishedCount == len(self.resultList):\n            self.callback(self.resultList)\n"),
]
