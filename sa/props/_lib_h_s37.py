"""Structural layer of C37: writer / reader schema extraction and table agreement (struct formats, field order, key-type
sets, container layout, dispatch) on the normalised view of common.py / keys.Key.  Rule names carry the prefix "s/".  A rule
group that cannot read the shape abstains with a note (the clause is then covered by the bounded layer in c37.py)."""
from __future__ import annotations

import ast
import struct

from sa.astx import NotConst, call_attr, call_name, const_eval, dotted, src, statements
from sa.source import AnalysisError, methods
from sa.props._lib_h import Normaliser, abstain, const_is, flatten_add, lin, need, struct_fmt_norm
from sa.props._lib_h_s35 import SCtx

CM = "conch/ssh/common.py"
KY = "conch/ssh/keys.py"
QC = "twisted.conch.ssh.common."
QK = "twisted.conch.ssh.keys.Key."
PRIM = "primitive/ (evaluated)"
RT = "roundtrip/ (bounded)"

# how twisted's key class names map to SSH wire type tags (RFC 4253 6.6, RFC 5656, RFC 8709); EC is a family
WIRE = {"RSA": b"ssh-rsa", "DSA": b"ssh-dss", "Ed25519": b"ssh-ed25519", "EC": "<curve>"}
DATA_CLASS = {"RSAPublicKey": ("RSA", "public"), "RSAPrivateKey": ("RSA", "private"), "DSAPublicKey": ("DSA", "public"),
              "DSAPrivateKey": ("DSA", "private"), "EllipticCurvePublicKey": ("EC", "public"), "EllipticCurvePrivateKey": ("EC", "private"),
              "Ed25519PublicKey": ("Ed25519", "public"), "Ed25519PrivateKey": ("Ed25519", "private")}


def _c(node, env=None):
    try:
        return const_eval(node, env or {})
    except NotConst:
        return None


def _slice(e):
    if isinstance(e, ast.Subscript) and isinstance(e.slice, ast.Slice) and e.slice.step is None:
        return e.value, e.slice.lower, e.slice.upper
    return None


def _ordered_calls(node, names):
    cs = [c for c in ast.walk(node) if isinstance(c, ast.Call) and (call_name(c) in names or call_attr(c) in names)]
    return sorted(cs, key=lambda c: (c.lineno, c.col_offset))


# ---- writer / reader schema extraction ------------------------------------------------------

def type_branches(func, style):
    """{key: [stmts]} for the if/elif chain of a function.  style 'writer': tests  type == "RSA" / self.type() == "RSA";
    style 'reader': tests  keyType == b"..." / keyType in _curveTable / keyType in [b"..", ..]."""
    out = {}

    def key_of(test):
        if isinstance(test, ast.Compare) and len(test.ops) == 1:
            l, r, op = test.left, test.comparators[0], test.ops[0]
            if isinstance(l, ast.Constant) and isinstance(op, ast.Eq) and not isinstance(r, ast.Constant):
                l, r = r, l
            if style == "writer" and isinstance(op, ast.Eq) and isinstance(r, ast.Constant) and isinstance(r.value, str) \
                    and (src(l) in ("type", "self.type()", "keyType")):
                return [r.value]
            if style == "reader" and isinstance(l, ast.Name):
                if isinstance(op, ast.Eq) and isinstance(r, ast.Constant) and isinstance(r.value, bytes):
                    return [r.value]
                if isinstance(op, ast.In) and src(r) == "_curveTable":
                    return ["<curve>"]
                if isinstance(op, ast.In) and isinstance(r, (ast.List, ast.Tuple)) and all(isinstance(e, ast.Constant) for e in r.elts):
                    return [e.value for e in r.elts]
        return None

    def visit(stmts_):
        for st in stmts_:
            if isinstance(st, ast.If):
                ks = key_of(st.test)
                if ks is not None:
                    for k in ks:
                        out.setdefault(k, st.body)
                    visit(st.orelse)
                else:
                    visit(st.body)
                    visit(st.orelse)
    visit(func.body)
    return out


def writer_schema(body):
    """[(kind, name)] of the NS/MP calls concatenated in the first Return / `values = (...)` of a branch."""
    for st in body:
        tgt = None
        if isinstance(st, ast.Return) and st.value is not None:
            tgt = st.value
        elif isinstance(st, ast.Assign) and isinstance(st.value, ast.Tuple) and any(isinstance(t, ast.Name) and t.id == "values" for t in st.targets):
            return [("MP", _wname(e)) for e in st.value.elts]
        if tgt is not None:
            ops = flatten_add(tgt)
            out = []
            for o in ops:
                if isinstance(o, ast.Call) and call_attr(o) in ("NS", "MP") and len(o.args) == 1:
                    out.append((call_attr(o), _wname(o.args[0])))
                else:
                    return None
            return out
    return None


def _wname(a):
    if isinstance(a, ast.Subscript) and src(a.value) == "data" and isinstance(a.slice, ast.Constant):
        return "data:" + a.slice.value
    if isinstance(a, ast.Constant):
        return a.value
    return src(a)


def reader_schema(body):
    """[(kind, name or None)] consumed by the getNS/getMP calls of a branch, in source order."""
    out = []
    wrapper = ast.Module(body=list(body), type_ignores=[])
    for c in _ordered_calls(wrapper, ("getNS", "getMP")):
        kind = "NS" if call_attr(c) == "getNS" else "MP"
        n = _c(c.args[1]) if len(c.args) > 1 else 1
        if not isinstance(n, int):
            return None
        par = getattr(c, "_parent", None)
        names = [None] * n
        if isinstance(par, ast.Assign) and par.value is c and isinstance(par.targets[0], (ast.Tuple, ast.List)):
            tg = [src(e) for e in par.targets[0].elts]
            if len(tg) == n + 1:
                names = tg[:-1]
        out += [(kind, nm) for nm in names]
    return out


def lsh_writer(func):
    """{(visibility, type name): [field names]} from the nested list literals handed to sexpy.pack."""
    out = {}
    for c in ast.walk(func):
        if isinstance(c, ast.Call) and call_name(c) == "sexpy.pack" and c.args and isinstance(c.args[0], ast.List):
            try:
                top = c.args[0].elts[0]
                head = _c(top.elts[0])
                inner = top.elts[1]
                tname = _c(inner.elts[0])
                fields = []
                for fl in inner.elts[1:]:
                    fields.append((_c(fl.elts[0]), fl.elts[1]))
                out[(head, tname)] = fields
            except (AttributeError, IndexError):
                raise AnalysisError("C37: sexpy.pack literal shape not recognised")
    return out


def lsh_reader(func):
    """(head literal asserted, {type name: (set of <dict>[...] keys used, asserted len or None)}); None when no dispatch on the
    key kind is found"""
    head = None
    types = {}
    kind_names = {"sexp[1][0]"}
    for st in ast.walk(func):
        if isinstance(st, ast.Assert) and isinstance(st.test, ast.Compare) and src(st.test.left) == "sexp[0]":
            head = _c(st.test.comparators[0])
        if isinstance(st, ast.Assign) and src(st.value) == "sexp[1][0]":
            kind_names |= {src(t) for t in st.targets}
    for st in ast.walk(func):
        if isinstance(st, ast.If) and isinstance(st.test, ast.Compare) and len(st.test.ops) == 1 and isinstance(st.test.ops[0], ast.Eq) \
                and ({src(st.test.left), src(st.test.comparators[0])} & kind_names):
            tn = _c(st.test.comparators[0]) if src(st.test.left) in kind_names else _c(st.test.left)
            used = set()
            n = None
            for x in st.body:
                for y in ast.walk(x):
                    if isinstance(y, ast.Subscript) and isinstance(y.value, ast.Name) and isinstance(y.slice, ast.Constant) and isinstance(y.slice.value, bytes):
                        used.add(y.slice.value)
                    if isinstance(y, ast.Assert) and isinstance(y.test, ast.Compare) and src(y.test.left).startswith("len("):
                        n = _c(y.test.comparators[0])
            types[tn] = (used, n)
    return head, (types or None)


def eval_startswith(test, data: bytes):
    """evaluate a test built from  data.startswith(CONST), and/or/not."""
    if isinstance(test, ast.BoolOp):
        vals = [eval_startswith(v, data) for v in test.values]
        return all(vals) if isinstance(test.op, ast.And) else any(vals)
    if isinstance(test, ast.UnaryOp) and isinstance(test.op, ast.Not):
        return not eval_startswith(test.operand, data)
    if isinstance(test, ast.Call) and isinstance(test.func, ast.Attribute) and test.func.attr == "startswith" and src(test.func.value) == "data" and len(test.args) == 1:
        p = _c(test.args[0])
        if isinstance(p, bytes) or (isinstance(p, tuple) and p and all(isinstance(x, bytes) for x in p)):
            return data.startswith(p)
    raise AnalysisError(f"C37: _guessStringType test not recognised: {src(test)[:80]}")


def guess(func, data: bytes):
    for st in func.body:
        if isinstance(st, ast.Expr) and isinstance(st.value, ast.Constant):
            continue
        if isinstance(st, ast.If) and not st.orelse:
            if eval_startswith(st.test, data):
                first = st.body[0]
                if isinstance(first, ast.Return) and isinstance(first.value, ast.Constant):
                    return first.value.value
                if isinstance(first, ast.Raise):
                    return "<raise>"
                rets = {c.value for r in ast.walk(st) if isinstance(r, ast.Return) and r.value is not None
                        for c in ([r.value] if isinstance(r.value, ast.Constant) else [r.value.body, r.value.orelse] if isinstance(r.value, ast.IfExp) else [])
                        if isinstance(c, ast.Constant) and isinstance(c.value, str)}
                if not rets:
                    raise AnalysisError("C37: _guessStringType branch result not recognised")
                return "|".join(sorted(rets))
        else:
            raise AnalysisError(f"C37: _guessStringType statement not recognised: {src(st)[:60]}")
    return None


def structural(ctx0):
    ctx = SCtx(ctx0)
    VK = Normaliser(ctx.mod(KY), ["Key"], set(), subscripts=False).view
    _ok_pr = False; _ok_ky = False; _ok_dc = False; _ok_lw = False; _ok_v1 = False; _ok_pem = False; _ok_gs = False; curve_keys = []
    with abstain(ctx0, 's/primitives/anchors', PRIM):
        fns = {n: ctx.func(CM, n) for n in ("NS", "getNS", "MP", "getMP")}
        fmts = {}
        _ok_pr = True
    for name in ("NS", "MP"):
        with abstain(ctx0, f's/primitives/writer/{name}', PRIM):
            ctx.need(_ok_pr, 'anchors of primitives (section skipped)')
            f = fns[name]
            q = QC + name
            rets = [st for st in statements(f) if isinstance(st, ast.Return) and st.value is not None]
            main = [r for r in rets if any(isinstance(c, ast.Call) and call_name(c) in ("struct.pack", "pack") for c in ast.walk(r.value))]
            ctx.need(main, f"{name}: return struct.pack(...) + bytes")
            ops = flatten_add(main[0].value)
            ok = len(ops) == 2 and isinstance(ops[0], ast.Call) and len(ops[0].args) == 2 and isinstance(ops[1], ast.Name) \
                and src(ops[0].args[1]) == f"len({ops[1].id})"
            ctx.check(ok, "primitive/length-of-what-is-appended", ctx.construct(q, main[0]),
                      f"{name} does not emit pack(fmt, len(x)) + x for one and the same x: the length prefix can differ from the bytes that follow")
            if ok:
                fmts[name] = _c(ops[0].args[0])
                ctx.check(struct_fmt_norm(fmts[name]) == ("big", "L"), "primitive/length-format", q, f"length prefix format {fmts[name]!r} is not a big-endian uint32 (RFC 4251 5)")
                # every rebinding of x happens before the return: trivially true for straight-line code; check no rebinding of x after len() is not needed
    with abstain(ctx0, 's/primitives/NS-encodes-first', PRIM):
        ctx.need(_ok_pr, 'anchors of primitives (section skipped)')
        f = fns["NS"]
        tp = f.args.args[0].arg
        enc = [st for st in statements(f) if isinstance(st, ast.Assign) and any(isinstance(t, ast.Name) and t.id == tp for t in st.targets)]
        for st in enc:
            ctx.check(isinstance(st.value, ast.Call) and call_attr(st.value) == "encode" and src(st.value.func.value) == tp, "primitive/length-of-what-is-appended",
                      ctx.construct(QC + "NS", st), "NS rebinds its argument to something other than its encoding")
    for name, wname in (("getNS", "NS"), ("getMP", "MP")):
        with abstain(ctx0, f's/primitives/reader/{name}', PRIM):
            ctx.need(_ok_pr, 'anchors of primitives (section skipped)')
            f = fns[name]
            q = QC + name
            sp_, cp = f.args.args[0].arg, f.args.args[1].arg
            ups = [c for c in ast.walk(f) if isinstance(c, ast.Call) and call_name(c) in ("struct.unpack", "unpack")]
            ctx.need(len(ups) == 1 and len(ups[0].args) == 2, f"{name}: one struct.unpack")
            rf = _c(ups[0].args[0])
            W = struct.calcsize(rf) if isinstance(rf, str) else None
            ctx.need(isinstance(rf, str) and wname in fmts, f"{name}: constant format; {wname}: format recognised")
            ctx.check(struct_fmt_norm(rf) == struct_fmt_norm(fmts[wname]), "primitive/format-agreement", q,
                      f"{name} unpacks {rf!r} but {wname} packs {fmts.get(wname)!r}")
            ust = ups[0]._parent
            ctx.need(isinstance(ust, ast.Assign) and isinstance(ust.targets[0], ast.Tuple) and len(ust.targets[0].elts) == 1, f"{name}: (l,) = unpack")
            lv = src(ust.targets[0].elts[0])
            loops = [st for st in f.body if isinstance(st, ast.For)]
            ctx.need(len(loops) == 1 and all(isinstance(st, (ast.Assign, ast.AugAssign, ast.Expr)) for st in loops[0].body) and any(st is ust for st in loops[0].body),
                     f"{name}: one for-loop with a straight-line body around the unpack")
            ctx.check(src(loops[0].iter) == f"range({cp})", "primitive/offsets", q + " | count", f"{name} does not iterate range({cp})")
            cvs = [st.targets[0].id for st in f.body if isinstance(st, ast.Assign) and const_is(st.value, 0) and isinstance(st.targets[0], ast.Name)]
            ctx.need(len(cvs) == 1, f"{name}: one cursor initialised to 0")
            cv = cvs[0]
            # one round of the loop, symbolically: every local as a linear form in the cursor at the start of the round (C) and the length read (L)
            env = {cv: (frozenset({("C", 1)}), 0)}

            def lin_env(e):
                """linear form of e with the locals of this round substituted"""
                base = lin(e)
                if base is None:
                    return None
                terms, k = dict(), base[1]
                for nm, coef in base[0]:
                    sub_ = env.get(nm) if nm != lv else (frozenset({("L", 1)}), 0)
                    if sub_ is None:
                        if nm.isidentifier():
                            return None          # a name this round has not bound
                        terms[nm] = terms.get(nm, 0) + coef
                        continue
                    for nm2, c2 in sub_[0]:
                        terms[nm2] = terms.get(nm2, 0) + coef * c2
                    k += coef * sub_[1]
                return frozenset((a, b) for a, b in terms.items() if b), k
            header = bodies = None
            body_nodes = []
            for st in loops[0].body:
                # slices of the source are read with the values the locals have at this statement
                for x in ast.walk(st):
                    sl = _slice(x)
                    if sl and src(sl[0]) == sp_:
                        lo = lin_env(sl[1]) if sl[1] is not None else (frozenset(), 0)
                        hi = lin_env(sl[2]) if sl[2] is not None else None
                        if x is ups[0].args[1]:
                            header = (lo, hi)
                        else:
                            body_nodes.append((x, lo, hi))
                if isinstance(st, ast.Assign) and len(st.targets) == 1 and isinstance(st.targets[0], ast.Name):
                    env[st.targets[0].id] = lin_env(st.value)
                elif isinstance(st, ast.AugAssign) and isinstance(st.target, ast.Name) and isinstance(st.op, (ast.Add, ast.Sub)):
                    env[st.target.id] = lin_env(ast.BinOp(left=ast.Name(id=st.target.id, ctx=ast.Load()), op=st.op, right=st.value))
            ctx.need(header is not None and len(body_nodes) == 1, f"{name}: header slice in the unpack and one body slice of {sp_}")
            Cf = frozenset({("C", 1)})
            ctx.check(header == ((Cf, 0), (Cf, W)), "primitive/offsets", ctx.construct(q, ust), f"the length prefix is not read from {sp_}[cursor:cursor+{W}]")
            okb = (body_nodes[0][1], body_nodes[0][2]) == ((Cf, W), (frozenset({("C", 1), ("L", 1)}), W))
            ctx.check(okb, "primitive/offsets", q + " | body", f"the value is not {sp_}[cursor+{W}:cursor+{W}+{lv}]: bytes are skipped or shared between consecutive values")
            ctx.check(env.get(cv) == (frozenset({("C", 1), ("L", 1)}), W), "primitive/offsets", q + " | advance", f"the cursor does not advance by {W} + {lv} per value")
            # the values in order, then the unread rest
            rest_sl = [x for st in f.body if st is not loops[0] for x in ast.walk(st) if _slice(x) and src(_slice(x)[0]) == sp_]
            ctx.need(len(rest_sl) == 1, f"{name}: one slice of {sp_} after the loop (the rest)")
            rs = _slice(rest_sl[0])
            ret = [st for st in f.body if isinstance(st, ast.Return)]
            ctx.need(len(ret) == 1, f"{name}: one return")
            apps = [c for c in ast.walk(loops[0]) if isinstance(c, ast.Call) and call_attr(c) == "append" and isinstance(c.func.value, ast.Name)]
            ctx.need(len(apps) == 1, f"{name}: values appended to one list in the loop")
            acc = apps[0].func.value.id
            ops = flatten_add(ret[0].value)
            form_a = len(ops) == 2 and isinstance(ops[0], ast.Call) and dotted(ops[0].func) == "tuple" and src(ops[0].args[0]) == acc and isinstance(ops[1], ast.Tuple) \
                and len(ops[1].elts) == 1 and ops[1].elts[0] is rest_sl[0]
            tail_app = [st for st in f.body if isinstance(st, ast.Expr) and isinstance(st.value, ast.Call) and call_attr(st.value) == "append" and src(st.value.func.value) == acc
                        and st.value.args and st.value.args[0] is rest_sl[0]]
            form_b = bool(tail_app) and len(ops) == 1 and isinstance(ops[0], ast.Call) and dotted(ops[0].func) == "tuple" and src(ops[0].args[0]) == acc \
                and f.body.index(tail_app[0]) > f.body.index(loops[0])
            ctx.need(form_a or form_b, f"{name}: return tuple(values) + (rest,) or values.append(rest); return tuple(values)")
            ctx.check(src(rs[1]) == cv and rs[2] is None, "primitive/rest-returned", q, f"{name} does not return the values in order followed by the unread rest {sp_}[{cv}:]")
            if name == "getMP":
                fb = [c for c in ast.walk(f) if isinstance(c, ast.Call) and call_name(c) == "int.from_bytes"]
                ctx.need(len(fb) == 1 and len(fb[0].args) == 2 and fb[0].args[0] is body_nodes[0][0], "getMP: int.from_bytes(<body slice>, order)")
                ctx.check(const_is(fb[0].args[1], "big") and not any(k.arg == "signed" and not const_is(k.value, False) for k in fb[0].keywords),
                          "primitive/mp-unsigned-big-endian", q, "getMP does not read the body as an unsigned big-endian integer")
    with abstain(ctx0, 's/primitives/MP-details', PRIM):
        ctx.need(_ok_pr, 'anchors of primitives (section skipped)')
        f = fns["MP"]
        q = QC + "MP"
        np_ = f.args.args[0].arg
        zero = [st for st in f.body if isinstance(st, ast.If) and isinstance(st.test, ast.Compare) and src(st.test) == f"{np_} == 0"]
        ctx.need(zero and isinstance(zero[0].body[0], ast.Return) and "MP" in fmts and _c(zero[0].body[0].value) is not None, "MP: if number == 0: return <constant>")
        okz = _c(zero[0].body[0].value) == struct.pack(fmts["MP"], 0)
        ctx.check(okz, "primitive/mp-zero", q, "MP(0) is not the packed zero length (an empty mpint)")
        pad = [st for st in f.body if isinstance(st, ast.If) and st not in zero]
        ctx.need(pad, "MP: sign padding if")
        bnv = [t.id for st in f.body if isinstance(st, ast.Assign) and isinstance(st.value, ast.Call) and call_attr(st.value) == "int_to_bytes" for t in st.targets if isinstance(t, ast.Name)]
        ctx.need(bnv, "MP: bn = int_to_bytes(number)")
        bn = bnv[0]
        wrong = []
        for v in range(256):
            try:
                got = bool(const_eval(pad[0].test, {bn: bytes((v, 1))}))
            except NotConst as e:
                need(ctx, False, f"MP padding test not evaluable ({e})")
            if got != (v >= 128):
                wrong.append(v)
        ctx.check(not wrong, "primitive/mp-sign-padding", ctx.construct(q, pad[0].test),
                  f"a zero byte is prepended iff the leading byte is >= 0x80 fails for leading bytes {wrong[:4]}: such values decode as negative (other SSH "
                  "implementations) or carry a non-minimal encoding")
        st = pad[0].body[0]
        okp = isinstance(st, ast.Assign) and src(st.targets[0]) == bn and len(flatten_add(st.value)) == 2 and _c(flatten_add(st.value)[0]) == b"\0" and src(flatten_add(st.value)[1]) == bn
        ctx.check(okp, "primitive/mp-sign-padding", ctx.construct(q, st), "the sign padding is not exactly one leading zero byte")

    with abstain(ctx0, 's/keys/anchors', RT):
        ky = ctx.mod(KY)
        kcls = ctx.cls(KY, "Key")
        km = {n_: VK(f_) for n_, f_ in methods(kcls).items()}
        _ok_ky = True
    with abstain(ctx0, 's/keys/type-tags', RT):
        ctx.need(_ok_ky, 'anchors of keys (section skipped)')
        st_f = VK(ctx.func(KY, "Key.sshType"))
        dicts = [d for d in ast.walk(st_f) if isinstance(d, ast.Dict)]
        ctx.need(dicts, "sshType: literal table")
        table = {_c(k): _c(v) for k, v in zip(dicts[0].keys, dicts[0].values)}
        for t, w in WIRE.items():
            if t != "EC":
                ctx.check(table.get(t) == w, "keys/type-tags", f"{QK}sshType | {t}", f"sshType maps {t} to {table.get(t)!r}; RFC 4253/8709 name is {w!r}")
        curve_keys = []
        ct = ky.module_assign("_curveTable")
        s2n = ky.module_assign("_secToNist")
        ctx.need(isinstance(ct, ast.Dict) and isinstance(s2n, ast.Dict), "_curveTable / _secToNist")
        curve_keys = [_c(k) for k in ct.keys]
        nist = [_c(v) for v in s2n.values]
        ctx.check(sorted(curve_keys) == sorted(b"ecdsa-sha2-" + n for n in nist), "keys/type-tags", "twisted.conch.ssh.keys._curveTable ~ _secToNist",
                  f"curve table keys {curve_keys} are not 'ecdsa-sha2-' + the NIST names {nist}: sshType() of an EC key is not a key of _curveTable and cannot be parsed back")
    with abstain(ctx0, 's/keys/data-components', RT):
        ctx.need(_ok_ky, 'anchors of keys (section skipped)')
        data_f = VK(ctx.func(KY, "Key.data"))
        comps = {}
        for st in ast.walk(data_f):
            if isinstance(st, ast.If) and isinstance(st.test, ast.Call) and dotted(st.test.func) == "isinstance" and isinstance(st.test.args[1], ast.Attribute):
                cls_ = st.test.args[1].attr
                for r in st.body:
                    if isinstance(r, ast.Return) and isinstance(r.value, ast.Dict) and cls_ in DATA_CLASS:
                        comps[DATA_CLASS[cls_]] = {_c(k) for k in r.value.keys}
        ctx.floor("keys/data-components", len(comps), 8, "data() branches")

        def check_components(q, t, vis, schema):
            have = comps.get((t, vis), set())
            for kind, nm in schema:
                if isinstance(nm, str) and nm.startswith("data:"):
                    ctx.check(nm[5:] in have, "keys/data-components", f"{q} | {t} {nm[5:]}",
                              f"the {vis} {t} serialiser reads data()[{nm[5:]!r}] which data() does not provide for that key class (KeyError)")

        pairs = [("blob", "_fromString_BLOB", "public", 1), ("privateBlob", "_fromString_PRIVATE_BLOB", "private", 1), ("_toString_AGENTV3", "_fromString_AGENTV3", "private", 0)]
        n_schema_box = [0]
        _ok_dc = True
    for wn, rn, vis, skip in pairs:
        with abstain(ctx0, f's/keys/schema/{wn}', RT):
            ctx.need(_ok_dc, 'anchors of keys (section skipped)')
            wf, rf_ = VK(ctx.func(KY, f"Key.{wn}")), VK(ctx.func(KY, f"Key.{rn}"))
            qw, qr = QK + wn, QK + rn
            wb = type_branches(wf, "writer")
            rb = type_branches(rf_, "reader")
            ctx.need(wb and rb, f"type dispatch of {wn} / {rn}")
            for t in sorted(wb):
                ws = writer_schema(wb[t])
                need(ctx, ws is not None, f"{wn}[{t}] schema")
                tag = WIRE.get(t)
                if not ctx.check(tag is not None, "keys/writer-types", f"{qw} | {t}", f"{wn} has a branch for an unknown key class {t!r}"):
                    continue
                if skip:
                    first = ws[0]
                    oktag = first[0] == "NS" and (first[1] == tag if t != "EC" else first[1] == "data:curve")
                    ctx.check(oktag, "keys/type-tags", f"{qw} | {t} tag", f"the {t} {wn} does not start with NS({tag!r}); it starts with {first!r}")
                check_components(qw, t, vis, ws)
                if not ctx.check(tag in rb, "keys/every-written-type-is-readable", f"{qr} | {t}",
                                 f"{wn} can serialise a {t} key but {rn} has no branch for wire type {tag!r}: the key does not parse back"):
                    continue
                rs = reader_schema(rb[tag])
                need(ctx, rs is not None, f"{rn}[{tag}] schema")
                wfields = ws[skip:]
                n_schema_box[0] += 1
                ctx.check([k for k, _ in wfields] == [k for k, _ in rs], "keys/field-schema", f"{qw} ~ {rn} | {t}",
                          f"{wn} writes {[k for k, _ in wfields]} for {t} but {rn} reads {[k for k, _ in rs]}: fields are mis-aligned")
                if [k for k, _ in wfields] == [k for k, _ in rs]:
                    for i, ((k, wnm), (_, rnm)) in enumerate(zip(wfields, rs)):
                        if k == "MP" and isinstance(wnm, str) and wnm.startswith("data:") and rnm is not None:
                            ctx.check(wnm[5:] == rnm, "keys/field-order", f"{qw} ~ {rn} | {t} field {i}",
                                      f"field {i} of a {t} key is written from component {wnm[5:]!r} but read as {rnm!r}: components are swapped")
            # reader feeds the right constructor arguments (name = same name)
            for tag, body in rb.items():
                for c in ast.walk(ast.Module(body=list(body), type_ignores=[])):
                    if isinstance(c, ast.Call) and call_attr(c) in ("_fromRSAComponents", "_fromDSAComponents"):
                        for kw in c.keywords:
                            if isinstance(kw.value, ast.Name):
                                ctx.check(kw.arg == kw.value.id, "keys/field-order", f"{qr} | {tag!r} {kw.arg}=",
                                          f"{rn} passes the value read as {kw.value.id!r} as component {kw.arg!r}")
    with abstain(ctx0, 's/keys/schema-floor', RT):
        ctx.floor("keys/field-schema", n_schema_box[0], 9, "type branches compared")
    with abstain(ctx0, 's/keys/ec-point', RT):
        ctx.need(_ok_ky, 'anchors of keys (section skipped)')
        rb = type_branches(km["_fromString_BLOB"], "reader")
        ecb = rb.get("<curve>", [])
        ecm = ast.Module(body=list(ecb), type_ignores=[])
        ctx.need(ecb, "_fromString_BLOB: branch for the curve types")
        pts = [c.args[1] for c in ast.walk(ecm) if isinstance(c, ast.Call) and call_attr(c) == "from_encoded_point" and len(c.args) == 2]
        pts += [k.value for c in ast.walk(ecm) if isinstance(c, ast.Call) and call_attr(c) == "_fromECEncodedPoint" for k in c.keywords if k.arg == "encodedPoint"]
        ctx.need(len(pts) == 1, "_fromString_BLOB: the encoded point handed to the constructor")
        idx = cnt = None
        pt = pts[0]
        if isinstance(pt, ast.Subscript) and isinstance(pt.value, ast.Call) and call_attr(pt.value) == "getNS":
            idx, cnt = _c(pt.slice), (_c(pt.value.args[1]) if len(pt.value.args) > 1 else 1)
        elif isinstance(pt, ast.Name):
            for st in ast.walk(ecm):
                if isinstance(st, ast.Assign) and isinstance(st.value, ast.Call) and call_attr(st.value) == "getNS" and isinstance(st.targets[0], (ast.Tuple, ast.List)):
                    names_ = [src(e) for e in st.targets[0].elts]
                    if pt.id in names_ and names_.count(pt.id) == 1:
                        idx, cnt = names_.index(pt.id), (_c(st.value.args[1]) if len(st.value.args) > 1 else 1)
                if isinstance(st, ast.Assign) and any(isinstance(t, ast.Name) and t.id == pt.id for t in st.targets) and isinstance(st.value, ast.Subscript) \
                        and isinstance(st.value.value, ast.Call) and call_attr(st.value.value) == "getNS":
                    idx, cnt = _c(st.value.slice), (_c(st.value.value.args[1]) if len(st.value.value.args) > 1 else 1)
        ctx.need(idx is not None and cnt is not None, "_fromString_BLOB: the point is one of the strings read by getNS(rest, n)")
        ctx.check(idx == 1 and cnt == 2, "keys/field-schema", QK + "_fromString_BLOB | EC point",
                  f"the EC point is string {idx} of {cnt} following the type tag; the writer puts the curve name first and the point second")
    with abstain(ctx0, 's/keys/ed25519-private', RT):
        ctx.need(_ok_ky, 'anchors of keys (section skipped)')
        rb = type_branches(km["_fromString_PRIVATE_BLOB"], "reader")
        edb = rb.get(b"ssh-ed25519", [])
        ctx.need(edb, "_fromString_PRIVATE_BLOB: branch for ssh-ed25519")
        ks = [x for x in ast.walk(ast.Module(body=list(edb), type_ignores=[])) if _slice(x) and (_slice(x)[1] is None or _c(_slice(x)[1]) == 0) and _slice(x)[2] is not None
              and not (isinstance(_slice(x)[0], ast.Call) and call_attr(_slice(x)[0]) in ("getNS", "getMP"))]      # a cut of a string read, not of the tuple of strings
        ctx.need(len(ks) == 1, "_fromString_PRIVATE_BLOB: k = <k||a>[:n]")
        ctx.check(_c(_slice(ks[0])[2]) == 32, "keys/field-schema", QK + "_fromString_PRIVATE_BLOB | Ed25519 k",
                  "the Ed25519 private scalar is not the first 32 bytes of the 'k || a' string")
        wb = type_branches(km["privateBlob"], "writer")
        wsed = writer_schema(wb.get("Ed25519", []))
        ctx.need(wsed, "privateBlob: Ed25519 schema")
        ctx.check(wsed[-1] == ("NS", "data['k'] + data['a']"), "keys/field-schema", QK + "privateBlob | Ed25519 k||a", "Ed25519 private blob does not end with NS(k || a)")

    with abstain(ctx0, 's/keys/lsh-writer', RT):
        ctx.need(_ok_ky, 'anchors of keys (section skipped)')
        lw = lsh_writer(VK(ctx.func(KY, "Key._toString_LSH")))
        ctx.floor("keys/lsh", len(lw), 4, "sexpy.pack literals")
        _ok_lw = True
    for rn, head in (("_fromString_PUBLIC_LSH", b"public-key"), ("_fromString_PRIVATE_LSH", b"private-key")):
        with abstain(ctx0, f's/keys/lsh/{rn}', RT):
            ctx.need(_ok_lw, 'anchors of keys (section skipped)')
            rh, rt = lsh_reader(VK(ctx.func(KY, f"Key.{rn}")))
            qr = QK + rn
            ctx.need(rh is not None and rt, f"{rn}: assert sexp[0] == <head> and a dispatch on sexp[1][0]")
            ctx.check(rh == head, "keys/lsh", qr + " | head", f"{rn} asserts head {rh!r}, expected {head!r}")
            written = {tn: fl for (h, tn), fl in lw.items() if h == head}
            ctx.check(bool(written), "keys/lsh", QK + f"_toString_LSH | {head!r}", f"_toString_LSH never writes a {head!r} expression")
            for tn, fl in sorted(written.items()):
                names = [n for n, v in fl]
                if not ctx.check(tn in rt, "keys/every-written-type-is-readable", f"{qr} | {tn!r}",
                                 f"_toString_LSH writes key type {tn!r} under {head!r} but {rn} has no branch for it"):
                    continue
                used, n = rt[tn]
                ctx.check(used <= set(names), "keys/lsh", f"{qr} | {tn!r} fields", f"{rn} needs fields {sorted(used - set(names))} that _toString_LSH does not write for {tn!r}")
                ctx.check(n is None or n == len(names), "keys/lsh", f"{qr} | {tn!r} count", f"{rn} asserts {n} fields for {tn!r}; _toString_LSH writes {len(names)}")
                for nm, v in fl:
                    sl = _slice(v)
                    ctx.check(sl is not None and isinstance(sl[0], ast.Call) and call_attr(sl[0]) == "MP" and _c(sl[1]) == 4 and sl[2] is None, "keys/lsh",
                              f"{QK}_toString_LSH | {head!r} {tn!r} {nm!r}", "an LSH number is not MP(x)[4:] (mpint body without its length prefix, re-prefixed by the reader)")

    with abstain(ctx0, 's/v1/anchors', RT):
        ctx.need(_ok_ky, 'anchors of v1 (section skipped)')
        raw = methods(kcls)
        wv, rv = ctx.func(KY, "Key._toPrivateOpenSSH_v1"), ctx.func(KY, "Key._fromPrivateOpenSSH_v1")
        qw, qr = QK + "_toPrivateOpenSSH_v1", QK + "_fromPrivateOpenSSH_v1"

        def with_helpers(f):
            """the function and the private helpers it calls (not the other _from* / _to* converters, which have their own rules)"""
            out, todo = [], [f]
            while todo:
                x = todo.pop()
                if any(x is y for y in out):
                    continue
                out.append(x)
                for c in ast.walk(x):
                    if isinstance(c, ast.Call) and isinstance(c.func, ast.Attribute) and isinstance(c.func.value, ast.Name) and c.func.value.id in ("self", "cls") \
                            and c.func.attr.startswith("_") and not c.func.attr.startswith(("_from", "_to", "__")) and c.func.attr in raw:
                        todo.append(raw[c.func.attr])
            return [n for x in out for n in ast.walk(x)]
        W, R = with_helpers(wv), with_helpers(rv)

        def bconsts(nodes):
            return [c.value for c in nodes if isinstance(c, ast.Constant) and isinstance(c.value, bytes)]

        def const_def(nodes, e):
            """value of a constant / of a local with exactly one definition, which is a constant"""
            if isinstance(e, ast.Name):
                ds = [st.value for st in nodes if isinstance(st, ast.Assign) and any(isinstance(t, ast.Name) and t.id == e.id for t in st.targets)]
                return _c(ds[0]) if len(ds) == 1 else None
            return _c(e)
        import re as _re
        CIPHER = _re.compile(rb"[a-z0-9]+-(ctr|cbc|gcm)(@[a-z.]+)?|[a-z0-9-]+@openssh\.com")
        _ok_v1 = True
    with abstain(ctx0, 's/v1/names-and-sizes', RT):
        ctx.need(_ok_v1, 'anchors of v1 (section skipped)')
        wmag = {c for c in bconsts(W) if c.startswith(b"openssh-key")}
        rmag = {c for c in bconsts(R) if c.startswith(b"openssh-key")}
        ctx.need(wmag and rmag, "v1: magic constants of writer and reader")
        ctx.check(len(wmag) == 1 and rmag == wmag, "container/v1-magic", qw + " ~ _fromPrivateOpenSSH_v1", f"magic written {sorted(wmag)} vs checked/stripped {sorted(rmag)}")
        wc = sorted({c for c in bconsts(W) if CIPHER.fullmatch(c)})
        rc = set()
        for t in R:
            if isinstance(t, ast.Compare) and len(t.ops) == 1 and isinstance(t.ops[0], (ast.In, ast.NotIn)) and isinstance(t.comparators[0], (ast.Tuple, ast.List, ast.Set)):
                vals = _c(t.comparators[0])
                if vals and all(isinstance(v, bytes) and CIPHER.fullmatch(v) for v in vals):
                    rc |= set(vals)
            if isinstance(t, ast.Compare) and len(t.ops) == 1 and isinstance(t.ops[0], (ast.Eq, ast.NotEq)) and isinstance(_c(t.comparators[0]), bytes) and CIPHER.fullmatch(_c(t.comparators[0])):
                rc.add(_c(t.comparators[0]))
        ctx.need(wc and rc, "v1: cipher name written / set of cipher names accepted")
        for c in wc:
            ctx.check(c in rc, "container/v1-cipher", f"{qw} | {c!r}", f"private keys are encrypted with {c!r} but the reader only accepts {sorted(rc)}")

        def kdf_and_cipher(nodes, what):
            kc = [c for c in nodes if isinstance(c, ast.Call) and call_name(c) == "bcrypt.kdf"]
            cip = [c for c in nodes if isinstance(c, ast.Call) and call_name(c) == "Cipher"]
            ctx.need(len(kc) == 1 and len(kc[0].args) >= 4 and len(cip) == 1 and len(cip[0].args) >= 2, f"v1 {what}: one bcrypt.kdf(pass, salt, size, rounds) and one Cipher(key, mode)")
            return kc[0], cip[0]
        wk_, wcip = kdf_and_cipher(W, "writer")
        rk_, rcip = kdf_and_cipher(R, "reader")
        from sa.props._lib_h import local_aliases, pure_expr
        for nodes, kc, cip, q_ in ((W, wk_, wcip, qw), (R, rk_, rcip, qr)):
            al_ = {}
            for fn_ in [x for x in nodes if isinstance(x, ast.FunctionDef)]:
                al_.update(local_aliases(fn_, allow=lambda v: isinstance(v, ast.BinOp) and pure_expr(v)))
            _lin0 = lin
            lin_ = lambda e: _lin0(e, al_)
            size = lin_(kc.args[2])
            ksl = [s_ for s_ in (_slice(x) for x in ast.walk(cip.args[0])) if s_]
            isl = [s_ for s_ in (_slice(x) for x in ast.walk(cip.args[1])) if s_]
            ctx.need(size is not None and len(ksl) == 1 and len(isl) == 1 and ksl[0][2] is not None and isl[0][1] is not None and isl[0][2] is not None,
                     "v1: Cipher(alg(k[:a]), mode(k[a:a+b])) over the derived key")
            a, lo, hi = lin_(ksl[0][2]), lin_(isl[0][1]), lin_(isl[0][2])
            ok = ksl[0][1] is None and a is not None and lo == a and hi == size and src(ksl[0][0]) == src(isl[0][0]) and "CTR" in src(cip.args[1])
            ctx.check(ok, "container/v1-cipher", q_ + " | key/iv split",
                      f"key and IV are not taken as derived[:keySize] and derived[keySize:keySize+ivSize] of the {src(kc.args[2])} derived bytes in CTR mode "
                      f"(key {src(cip.args[0])[:40]}, iv {src(cip.args[1])[:50]})")
        # key size: writer constant vs what the reader derives from the cipher name
        wks = const_def(W, _slice([x for x in ast.walk(wcip.args[0]) if _slice(x)][0])[2])
        rks_e = _slice([x for x in ast.walk(rcip.args[0]) if _slice(x)][0])[2]
        rdefs = [st.value for st in R if isinstance(st, ast.Assign) and isinstance(rks_e, ast.Name) and any(isinstance(t, ast.Name) and t.id == rks_e.id for t in st.targets)]
        ctx.need(isinstance(wks, int) and len(rdefs) == 1, "v1: key size constant of the writer / key size expression of the reader")
        free = sorted({n.id for n in ast.walk(rdefs[0]) if isinstance(n, ast.Name) and n.id not in ("int", "len")})
        ctx.need(len(free) == 1, "v1: reader's key size is a function of the cipher name only")
        for c in wc:
            got = _c(rdefs[0], {free[0]: c})
            ctx.check(got == wks, "container/v1-cipher", f"{qw} | {c!r} key size", f"writer uses a {wks} byte key, reader derives {got} from the cipher name {c!r}")
        # KDF name
        wk = sorted({c for c in bconsts(W) if c.isalnum() and len(c) >= 3 and c != b"none" and not CIPHER.fullmatch(c)})
        rk = {_c(t.comparators[0]) for t in R if isinstance(t, ast.Compare) and len(t.ops) == 1 and isinstance(t.ops[0], (ast.Eq, ast.NotEq)) and isinstance(_c(t.comparators[0]), bytes)}
        ctx.need(wk and rk, "v1: KDF name written / compared")
        for k in wk:
            ctx.check(k in rk, "container/v1-kdf", f"{qw} | {k!r}", f"KDF {k!r} is written but the reader only knows {sorted(x for x in rk if x and x != b'none')}")
        # rounds recorded == rounds used
        rec = [flatten_add(st.value)[1].args[1] for st in W if isinstance(st, ast.Assign) and len(flatten_add(st.value)) == 2 and isinstance(flatten_add(st.value)[0], ast.Call)
               and call_attr(flatten_add(st.value)[0]) == "NS" and isinstance(flatten_add(st.value)[1], ast.Call) and call_name(flatten_add(st.value)[1]) in ("struct.pack", "pack")
               and len(flatten_add(st.value)[1].args) == 2]
        ctx.need(len(rec) == 1, "v1 writer: kdfOptions = NS(salt) + pack(fmt, rounds)")
        used_r, rec_r = wk_.args[3], rec[0]
        same = (isinstance(used_r, ast.Name) and isinstance(rec_r, ast.Name) and used_r.id == rec_r.id) or \
            (const_def(W, used_r) is not None and const_def(W, used_r) == const_def(W, rec_r))
        ctx.check(same, "container/v1-kdf", qw + " | rounds",
                  f"the number of bcrypt rounds recorded in the file ({src(rec_r)}) differs from the number used to derive the key ({src(used_r)})")
    with abstain(ctx0, 's/v1/field-order', RT):
        ctx.need(_ok_v1, 'anchors of v1 (section skipped)')
        blob_st = [st for st in wv.body if isinstance(st, ast.Assign) and any(isinstance(o, ast.Constant) and isinstance(o.value, bytes) and o.value.startswith(b"openssh-key")
                                                                              for o in flatten_add(st.value)[:1])]
        ctx.need(len(blob_st) == 1, "_toPrivateOpenSSH_v1: <container> = magic + NS(...) + ...")
        wseq = []
        for o in flatten_add(blob_st[0].value):
            if isinstance(o, ast.Call) and call_attr(o) == "NS":
                wseq.append("NS")
            elif isinstance(o, ast.Call) and call_name(o) in ("struct.pack", "pack") and len(o.args) == 2 and struct_fmt_norm(_c(o.args[0])) == ("big", "L"):
                wseq.append("U32=" + src(o.args[1]))
            elif isinstance(o, ast.Constant):
                wseq.append("MAGIC")
            else:
                need(ctx, False, f"v1 writer: container piece {src(o)[:30]}")
        # reader: follow the chain of "rest" variables from the slice behind the magic
        rseq, cur, count_var = ["MAGIC"], None, None
        for c in _ordered_calls(rv, ("getNS", "unpack")):
            is_ns = call_attr(c) == "getNS"
            arg = c.args[0] if is_ns else (c.args[1] if len(c.args) > 1 else None)
            sl = _slice(arg) if arg is not None else None
            base = src(sl[0]) if sl else (src(arg) if arg is not None else None)
            if cur is None:
                if not is_ns:
                    continue
            elif base != cur:
                continue
            par = c._parent
            while not isinstance(par, ast.stmt):
                par = par._parent
            if is_ns:
                n = _c(c.args[1]) if len(c.args) > 1 else 1
                need(ctx, isinstance(n, int) and isinstance(par, ast.Assign) and isinstance(par.targets[0], (ast.Tuple, ast.List)) and len(par.targets[0].elts) == n + 1,
                     "v1 reader: a, b, rest = getNS(x, n)")
                rseq += ["NS"] * n
                cur = src(par.targets[0].elts[-1])
            else:
                need(ctx, struct_fmt_norm(_c(c.args[0])) == ("big", "L") and sl is not None and sl[1] is None and _c(sl[2]) == 4, "v1 reader: unpack('!L', rest[:4])")
                rseq.append("U32=1")
                tg = par.targets[0] if isinstance(par, ast.Assign) else None
                count_var = src(tg.elts[0]) if isinstance(tg, (ast.Tuple, ast.List)) and len(tg.elts) == 1 else (src(tg) if tg is not None else None)
        ctx.need(cur is not None, "v1 reader: getNS(<data behind the magic>, n)")
        ctx.check(wseq == rseq, "container/v1-field-order", qw + " ~ _fromPrivateOpenSSH_v1", f"writer lays out {wseq}, reader consumes {rseq}")
        nkeys = [t for t in ast.walk(rv) if isinstance(t, ast.Compare) and len(t.ops) == 1 and isinstance(t.ops[0], (ast.NotEq, ast.Eq))
                 and count_var in (src(t.left), src(t.comparators[0]))]
        ctx.need(count_var is not None and nkeys, "v1 reader: the key count is compared")
        cv_ = [x for x in (nkeys[0].left, nkeys[0].comparators[0]) if src(x) != count_var][0]
        ctx.check(_c(cv_) == 1, "container/v1-field-order", qr + " | key count", "reader does not insist on exactly the one key the writer stores")
    with abstain(ctx0, 's/v1/check-words', RT):
        ctx.need(_ok_v1, 'anchors of v1 (section skipped)')
        pk = [st for st in wv.body if isinstance(st, ast.Assign) and any(isinstance(o, ast.Call) and call_name(o) == "self.privateBlob" for o in flatten_add(st.value))]
        ctx.need(len(pk) == 1, "_toPrivateOpenSSH_v1: <list> = check + check + self.privateBlob() + NS(comment)")
        ops = flatten_add(pk[0].value)
        okw = len(ops) == 4 and isinstance(ops[0], ast.Name) and src(ops[0]) == src(ops[1]) and call_name(ops[2]) == "self.privateBlob" and isinstance(ops[3], ast.Call) and call_attr(ops[3]) == "NS"
        n_chk = None
        if okw:
            cd = [st.value for st in wv.body if isinstance(st, ast.Assign) and src(st.targets[0]) == ops[0].id]
            n_chk = _c(cd[0].args[0]) if len(cd) == 1 and isinstance(cd[0], ast.Call) and cd[0].args else None
            ctx.need(n_chk is not None, "_toPrivateOpenSSH_v1: check = secureRandom(n)")
        ctx.check(okw and n_chk == 4, "container/v1-check-words", ctx.construct(qw, pk[0]), "the decrypted list is not check || check || privateBlob || NS(comment) with a 4-byte check word")
        fin = [c for c in ast.walk(rv) if isinstance(c, ast.Call) and call_attr(c) == "_fromString_PRIVATE_BLOB"]
        ctx.need(len(fin) == 1 and len(fin[0].args) == 1 and _slice(fin[0].args[0]), "v1 reader: _fromString_PRIVATE_BLOB(<list>[k:])")
        fb, flo, fhi = _slice(fin[0].args[0])
        ups = [(c, _slice(c.args[1])) for c in ast.walk(rv) if isinstance(c, ast.Call) and call_name(c) in ("struct.unpack", "unpack") and len(c.args) == 2 and _slice(c.args[1])
               and src(_slice(c.args[1])[0]) == src(fb)]
        ctx.need(len(ups) == 2, "v1 reader: two check words unpacked from the decrypted list")
        spans = sorted(((_c(s_[1]) or 0), _c(s_[2])) for c, s_ in ups)
        words = []
        for c, s_ in ups:
            par = c._parent
            while not isinstance(par, ast.stmt):
                par = par._parent
            tg = par.targets[0] if isinstance(par, ast.Assign) else None
            words.append(src(tg.elts[0]) if isinstance(tg, (ast.Tuple, ast.List)) and len(tg.elts) == 1 else (src(tg) if tg is not None else None))
        cmpc = [t for t in ast.walk(rv) if isinstance(t, ast.Compare) and len(t.ops) == 1 and isinstance(t.ops[0], (ast.NotEq, ast.Eq)) and {src(t.left), src(t.comparators[0])} == set(words)]
        ctx.check(spans == [(0, 4), (4, 8)] and _c(flo) == 8 and fhi is None and bool(cmpc), "container/v1-check-words", qr,
                  f"reader does not compare the two 4-byte check words (read {spans}) and parse the private blob from offset 8 (parses from {src(flo) if flo is not None else 0})")
    with abstain(ctx0, 's/pem-kinds', RT):
        ctx.need(_ok_ky, 'anchors of pem-kinds (section skipped)')
        pem_r = ctx.func(KY, "Key._fromPrivateOpenSSH_PEM")
        kinds = set()
        for t in ast.walk(pem_r):
            if isinstance(t, ast.Compare) and len(t.ops) == 1 and isinstance(t.ops[0], (ast.In, ast.NotIn)) and isinstance(t.comparators[0], (ast.Tuple, ast.List, ast.Set)):
                vals = _c(t.comparators[0])
                if vals and all(isinstance(v, bytes) for v in vals):
                    kinds |= set(vals)
        ctx.need(kinds, "_fromPrivateOpenSSH_PEM: kind in (...)")
        pem_w = ctx.func(KY, "Key._toPrivateOpenSSH_PEM")

        def outcomes(stmts_, t):
            """{'return', 'raise', 'fall'} of a statement list with self.type() == t; tests that do not depend on the type only are explored both ways"""
            for i, st in enumerate(stmts_):
                if isinstance(st, ast.Return):
                    return {"return"}
                if isinstance(st, ast.Raise):
                    return {"raise"}
                if isinstance(st, ast.If):
                    class T(ast.NodeTransformer):
                        def visit_Call(self, node):
                            return ast.Constant(value=t) if src(node) == "self.type()" else self.generic_visit(node)
                    test = T().visit(ast.parse(src(st.test), mode="eval").body)
                    v = _c(test)
                    res = set()
                    for br, take in ((st.body, v is None or bool(v)), (st.orelse, v is None or not v)):
                        if take:
                            res |= outcomes(br, t)
                    if "fall" in res:
                        res = (res - {"fall"}) | outcomes(stmts_[i + 1:], t)
                    return res
                if isinstance(st, (ast.For, ast.While, ast.Try, ast.With)):
                    need(ctx, False, f"_toPrivateOpenSSH_PEM: statement {type(st).__name__}")
            return {"fall"}
        writes = {t.encode() for t in WIRE if "return" in outcomes(pem_w.body, t)}
        ctx.check(writes <= kinds, "container/pem-kinds", QK + "_toPrivateOpenSSH_PEM ~ _fromPrivateOpenSSH_PEM",
                  f"PEM is written for key classes {sorted(writes)} but only {sorted(kinds)} are read back",
                  detail=f"writer's guards evaluated for every key class {sorted(WIRE)} (the complete range of Key.type()): PEM produced for {sorted(writes)}")

        _ok_pem = True
    with abstain(ctx0, 's/dispatch/names', RT):
        ctx.need(_ok_ky, 'anchors of dispatch (section skipped)')
        gf = VK(ctx.func(KY, "Key._guessStringType"))
        names = {c.value for r in ast.walk(gf) if isinstance(r, ast.Return) and r.value is not None for c in ast.walk(r.value)
                 if isinstance(c, ast.Constant) and isinstance(c.value, str) and (c is r.value or (isinstance(r.value, ast.IfExp) and c in (r.value.body, r.value.orelse)))}
        ctx.floor("dispatch/guess-names", len(names), 5)
        for n in sorted(names):
            ctx.check(f"_fromString_{n.upper()}" in km, "dispatch/guess-names", f"{QK}_guessStringType | {n!r}", f"_guessStringType returns {n!r} but Key has no _fromString_{n.upper()}")
        tos = sorted(n[len("_toString_"):] for n in km if n.startswith("_toString_"))
        parsers = {"OPENSSH": ["_fromString_PUBLIC_OPENSSH", "_fromString_PRIVATE_OPENSSH"], "LSH": ["_fromString_PUBLIC_LSH", "_fromString_PRIVATE_LSH"], "AGENTV3": ["_fromString_AGENTV3"]}
        for t in tos:
            ctx.check(t in parsers and all(p in km for p in parsers[t]), "dispatch/format-has-parser", f"{QK}_toString_{t}", f"format {t} can be written but has no parser(s) {parsers.get(t)}")
        ctx.floor("dispatch/format-has-parser", len(tos), 3)
        n_calls = 0
        for name, fn in km.items():
            for c in ast.walk(fn):
                if isinstance(c, ast.Call) and isinstance(c.func, ast.Attribute) and isinstance(c.func.value, ast.Name) and c.func.value.id in ("self", "cls") \
                        and (c.func.attr.startswith("_from") or c.func.attr.startswith("_to")):
                    n_calls += 1
                    ctx.check(c.func.attr in km, "dispatch/helper-exists", f"{QK}{name} | {c.func.attr}", f"{name} calls {c.func.attr} which Key does not define")
        ctx.floor("dispatch/helper-exists", n_calls, 15)
        _ok_gs = True
    with abstain(ctx0, 's/dispatch/guess-tags', RT):
        ctx.need(_ok_gs, 'anchors of dispatch (section skipped)')
        tags = [w for t, w in WIRE.items() if t != "EC"] + curve_keys
        for tag in tags:
            ctx.check(guess(gf, tag + b" AAAAB3Nza comment") == "public_openssh", "dispatch/guess-recognises-written", f"{QK}_guessStringType | {tag!r} text",
                      f"a public OpenSSH line starting with {tag!r} is classified as {guess(gf, tag + b' AAAA')!r}")
            blobhead = struct.pack(">L", len(tag)) + tag + b"\0\0\0\1\1"
            ctx.check(guess(gf, blobhead) == "agentv3|blob", "dispatch/guess-recognises-written", f"{QK}_guessStringType | {tag!r} blob",
                      f"a binary blob starting with NS({tag!r}) is classified as {guess(gf, blobhead)!r}")
    with abstain(ctx0, 's/dispatch/guess-armour', RT):
        ctx.need(_ok_gs, 'anchors of dispatch (section skipped)')
        ctx.need(_ok_v1 and _ok_pem, "v1 / PEM anchors (section skipped)")
        armour = [c.value for c in ast.walk(wv) if isinstance(c, ast.Constant) and isinstance(c.value, bytes) and c.value.startswith(b"-----BEGIN")]
        ctx.need(armour, "v1 BEGIN line")
        ctx.check(guess(gf, armour[0] + b"\nAAAA\n") == "private_openssh", "dispatch/guess-recognises-written", f"{QK}_guessStringType | v1 armour", "the v1 armour line is not classified private_openssh")
        po = ctx.func(KY, "Key._fromString_PRIVATE_OPENSSH")
        disc = [t for t in ast.walk(po) if isinstance(t, ast.Compare) and len(t.ops) == 1 and isinstance(t.ops[0], (ast.Eq, ast.NotEq)) and _slice(t.left) and isinstance(t.comparators[0], ast.Constant)
                and isinstance(_c(_slice(t.left)[1]), int) and isinstance(_c(_slice(t.left)[2]), int)]
        kl = [st.value for st in ast.walk(pem_r) if isinstance(st, ast.Assign) and _slice(st.value) and isinstance(_c(_slice(st.value)[1]), int) and isinstance(_c(_slice(st.value)[2]), int)]
        ctx.need(len(disc) == 1 and len(kl) == 1, "_fromString_PRIVATE_OPENSSH: <first line>[a:b] ==/!= b'OPENSSH'; _fromPrivateOpenSSH_PEM: kind = <first line>[a:b]")
        lo, hi = _c(_slice(disc[0].left)[1]), _c(_slice(disc[0].left)[2])
        okd = armour[0][lo:hi] == disc[0].comparators[0].value and (_c(_slice(kl[0])[1]), _c(_slice(kl[0])[2])) == (lo, hi) \
            and all((b"-----BEGIN " + k + b" PRIVATE KEY-----")[lo:hi] == k for k in kinds)
        ctx.check(okd, "dispatch/guess-recognises-written", QK + "_fromString_PRIVATE_OPENSSH | v1 vs PEM",
                  "the armour-line slice that tells v1 from PEM (and names the PEM kind) does not extract 'OPENSSH' / the kind from '-----BEGIN <kind> PRIVATE KEY-----'")
    with abstain(ctx0, 's/dispatch/guess-lsh', RT):
        ctx.need(_ok_gs, 'anchors of dispatch (section skipped)')
        lshw = VK(ctx.func(KY, "Key._toString_LSH"))
        br = [c.value for r in ast.walk(lshw) if isinstance(r, ast.Return) and r.value is not None for c in flatten_add(r.value)[:1] if isinstance(c, ast.Constant)]
        ctx.check(bool(br) and guess(gf, br[0] + b"KDEwOnB1YmxpYy1rZXk=}") == "public_lsh", "dispatch/guess-recognises-written", f"{QK}_guessStringType | LSH public", "a public LSH key ({...}) is not classified public_lsh")
        ctx.check(guess(gf, b"(11:private-key(3:dsa") == "private_lsh", "dispatch/guess-recognises-written", f"{QK}_guessStringType | LSH private", "a private LSH s-expression is not classified private_lsh")


