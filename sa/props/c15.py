"""C15 - every reactor reports the loss of a TCP connection exactly once, after the data, with the right reason."""
from __future__ import annotations

import ast

from sa.astx import call_name, dotted, src, walk_local
from sa.selftest import Mutant, Silent
from sa.props._lib_d import Views, resolve_locals, undecided_tests
from sa.source import class_assigns
from sa.props._lib_d import (NONNULL, call_nodes, calls_with, const_value_is, covers, handler_names, implied,
                             local_def, must_pass_under, path_under, peval, reach_under, self_assigns, succ_of,
                             test_value, value_returned)

PROPERTY = "C15"
INCLUDE = [("C14", None, "abstract.FileDescriptor write buffering is the mechanism that hands the written bytes to the socket and "
            "decides when the connection is closed: every C14 clause on doWrite/write/loseConnection is a necessary clause of "
            "'the peer receives exactly the bytes written ... connectionLost exactly once'")]
TCP = "internet/tcp.py"
SEL = "internet/selectreactor.py"
POLL = "internet/pollreactor.py"
EPOLL = "internet/epollreactor.py"
AIO = "internet/asyncioreactor.py"
PB = "internet/posixbase.py"
TECHNIQUE = "sibling CFG comparison, dominance/must-pass on inlined views; exhaustive errno-class evaluation"
EXPLANATION = (
    "Decides for the dispatch function of every reactor (select, poll/epoll/continuous-polling mixin, asyncio): each "
    "doRead/doWrite call sits in a try whose handler is at least as broad as today's and stores the exception in the "
    "result variable; a truthy result reaches _disconnectSelectable(selectable, result, isRead) on every path, at most "
    "once; a second dispatch never overwrites a loss result; the poll-like mixin declares a hang-up only when no input is "
    "pending and records read/write direction; the iteration loops re-check registration before dispatching and pair "
    "(ready list, method, fd set) correctly; poll/epoll event masks follow the read/write sets. In "
    "_disconnectSelectable: removeReader (and removeWriter on a full close) precede exactly one connectionLost / "
    "readConnectionLost, half-close only for a read-side ConnectionDone, reasons come from the matching faildict row. In "
    "tcp.Connection: connectionLost returns at once when the socket is gone and deletes the guard attribute before the "
    "single protocol.connectionLost(reason) call-out, after FileDescriptor.connectionLost and _closeSocket; empty reads "
    "map to CONNECTION_DONE and nothing is delivered for them; EWOULDBLOCK is not a loss; writeSomeData sends a prefix; "
    "the half-close shuts only the write side; abortConnection is once-guarded; the single timer of the asyncio reactor has its armed-for marker cleared "
    "when it fires (before the timed calls run), is re-armed afterwards, and callLater arms it whenever nothing is armed. Not decided: byte-stream integrity on real "
    "sockets, OS behaviour, kqueue/cf/gtk/iocp reactors."
    " METHODS: structural throughout (sibling CFG comparison, dominance / must-pass / must-precede on inlined views, table agreement); the errno handling of "
    "recv()/send() and the direction flags are finite-exhaustive (one representative per class the code distinguishes, no test left undecided). No bounded rules."
)
RULE_KINDS = {
    # sibling comparison of the reactors' dispatch functions, CFG dominance / must-pass / must-precede (helpers unknown to the rules inlined), handler
    # breadth, table agreement (dispatch triples, event masks, faildict rows, epoll argument tables), def-use of captured exception / reason / protocol.
    # Rules that fix a guard outcome ("why truthy", "socket present") follow both outcomes of every other test: for-all over paths.
    "*": "structural",
    # the OSError handlers of recv()/send() evaluated for every class of errno they distinguish: EWOULDBLOCK, ENOBUFS, anything else (EPIPE as the
    # representative); completeness is checked per run: under each errno no test on the handler path is left undecided
    "tcp-read/wouldblock-is-not-loss": "finite-exhaustive", "tcp-read/error-is-loss": "finite-exhaustive",
    "tcp-write/wouldblock": "finite-exhaustive", "tcp-write/zero-only-wouldblock": "finite-exhaustive", "tcp-write/error-is-loss": "finite-exhaustive",
    # both values of the direction flag / method name
    "asyncio/method-follows-direction": "finite-exhaustive", "select/direction": "finite-exhaustive",
    "tcp-read/errno-handled": "finite-exhaustive", "tcp-write/errno-handled": "finite-exhaustive",
}
ASSUMPTIONS = [
    "log.err()/log.callWithLogger do not raise and do not touch reactor state",
    "abstract.FileDescriptor.doWrite returns the close reason (checked by C14)",
]

Q = "twisted.internet."

# methods the rules are written against; any other private method of these classes is a helper introduced later and is analysed as
# if inlined at its call sites (sa.props._lib_d.Inliner / Views)
KNOWN = {'internet/asyncioreactor.py': {'AsyncioSelectorReactor': ['__init__', '_moveCallLaterSooner', '_onTimer', '_readOrWrite', '_reschedule', '_unregisterFDInAsyncio', 'addReader',
                                                           'addWriter', 'callFromThread', 'callLater', 'crash', 'getReaders', 'getWriters', 'iterate', 'removeAll', 'removeReader',
                                                           'removeWriter', 'run', 'stop']},
 'internet/epollreactor.py': {'EPollReactor': ['__init__', '_add', '_remove', 'addReader', 'addWriter', 'doPoll', 'getReaders', 'getWriters', 'removeAll', 'removeReader',
                                               'removeWriter']},
 'internet/pollreactor.py': {'PollReactor': ['__init__', '_dictRemove', '_updateRegistration', 'addReader', 'addWriter', 'doPoll', 'getReaders', 'getWriters', 'removeAll',
                                             'removeReader', 'removeWriter']},
 'internet/posixbase.py': {'_DisconnectSelectableMixin': ['_disconnectSelectable'], '_PollLikeMixin': ['_doReadOrWrite']},
 'internet/selectreactor.py': {'SelectReactor': ['__init__', '_doReadOrWrite', '_preenDescriptors', 'addReader', 'addWriter', 'doSelect', 'getReaders', 'getWriters', 'removeAll',
                                                 'removeReader', 'removeWriter']},
 'internet/tcp.py': {'Connection': ['__init__', '_closeWriteConnection', '_dataReceived', 'connectionLost', 'doRead', 'getHandle', 'getTcpKeepAlive', 'getTcpNoDelay', 'logPrefix',
                                    'readConnectionLost', 'setTcpKeepAlive', 'setTcpNoDelay', 'writeSomeData'],
                     '_AbortingMixin': ['abortConnection'],
                     '_SocketCloser': ['_closeSocket']}}


def _views(ctx):
    v = ctx.__dict__.get("_views_d")
    if v is None:
        v = ctx.__dict__["_views_d"] = Views(ctx, KNOWN, extended=True, base_modules={POLL: [PB], EPOLL: [PB], SEL: [PB], AIO: [PB]})
    return v


def _F(ctx, rel, qual):
    return _views(ctx).f(rel, qual)


def _M(ctx, rel, cls_name):
    return _views(ctx).methods(rel, cls_name)


# (module, qualified function, dotted prefix for constructs, minimum handler breadth)
DISPATCH = [
    (SEL, "SelectReactor._doReadOrWrite", Q + "selectreactor.SelectReactor._doReadOrWrite", "BaseException"),
    (PB, "_PollLikeMixin._doReadOrWrite", Q + "posixbase._PollLikeMixin._doReadOrWrite", "BaseException"),
    (AIO, "AsyncioSelectorReactor._readOrWrite", Q + "asyncioreactor.AsyncioSelectorReactor._readOrWrite", "Exception"),
]


def _dispatch_aliases(f):
    out = set()
    for st in walk_local(f):
        if isinstance(st, ast.Assign) and len(st.targets) == 1 and isinstance(st.targets[0], ast.Name) and not isinstance(st.value, ast.Call):
            if any(isinstance(x, ast.Attribute) and x.attr in ("doRead", "doWrite") for x in ast.walk(st.value)):
                out.add(st.targets[0].id)
    return out


def _is_dispatch(call, aliases):
    if not isinstance(call, ast.Call):
        return None
    fn = call.func
    if isinstance(fn, ast.Attribute) and fn.attr in ("doRead", "doWrite"):
        return fn.attr
    if isinstance(fn, ast.Call) and call_name(fn) == "getattr" and len(fn.args) >= 2:
        return "getattr"
    if isinstance(fn, ast.Name) and fn.id in aliases:
        return "alias"
    return None


def _check_dispatch(ctx, rel, qual, q, minimum):
    f = _F(ctx, rel, qual)
    g = ctx.cfg(f)
    aliases = _dispatch_aliases(f)
    sites = []
    for n in g.find(lambda x: _is_dispatch(x, aliases) is not None):
        st = g.node(n).ast
        call = next(x for x in walk_local(st) if _is_dispatch(x, aliases))
        var = st.targets[0].id if isinstance(st, ast.Assign) and len(st.targets) == 1 and isinstance(st.targets[0], ast.Name) and st.value is call else None
        sites.append((n, call, var))
    ctx.need(sites, f"doRead/doWrite dispatch call in {qual}")
    disc = call_nodes(g, "self._disconnectSelectable")
    ctx.check(bool(disc), "dispatch/disconnects", q, "the dispatch function never calls _disconnectSelectable: a lost connection is never reported")
    vars_ = {v for _, _, v in sites if v}
    for n, call, var in sites:
        c = ctx.construct(q, call)
        ctx.check(var is not None, "dispatch/result-kept", c, "the result of doRead/doWrite (the reason the connection was lost) is discarded")
        hs = [h for h in succ_of(g, n, "exc") if g.node(h).kind == "handler"]
        ok = any(covers(g.node(h).ast, minimum) for h in hs)
        ctx.check(ok, "dispatch/handler-breadth", c,
                  f"doRead/doWrite is not protected by a handler catching at least {minimum}: an exception from protocol code "
                  "escapes the reactor iteration and the connection is never torn down (connectionLost not called)")
        if not var:
            continue
        # the handler stores the exception in the result variable
        for h in hs:
            hnode = g.node(h).ast
            if not covers(hnode, "Exception"):
                continue
            caps = [x.id for x in g.nodes if x.kind == "stmt" and g.reachable(x.id) and isinstance(x.ast, ast.Assign)
                    and any(isinstance(t, ast.Name) and t.id == var for t in x.ast.targets)
                    and (src(x.ast.value) == "sys.exc_info()[1]" or (hnode.name and src(x.ast.value) == hnode.name))
                    and any(x.ast is s for s in ast.walk(hnode))]
            w = g.must_pass([h], caps)
            hc = ctx.construct(q, f"except {', '.join(handler_names(hnode))}: (for {src(call)})")
            ctx.check(bool(caps) and w is None, "dispatch/exception-captured", hc,
                      "an exception raised by doRead/doWrite is swallowed without becoming the disconnect reason "
                      "(the selectable stays registered and is never told connectionLost)", witness=g.describe(w))
            for cp in caps:
                w = must_pass_under(g, {var: NONNULL}, disc, srcs=succ_of(g, cp, None))
                ctx.check(w is None, "dispatch/failure-disconnects", hc + " | to disconnect",
                          "after an exception from doRead/doWrite some path leaves the dispatch function without calling "
                          "_disconnectSelectable", witness=g.describe(w))
        w = must_pass_under(g, {var: NONNULL}, disc, srcs=succ_of(g, n, None))
        ctx.check(w is None, "dispatch/failure-disconnects", c,
                  "doRead/doWrite returned a reason (truthy) but some path leaves the dispatch function without calling "
                  "_disconnectSelectable: the loss is not reported", witness=g.describe(w))
        others = [m for m, _, _ in sites if m != n]
        R = reach_under(g, {var: None}, srcs=succ_of(g, n, None), avoid=others)
        bad = R & set(disc)
        ctx.check(not bad, "dispatch/no-disconnect-on-success", c,
                  "_disconnectSelectable is reachable although doRead/doWrite returned None (and nothing else was dispatched)",
                  witness=g.describe(path_under(g, {var: None}, bad, srcs=succ_of(g, n, None), avoid=others)) if bad else "")
    # a later dispatch must not overwrite an earlier loss result
    for n, call, var in sites:
        if not var:
            continue
        earlier = [m for m, _, v in sites if m != n and v == var and g.path([m], [n], strict=True, edge_ok=lambda a, b, l: l != "exc")]
        if earlier:
            ctx.check(implied(g, n, [{var: None}], [{var: NONNULL}]), "dispatch/loss-not-overwritten", ctx.construct(q, call),
                      f"a second dispatch assigns {var} although the first one may already have returned a loss reason: the reason is "
                      "overwritten by None and the connection is never disconnected")
    # disconnect arguments and once-ness
    for n, call in calls_with(g, "self._disconnectSelectable"):
        c = ctx.construct(q, call)
        ok = len(call.args) == 3 and (src(call.args[1]) in vars_ or src(call.args[1]).startswith("_NO_FILEDESC") or "NO_FILEDESC" in src(call.args[1]))
        ctx.check(ok, "dispatch/disconnect-reason", c, "_disconnectSelectable is not given the result of doRead/doWrite as the reason")
        w = g.path([n], disc, strict=True, edge_ok=lambda a, b, l: l != "exc")
        ctx.check(w is None, "dispatch/disconnect-once", c,
                  "after _disconnectSelectable the function can go on to dispatch / disconnect again: connectionLost may be delivered twice",
                  witness=g.describe(w))
        w2 = g.path([n], [m for m, _, _ in sites], strict=True, edge_ok=lambda a, b, l: l != "exc")
        ctx.check(w2 is None, "dispatch/no-io-after-disconnect", c,
                  "doRead/doWrite can still be called after the selectable was disconnected in the same dispatch", witness=g.describe(w2))
    return f, g, sites, disc, vars_


_ERRNO_CLASS = {   # errno -> the exception classes an OSError with that errno is an instance of (PEP 3151), most specific first
    11: ["BlockingIOError", "OSError", "IOError", "EnvironmentError", "error", "Exception", "BaseException"],       # EAGAIN / EWOULDBLOCK
    105: ["OSError", "IOError", "EnvironmentError", "error", "Exception", "BaseException"],                          # ENOBUFS
    32: ["BrokenPipeError", "ConnectionError", "OSError", "IOError", "EnvironmentError", "error", "Exception", "BaseException"],   # EPIPE
}


_LOST = None


def _ends(g, facts, srcs):
    """what the function returns on every way out of the OSError handler under the errno facts: [(node, value)], value = the abstract LOST object for
    main.CONNECTION_LOST, a constant, or NotConst when not determined"""
    global _LOST
    from sa.props._lib_d import abstract_instance, returns_under
    if _LOST is None:
        _LOST = abstract_instance("<main.CONNECTION_LOST>", {"ConnectionLost"})
    f2 = dict(facts)
    f2.update({"main.CONNECTION_LOST": _LOST, "CONNECTION_LOST": _LOST})
    return returns_under(g, f2, srcs=srcs)


def _errno_cases(g, call_node):
    """The exception handlers attached to ``call_node``.  Returns (all handler ids, hs(errno), facts(errno)): ``hs(errno)`` is the handler that
    catches an OSError carrying that errno - the first one, in source order, whose type covers the exception's class (a handler may select by
    class, ``except BlockingIOError``, as well as by testing the errno) - and ``facts(errno)`` describes the caught object for its tests."""
    allh = sorted((h for h in succ_of(g, call_node, "exc") if g.node(h).kind == "handler"), key=lambda h: g.node(h).ast.lineno)

    def hs(code):
        for h in allh:
            if g.node(h).ast.type is None or set(handler_names(g.node(h).ast)) & set(_ERRNO_CLASS[code]):
                return [h]
        return []

    def facts(code):
        out = {"EWOULDBLOCK": 11, "ENOBUFS": 105, "EINTR": 4, "EAGAIN": 11, "EPIPE": 32}
        for h in allh:
            nm = g.node(h).ast.name
            if nm:
                out[f"{nm}.args[0]"] = code
                out[f"{nm}.errno"] = code
        return out
    return allh, hs, facts


def check(ctx):
    from sa.props._lib_d import Guarded
    _check(Guarded(ctx, RULE_KINDS))


def _check(ctx):
    # ---- (1) K14: the dispatch function of each reactor -------------------------------------------------------------
    per = {}
    for rel, qual, q, minimum in DISPATCH:
        with ctx.section("dispatch " + qual):
            per[qual] = _check_dispatch(ctx, rel, qual, q, minimum)
    with ctx.section("dispatch floor"):
        ctx.need(len(per) == len(DISPATCH), "all reactor dispatch functions readable")
        ctx.floor("dispatch", sum(len(v[2]) for v in per.values()), 4)

    with ctx.section("poll-like dispatch specifics"):
        ctx.need("_PollLikeMixin._doReadOrWrite" in per, "dispatch function _PollLikeMixin._doReadOrWrite readable")
        # poll-like specifics
        f, g, sites, disc, vars_ = per["_PollLikeMixin._doReadOrWrite"]
        q = DISPATCH[1][2]
        var = next(iter(vars_)) if vars_ else "why"
        decl = [n.id for n in g.nodes if n.kind == "stmt" and g.reachable(n.id) and isinstance(n.ast, ast.Assign)
                and any(isinstance(t, ast.Name) and t.id == var for t in n.ast.targets)
                and src(n.ast.value) in ("CONNECTION_DONE", "CONNECTION_LOST", "main.CONNECTION_DONE", "main.CONNECTION_LOST")]
        ctx.floor("polllike/hangup", len(decl), 1)
        for d in decl:
            c = ctx.construct(q, g.node(d).ast)
            ctx.check(implied(g, d, [{"event & self._POLL_IN": 0}], [{"event & self._POLL_IN": 1}]), "polllike/hangup-after-input", c,
                      "a hang-up event is turned into a disconnect although input is still pending (POLL_IN set): the last bytes the peer "
                      "wrote are dropped")
            ctx.check(implied(g, d, [{"event & self._POLL_DISCONNECTED": 16}], [{"event & self._POLL_DISCONNECTED": 0}]), "polllike/hangup-only-on-event", c,
                      "the connection is declared lost without a hang-up/error event")
            if "DONE" in src(g.node(d).ast.value):
                ctx.check(implied(g, d, [{"fd in self._reads": True}], [{"fd in self._reads": False}]), "polllike/clean-close-only-if-reading", c,
                          "a hang-up on a descriptor that was not being read is reported as a clean ConnectionDone")
        # direction flag: after doRead -> True, after doWrite -> False
        flag_sets = {True: [], False: []}
        flag_var = None
        for n, call in calls_with(g, "self._disconnectSelectable"):
            if len(call.args) == 3 and isinstance(call.args[2], ast.Name):
                flag_var = call.args[2].id
        if flag_var:
            for x in g.nodes:
                if x.kind == "stmt" and g.reachable(x.id) and isinstance(x.ast, ast.Assign) and any(isinstance(t, ast.Name) and t.id == flag_var for t in x.ast.targets):
                    if const_value_is(x.ast.value, lambda v: v is True):
                        flag_sets[True].append(x.id)
                    elif const_value_is(x.ast.value, lambda v: v is False):
                        flag_sets[False].append(x.id)
            for n, call, v in sites:
                kind = _is_dispatch(call, set())
                if kind not in ("doRead", "doWrite"):
                    continue
                want = kind == "doRead"
                # from the dispatch (normal return) every path to a disconnect passes the matching flag write and no opposite one after it
                w = g.must_pass([n], flag_sets[want], to=disc)
                ctx.check(w is None, "polllike/direction-flag", ctx.construct(q, call),
                          f"after {kind}() the isRead flag handed to _disconnectSelectable is not set to {want}: a write-side "
                          "CONNECTION_DONE is treated as a read half-close (or the reverse) and the connection is not closed",
                          witness=g.describe(w))
        else:
            ctx.violation("polllike/direction-flag", q, "_disconnectSelectable is not given a read/write direction variable")

    with ctx.section("select dispatch direction"):
        ctx.need("SelectReactor._doReadOrWrite" in per, "dispatch function SelectReactor._doReadOrWrite readable")
        # select: direction argument
        f, g, sites, disc, vars_ = per["SelectReactor._doReadOrWrite"]
        q = DISPATCH[0][2]
        for n, call in calls_with(g, "self._disconnectSelectable"):
            a2 = local_def(f, call.args[2]) if len(call.args) == 3 else None
            ok = a2 is not None and test_value(a2, {"method": "doRead"}) is True and test_value(a2, {"method": "doWrite"}) is False
            ctx.check(ok, "select/direction", ctx.construct(q, call), "isRead is not 'method == \"doRead\"'")
    with ctx.section("asyncio dispatch specifics"):
        ctx.need("AsyncioSelectorReactor._readOrWrite" in per, "dispatch function AsyncioSelectorReactor._readOrWrite readable")
        # asyncio: direction argument is the `read` parameter and the method alias follows it
        f, g, sites, disc, vars_ = per["AsyncioSelectorReactor._readOrWrite"]
        q = DISPATCH[2][2]
        rparam = f.args.args[2].arg if len(f.args.args) >= 3 else "read"
        for n, call in calls_with(g, "self._disconnectSelectable"):
            ctx.check(len(call.args) == 3 and src(call.args[2]) == rparam, "asyncio/direction", ctx.construct(q, call),
                      "isRead is not the 'read' argument of _readOrWrite")
        for st in walk_local(f):
            if isinstance(st, ast.Assign) and isinstance(st.value, ast.IfExp) and any(isinstance(x, ast.Attribute) and x.attr == "doRead" for x in ast.walk(st.value)):
                v = st.value
                tv = {True: None, False: None}
                for val in (True, False):
                    try:
                        chosen = v.body if peval(v.test, {rparam: val}) else v.orelse
                        tv[val] = chosen.attr if isinstance(chosen, ast.Attribute) else None
                    except Exception:  # noqa: BLE001
                        pass
                ctx.check(tv[True] == "doRead" and tv[False] == "doWrite", "asyncio/method-follows-direction",
                          ctx.construct(q, st), "read=True does not select doRead / read=False does not select doWrite")
        nofd = [n for n, call in calls_with(g, "self._disconnectSelectable") if "NO_FILEDESC" in src(call.args[1] if len(call.args) > 1 else call)]
        for n in nofd:
            ctx.check(implied(g, n, [{"selectable.fileno()": -1}], [{"selectable.fileno()": 7}]), "asyncio/nofd-guard", ctx.construct(q, g.node(n).ast),
                      "a selectable with a valid file descriptor is disconnected with _NO_FILEDESC")

    with ctx.section("doSelect loop"):
        # ---- (2) the iteration loops ---------------------------------------------------------------------------------------------
        f = _F(ctx, SEL, "SelectReactor.doSelect")
        g = ctx.cfg(f)
        q = Q + "selectreactor.SelectReactor.doSelect"
        drdw = {st.targets[0].id for st in walk_local(f) if isinstance(st, ast.Assign) and len(st.targets) == 1 and isinstance(st.targets[0], ast.Name)
                and src(st.value) == "self._doReadOrWrite"} | {"self._doReadOrWrite"}
        fires = g.find(lambda x: isinstance(x, ast.Call) and any(src(a) in drdw for a in x.args) or (isinstance(x, ast.Call) and src(x.func) in drdw))
        ctx.need(fires, "dispatch through _doReadOrWrite in doSelect")
        # every dispatch is a triple (ready list, method, registration set): from a table-driven loop or written out; the selectable must
        # still be a member of that set when it is dispatched
        sel_assign = [st for st in walk_local(f) if isinstance(st, ast.Assign) and isinstance(st.value, ast.Call) and call_name(st.value) == "_select"]
        ctx.need(sel_assign, "r, w, ignored = _select(...) in doSelect")
        st0 = sel_assign[0]
        names = [e.id if isinstance(e, ast.Name) else None for e in st0.targets[0].elts] if isinstance(st0.targets[0], ast.Tuple) else []
        sargs = [src(resolve_locals(f, a)) for a in st0.value.args]
        rows = {}
        for loop in (x for x in walk_local(f) if isinstance(x, ast.For) and isinstance(x.iter, ast.Tuple) and isinstance(x.target, ast.Tuple)):
            tn = [src(e) for e in loop.target.elts]
            for row in loop.iter.elts:
                if isinstance(row, ast.Tuple) and len(row.elts) == len(tn):
                    rows.setdefault(id(loop), []).append(dict(zip(tn, [src(resolve_locals(f, e)) for e in row.elts])))

        def binding_sets(call_node):
            """the possible {local name: expression text} environments in which this dispatch runs (one per table row, or one empty)"""
            p_ = getattr(call_node, "_parent", None)
            while p_ is not None and p_ is not f:
                if id(p_) in rows:
                    return rows[id(p_)]
                p_ = getattr(p_, "_parent", None)
            return [{}]

        triples = []
        for n in fires:
            node = g.node(n).ast
            call = next(x for x in walk_local(node) if isinstance(x, ast.Call) and (any(src(a) in drdw for a in x.args) or src(x.func) in drdw))
            args = [a for a in call.args if src(a) not in drdw]
            sel_var = src(args[0]) if args else "selectable"
            meth_arg = args[-1] if args else None
            # membership guards dominating the dispatch
            member_of = []
            for t, lab in g.edge_guards(n):
                e = resolve_locals(f, g.node(t).ast)
                if isinstance(e, ast.Compare) and len(e.ops) == 1 and isinstance(e.ops[0], (ast.In, ast.NotIn)) and src(e.left) == sel_var:
                    if (isinstance(e.ops[0], ast.In)) == (lab == "T"):
                        member_of.append(src(e.comparators[0]))
            c = ctx.construct(q, node)
            ctx.check(bool(member_of), "loop/still-registered", c,
                      "a ready selectable is dispatched without re-checking that it is still registered: a connection disconnected by an "
                      "earlier handler in the same iteration gets doRead/doWrite (and a second loss report) after connectionLost")
            # the for loop that produces the selectable
            loopn = getattr(call, "_parent", None)
            while loopn is not None and not (isinstance(loopn, ast.For) and src(loopn.target) == sel_var):
                loopn = getattr(loopn, "_parent", None)
            for env in binding_sets(call):
                sub = lambda txt: env.get(txt, txt)      # noqa: E731
                triples.append((sub(src(loopn.iter)) if loopn is not None else "?", sub(src(meth_arg)) if meth_arg is not None else "?",
                                sorted({sub(m) for m in member_of}), c))
        want = []
        for pos, (meth, fdset) in enumerate((("'doRead'", "self._reads"), ("'doWrite'", "self._writes"))):
            if pos < len(names) and names[pos] and pos < len(sargs) and sargs[pos] == fdset:
                want.append((names[pos], meth, [fdset]))
        ctx.check(len(want) == 2, "loop/select-rows", q + " | <select() call>", "select() is not given (self._reads, self._writes) with the ready lists bound in that order")
        got = sorted((a_, b_, c_) for a_, b_, c_, _ in triples)
        ctx.check(got == sorted(want), "loop/select-rows", q + " | <dispatch table>",
                  f"the dispatches are {got}; required: readable descriptors get 'doRead' and are looked up in self._reads, writable ones get "
                  "'doWrite' and self._writes (ready list, method name and registration set must belong together)")

    with ctx.section("doPoll loops"):
        # ---- doPoll loops
        for rel, cls, modq in ((POLL, "PollReactor", "pollreactor"), (EPOLL, "EPollReactor", "epollreactor")):
            f = _F(ctx, rel, f"{cls}.doPoll")
            g = ctx.cfg(f)
            q = f"{Q}{modq}.{cls}.doPoll"
            drdw = {st.targets[0].id for st in walk_local(f) if isinstance(st, ast.Assign) and len(st.targets) == 1 and isinstance(st.targets[0], ast.Name)
                    and src(st.value) == "self._doReadOrWrite"} | {"self._doReadOrWrite"}
            fires = g.find(lambda x: isinstance(x, ast.Call) and (any(src(a) in drdw for a in x.args) or src(x.func) in drdw))
            ctx.need(fires, f"dispatch through _doReadOrWrite in {cls}.doPoll")
            look = [n.id for n in g.nodes if n.kind == "stmt" and g.reachable(n.id) and isinstance(n.ast, ast.Assign)
                    and src(resolve_locals(f, n.ast.value)) in ("self._selectables[fd]", "self._selectables.get(fd)", "self._selectables.get(fd, None)")]
            for n in fires:
                c = ctx.construct(q, g.node(n).ast)
                w = g.must_precede(look, [n])
                ctx.check(bool(look) and w is None, "loop/still-registered", c,
                          "an event is dispatched without looking the descriptor up in self._selectables in this iteration "
                          "(a connection removed by an earlier handler would get doRead/doWrite after connectionLost)", witness=g.describe(w))
                for l in look:
                    if ".get(" in src(g.node(l).ast.value):
                        # lookup that answers None for a descriptor that is gone: the dispatch must be reached only with something found
                        var = src(g.node(l).ast.targets[0])
                        ctx.check(implied(g, n, [{var: NONNULL}], [{var: None}], after=[l]), "loop/unregistered-skipped", ctx.construct(q, g.node(l).ast),
                                  "an event for a descriptor that is no longer registered is not skipped (None is dispatched)")
                        continue
                    hs = [h for h in succ_of(g, l, "exc") if g.node(h).kind == "handler" and "KeyError" in handler_names(g.node(h).ast)]
                    bad = [h for h in hs if g.path([h], [n], avoid=look, edge_ok=lambda a, b, lab: lab != "exc")]
                    guarded = any(src(resolve_locals(f, g.node(t).ast)) in ("fd in self._selectables", "fd not in self._selectables")
                                  and (("not in" in src(resolve_locals(f, g.node(t).ast))) != (lab == "T")) for t, lab in g.edge_guards(l))
                    ctx.check((bool(hs) and not bad) or guarded, "loop/unregistered-skipped", ctx.construct(q, g.node(l).ast),
                              "an event for a descriptor that is no longer registered is not skipped (KeyError escapes the iteration or "
                              "the stale selectable of the previous event is dispatched again)")

    with ctx.section("event masks"):
        # event masks follow the read / write sets
        f = _F(ctx, POLL, "PollReactor._updateRegistration")
        g = ctx.cfg(f)
        q = Q + "pollreactor.PollReactor._updateRegistration"
        nmask = 0
        for n in g.nodes:
            if n.kind == "stmt" and g.reachable(n.id) and isinstance(n.ast, (ast.Assign, ast.AugAssign)) and isinstance(n.ast.value, (ast.BinOp, ast.Name)):
                txt = src(n.ast.value)
                for flag, owner in (("POLLIN", "self._reads"), ("POLLOUT", "self._writes")):
                    if flag in txt.replace("POLLIN", "POLLIN ").split() or txt.endswith(flag):
                        nmask += 1
                        ctx.check(implied(g, n.id, [{f"fd in {owner}": True}], [{f"fd in {owner}": False}]), "masks/poll", ctx.construct(q, n.ast),
                                  f"{flag} is requested without the descriptor being in {owner} (or the sets are crossed): readers are not "
                                  "woken for input / writers not for output")
        ctx.floor("masks/poll", nmask, 2)
        for rel, cls, modq, table in (
                (POLL, "PollReactor", "pollreactor", {"_POLL_IN": {"POLLIN"}, "_POLL_OUT": {"POLLOUT"}, "_POLL_DISCONNECTED": {"POLLHUP", "POLLERR"}}),
                (EPOLL, "EPollReactor", "epollreactor", {"_POLL_IN": {"EPOLLIN"}, "_POLL_OUT": {"EPOLLOUT"}, "_POLL_DISCONNECTED": {"EPOLLHUP", "EPOLLERR"}})):
            ca = class_assigns(ctx.cls(rel, cls))
            for attr, want in table.items():
                have = {x.id for x in ast.walk(ca[attr]) if isinstance(x, ast.Name)} if attr in ca else set()
                exact = attr != "_POLL_DISCONNECTED"
                ok = (have == want) if exact else (want <= have and not (have & {"POLLIN", "POLLOUT", "EPOLLIN", "EPOLLOUT"}))
                ctx.check(ok, "masks/class-constants", f"{Q}{modq}.{cls}.{attr}",
                          f"{attr} is {sorted(have)}; the poll-like dispatch needs {sorted(want)}")
        ec = ctx.cls(EPOLL, "EPollReactor")
        want_args = {"addReader": ("_add", ["self._reads", "self._writes", "self._selectables", "EPOLLIN", "EPOLLOUT"]),
                     "removeReader": ("_remove", ["self._reads", "self._writes", "self._selectables", "EPOLLIN", "EPOLLOUT"]),
                     "addWriter": ("_add", ["self._writes", "self._reads", "self._selectables", "EPOLLOUT", "EPOLLIN"]),
                     "removeWriter": ("_remove", ["self._writes", "self._reads", "self._selectables", "EPOLLOUT", "EPOLLIN"])}
        for name, (helper, want) in want_args.items():
            m = _F(ctx, EPOLL, f"EPollReactor.{name}")
            calls = [x for x in walk_local(m) if isinstance(x, ast.Call) and call_name(x) == f"self.{helper}"]
            ctx.check(len(calls) == 1 and [src(a) for a in calls[0].args[1:]] == want, "masks/epoll-arguments", f"{Q}epollreactor.EPollReactor.{name}",
                      f"{name} does not call {helper}(x, {', '.join(want)}): primary/other set or event/anti-event are crossed")

    with ctx.section("_disconnectSelectable"):
        # ---- (3) _disconnectSelectable ----------------------------------------------------------------------------------------------
        f = _F(ctx, PB, "_DisconnectSelectableMixin._disconnectSelectable")
        g = ctx.cfg(f)
        q = Q + "posixbase._DisconnectSelectableMixin._disconnectSelectable"
        sel = f.args.args[1].arg
        why, isread = f.args.args[2].arg, f.args.args[3].arg
        full = calls_with(g, f"{sel}.connectionLost")
        halfc = calls_with(g, f"{sel}.readConnectionLost")
        rr = call_nodes(g, "self.removeReader")
        rw = call_nodes(g, "self.removeWriter")
        ctx.check(bool(full), "disconnect/reports", q, "_disconnectSelectable never calls selectable.connectionLost")
        allc = [n for n, _ in full + halfc]
        w = g.must_pass([g.entry], allc)
        ctx.check(w is None, "disconnect/reports", q + " | every path", "some path through _disconnectSelectable reports nothing to the selectable",
                  witness=g.describe(w))
        for n, call in full + halfc:
            c = ctx.construct(q, call)
            w = g.must_precede(rr, [n])
            ctx.check(bool(rr) and w is None, "disconnect/reader-removed-first", c,
                      "the selectable is told about the loss while still registered for reading: data can be delivered after connectionLost",
                      witness=g.describe(w))
            w = g.path([n], allc, strict=True, edge_ok=lambda a, b, l: l != "exc")
            ctx.check(w is None, "disconnect/once", c, "two loss notifications on one path", witness=g.describe(w))
        for n, call in full:
            w = g.must_precede(rw, [n])
            ctx.check(bool(rw) and w is None, "disconnect/writer-removed-first", ctx.construct(q, call),
                      "connectionLost is delivered while the selectable is still registered for writing (doWrite after connectionLost)",
                      witness=g.describe(w))
        for n, call in halfc:
            c = ctx.construct(q, call)
            # a half-close ends the READ side only: the selectable stays registered for writing, what it still has buffered must go out
            w = next((p_ for r in rw for p_ in [g.path([r], [n], strict=True, edge_ok=lambda a_, b_, l: l != "exc")] if p_ is not None), None)
            ctx.check(w is None, "disconnect/half-close-keeps-writer", c,
                      "the selectable is removed from the writers on the path that reports only readConnectionLost: the write side of a half-closed "
                      "connection is never serviced again (buffered data is not sent, the connection does not finish closing)", witness=g.describe(w))
            ctx.check(implied(g, n, [{isread: True}], [{isread: False}]), "disconnect/half-close-only-read-side", c,
                      "a write-side loss is reported as readConnectionLost: the connection is never closed")
            ok = any(lab == "T" and "ConnectionDone" in src(g.node(t).ast) and f"{why}.__class__" in src(g.node(t).ast) for t, lab in g.edge_guards(n))
            ctx.check(ok, "disconnect/half-close-only-clean", c, "an error on the read side is treated as a half-close instead of a full connectionLost")
        # the reason handed over
        fvar = None
        for st in walk_local(f):
            if isinstance(st, ast.Assign) and isinstance(st.value, ast.Call) and src(st.value) == f"faildict.get({why}.__class__)" and isinstance(st.targets[0], ast.Name):
                fvar = st.targets[0].id
        ctx.need(fvar, "f = faildict.get(why.__class__)")
        # evaluated along the paths, not matched: with an entry in faildict every notification gets that entry, without one a fresh Failure(why)
        from sa.astx import NotConst
        from sa.props._lib_d import abstract_instance, facts_at
        canned = abstract_instance("<the faildict entry>", {"Failure"})
        fresh = abstract_instance("<Failure(why)>", {"Failure"})
        fdef = [x.id for x in g.nodes if x.kind == "stmt" and isinstance(x.ast, ast.Assign) and src(x.ast.value) == f"faildict.get({why}.__class__)"]
        after_f = [s_ for d in fdef for s_ in succ_of(g, d, None)]
        for n, call in full + halfc:
            c = ctx.construct(q, call)
            arg = call.args[0] if call.args else None
            verdicts = []
            for fval, want, msg in ((canned, canned, "faildict has an entry for the class of why but the notification is not given that entry"),
                                    (None, fresh, "the canned failure is used although faildict had no entry (None is passed as reason)")):
                base = {fvar: fval, f"failure.Failure({why})": fresh, f"Failure({why})": fresh}
                for fa in facts_at(g, base, [n], srcs=after_f):
                    try:
                        v = peval(arg, fa) if arg is not None else None
                    except NotConst:
                        v = NotConst
                    verdicts.append((v is want, v, msg))
            if any(v is NotConst for _, v, _ in verdicts):
                a = src(arg) if arg is not None else ""
                if a == fvar:
                    ctx.check(implied(g, n, [{fvar: NONNULL}], [{fvar: None}]), "disconnect/reason", c,
                              "the canned failure is used although faildict had no entry (None is passed as reason)")
                elif a in (f"failure.Failure({why})", f"Failure({why})"):
                    ctx.ok("disconnect/reason", c)
                else:
                    ctx.note(f"disconnect/reason: the reason expression {a!r} could not be evaluated; not decided for {c}")
            else:
                bad = [m for ok_, _, m in verdicts if not ok_]
                ctx.check(not bad, "disconnect/reason", c, bad[0] if bad else "", detail="evaluated for faildict hit / miss")
        dflt = None
        pos = [a.arg for a in f.args.args]
        if "faildict" in pos:
            i = pos.index("faildict") - (len(pos) - len(f.args.defaults))
            dflt = f.args.defaults[i] if 0 <= i < len(f.args.defaults) else None
        ctx.need(isinstance(dflt, ast.Dict), "faildict default")
        keys = set()
        for k, v in zip(dflt.keys, dflt.values):
            keys.add(src(k).split(".")[-1])
            ctx.check(src(v) in (f"failure.Failure({src(k)}())", f"Failure({src(k)}())"), "disconnect/faildict-row", ctx.construct(q, f"faildict[{src(k)}]"),
                      "a faildict row maps an exception class to the failure of a different class (an orderly close would be reported as lost)")
        ctx.check({"ConnectionDone", "ConnectionLost"} <= keys, "disconnect/faildict-row", q + " | keys",
                  "faildict lacks ConnectionDone / ConnectionLost: the half-close branch and the clean-close reason can never be selected")

    with ctx.section("tcp Connection.connectionLost"):
        # ---- (4) tcp.Connection -------------------------------------------------------------------------------------------------------
        f = _F(ctx, TCP, "Connection.connectionLost")
        g = ctx.cfg(f)
        q = Q + "tcp.Connection.connectionLost"
        rparam = f.args.args[1].arg
        guard_good, guard_bad = [{"hasattr(self, 'socket')": True}], [{"hasattr(self, 'socket')": False}]
        outs = [(n, c) for n, c in calls_with(g, ".connectionLost") if not src(c.func).startswith(("abstract.", "FileDescriptor.", "super()"))]
        base = [(n, c) for n, c in calls_with(g, ".connectionLost") if src(c.func).startswith(("abstract.", "FileDescriptor.", "super()"))]
        ctx.check(len(outs) == 1, "tcp-lost/single-callout", q, f"{len(outs)} protocol.connectionLost call-outs in Connection.connectionLost (exactly one required)")
        closes = call_nodes(g, "self._closeSocket")
        dels = [n.id for n in g.nodes if n.kind == "stmt" and g.reachable(n.id) and isinstance(n.ast, ast.Delete)
                and any(src(t) == "self.socket" for t in n.ast.targets)]
        for n, call in outs:
            c = ctx.construct(q, call)
            ctx.check(implied(g, n, guard_good, guard_bad), "tcp-lost/once-guard", c,
                      "protocol.connectionLost is reachable when the socket attribute is already gone: a second connectionLost "
                      "(abortConnection + exception in dataReceived) is delivered to the protocol twice")
            w = g.must_precede(dels, [n])
            ctx.check(bool(dels) and w is None, "tcp-lost/guard-cleared-before-callout", c,
                      "self.socket (the once-guard) is not deleted before the protocol.connectionLost call-out: a re-entrant "
                      "connectionLost from the protocol passes the guard again", witness=g.describe(w))
            ctx.check(len(call.args) == 1 and src(call.args[0]) == rparam, "tcp-lost/reason-forwarded", c,
                      "the protocol is not given the reason the transport was given")
            recv = src(call.func.value) if isinstance(call.func, ast.Attribute) else ""
            if recv != "self.protocol":
                defs = [x.id for x in g.nodes if x.kind == "stmt" and isinstance(x.ast, ast.Assign) and src(x.ast.value) == "self.protocol"
                        and any(isinstance(t, ast.Name) and t.id == recv for t in x.ast.targets)]
                delp = [x.id for x in g.nodes if x.kind == "stmt" and isinstance(x.ast, ast.Delete) and any(src(t) == "self.protocol" for t in x.ast.targets)]
                ctx.check(bool(defs) and g.must_precede(defs, [n]) is None and all(g.must_precede(defs, [d]) is None for d in delp),
                          "tcp-lost/protocol-captured", c, "the protocol reference is not captured before self.protocol is deleted")
            for what, ns, msg in (("base-first", [b for b, _ in base], "FileDescriptor.connectionLost (stop reading/writing, stop the producer) does not run before the protocol is told: data may be delivered after connectionLost"),
                                  ("socket-closed-first", closes, "the socket is not closed before the protocol is told about the loss")):
                w = g.must_precede(ns, [n])
                ctx.check(bool(ns) and w is None, "tcp-lost/" + what, c, msg, witness=g.describe(w))
            w = must_pass_under(g, {"hasattr(self, 'socket')": True}, [n])
            ctx.check(w is None, "tcp-lost/always-reported", c, "with the socket present some path does not reach protocol.connectionLost", witness=g.describe(w))
        for n in closes + [b for b, _ in base] + dels:
            ctx.check(implied(g, n, guard_good, guard_bad), "tcp-lost/once-guard", ctx.construct(q, g.node(n).ast),
                      "tear-down work is done again on a connection whose socket is already gone")
        for n, call in calls_with(g, "self._closeSocket"):
            a0 = resolve_locals(f, call.args[0]) if len(call.args) == 1 else None
            key = f"{rparam}.check(error.ConnectionAborted)"
            ok = a0 is not None and test_value(a0, {key: None}) is True and test_value(a0, {key: NONNULL}) is False
            ctx.check(ok, "tcp-lost/orderly-unless-aborted", ctx.construct(q, call),
                      "_closeSocket is not told 'orderly unless the reason is ConnectionAborted': an orderly close would reset the connection "
                      "(peer loses data) or an abort would linger")

    with ctx.section("tcp Connection._dataReceived"):
        # ---- tcp Connection._dataReceived
        f = _F(ctx, TCP, "Connection._dataReceived")
        g = ctx.cfg(f)
        q = Q + "tcp.Connection._dataReceived"
        dparam = f.args.args[1].arg
        deliver = call_nodes(g, "self.protocol.dataReceived")
        done_ret = [n.id for n in g.nodes if n.kind == "stmt" and isinstance(n.ast, ast.Return) and n.ast.value is not None
                    and src(n.ast.value) in ("main.CONNECTION_DONE", "CONNECTION_DONE")]
        w = must_pass_under(g, {dparam: b""}, done_ret)
        ctx.check(bool(done_ret) and w is None, "tcp-read/eof-is-connection-done", q + " | <empty read>",
                  "an empty read (orderly shutdown by the peer) does not make doRead return CONNECTION_DONE: the close is reported as "
                  "something else or not at all", witness=g.describe(w))
        R = reach_under(g, {dparam: b""})
        ctx.check(not (R & set(deliver)), "tcp-read/eof-not-delivered", q + " | <empty read>", "an empty read is delivered to the protocol as data")
        w = must_pass_under(g, {dparam: b"x"}, deliver)
        ctx.check(bool(deliver) and w is None, "tcp-read/data-delivered", q + " | <non-empty read>", "received bytes are not handed to protocol.dataReceived",
                  witness=g.describe(w))
        for n, call in calls_with(g, "self.protocol.dataReceived"):
            ctx.check(len(call.args) == 1 and src(call.args[0]) == dparam, "tcp-read/data-delivered", ctx.construct(q, call),
                      "protocol.dataReceived is not given exactly the bytes read")
        R = reach_under(g, {dparam: b"x"})
        ctx.check(not (R & set(done_ret)), "tcp-read/eof-is-connection-done", q + " | <non-empty read>", "CONNECTION_DONE is returned for a non-empty read")

    with ctx.section("tcp Connection.doRead"):
        # ---- tcp Connection.doRead
        f = _F(ctx, TCP, "Connection.doRead")
        g = ctx.cfg(f)
        q = Q + "tcp.Connection.doRead"
        lost = [n.id for n in g.nodes if n.kind == "stmt" and isinstance(n.ast, ast.Return) and n.ast.value is not None and "CONNECTION_LOST" in src(n.ast.value)]
        recv0 = calls_with(g, "self.socket.recv")
        ctx.need(recv0, "self.socket.recv in doRead")
        allh, hs, facts = _errno_cases(g, recv0[0][0])
        ctx.need(allh, "an exception handler around recv()")
        # evaluated on the errno, by what doRead RETURNS (a return statement may select its value with a conditional expression): with EWOULDBLOCK
        # nothing truthy is returned, with another errno (EPIPE) CONNECTION_LOST is
        from sa.astx import NotConst as _NC
        ends = _ends(g, facts(11), hs(11))
        if any(v is _NC for _, v in ends):
            ctx.note("tcp-read/wouldblock-is-not-loss: the value returned for EWOULDBLOCK could not be evaluated; not decided")
        else:
            ctx.check(bool(ends) and all(v is not _LOST and not v for _, v in ends), "tcp-read/wouldblock-is-not-loss", q + " | <EWOULDBLOCK>",
                      "EWOULDBLOCK from recv() is reported as a lost connection: doRead returns " + repr([v for _, v in ends]))
        for code, name in ((11, "EWOULDBLOCK"), (32, "EPIPE")):
            ctx.check(bool(hs(code)), "tcp-read/errno-handled", q + f" | <{name}>", f"an OSError with errno {name} raised by recv() is not caught in doRead")
        for code in (11, 32):
            und = undecided_tests(g, facts(code), srcs=hs(code))
            if und:
                ctx.note("tcp-read: the OSError handler of recv() also branches on " + src(g.node(und[0]).ast) + " (left free in the errno evaluation)")
        ends = _ends(g, facts(32), hs(32))
        if any(v is _NC for _, v in ends):
            ctx.note("tcp-read/error-is-loss: the value returned for a failing recv() could not be evaluated; not decided")
        else:
            ctx.check(bool(ends) and all(v is _LOST for _, v in ends), "tcp-read/error-is-loss", q + " | <errno other than EWOULDBLOCK>",
                      "a failing recv() is not reported as CONNECTION_LOST: doRead returns " + repr([v for _, v in ends]))
        recvs = calls_with(g, "self.socket.recv")
        ctx.need(recvs, "self.socket.recv in doRead")
        dr = call_nodes(g, "self._dataReceived")
        for n, call in recvs:
            w = g.must_pass([n], dr)
            ctx.check(bool(dr) and w is None, "tcp-read/recv-result-processed", ctx.construct(q, call), "bytes returned by recv() can be dropped without _dataReceived",
                      witness=g.describe(w))
        for n, call in calls_with(g, "self._dataReceived"):
            ctx.check(value_returned(g, n, call), "tcp-read/result-returned", ctx.construct(q, call),
                      "the result of _dataReceived (CONNECTION_DONE on EOF) is not returned to the reactor")

    with ctx.section("tcp Connection.writeSomeData"):
        # ---- tcp Connection.writeSomeData
        f = _F(ctx, TCP, "Connection.writeSomeData")
        g = ctx.cfg(f)
        q = Q + "tcp.Connection.writeSomeData"
        dparam = f.args.args[1].arg
        sends = [c for c in (x for x in walk_local(f) if isinstance(x, ast.Call)) if any(src(a) == "self.socket.send" for a in c.args) or call_name(c) == "self.socket.send"]
        ctx.need(sends, "socket.send in writeSomeData")
        for c in sends:
            payload = [a for a in c.args if src(a) != "self.socket.send"]
            ok = False
            if len(payload) == 1:
                p = payload[0]
                if isinstance(p, ast.Name) and p.id != dparam:
                    defs = [st.value for st in walk_local(f) if isinstance(st, ast.Assign) and any(isinstance(t, ast.Name) and t.id == p.id for t in st.targets)]
                    p = defs[0] if len(defs) == 1 else p
                if src(p) == dparam:
                    ok = True
                elif isinstance(p, ast.Call) and call_name(p) == "lazyByteSlice" and len(p.args) >= 2 and src(p.args[0]) == dparam and const_value_is(p.args[1], lambda v: v == 0 and v is not False):
                    ok = True
                elif isinstance(p, ast.Subscript) and isinstance(p.slice, ast.Slice) and src(p.value) == dparam and (p.slice.lower is None or const_value_is(p.slice.lower, lambda v: v == 0)):
                    ok = True
            ctx.check(ok, "tcp-write/sends-prefix", ctx.construct(q, c),
                      "the bytes handed to send() are not a prefix of the data given to writeSomeData: the returned count no longer "
                      "describes how far FileDescriptor.offset may advance (bytes skipped or duplicated)")
            outer = next((x for x in walk_local(f) if isinstance(x, ast.Call) and x is not c and any(y is c for y in ast.walk(x))), c)
            outer = c if call_name(c) != "self.socket.send" and outer is c else outer
            for n in g.ids_of(c):
                top = next((x for x in walk_local(g.node(n).ast) if isinstance(x, ast.Call)), c)
                ctx.check(value_returned(g, n, top), "tcp-write/count-returned", ctx.construct(q, c) + " | returned",
                          "the byte count accepted by send() is not returned")
        zero = [n.id for n in g.nodes if n.kind == "stmt" and isinstance(n.ast, ast.Return) and const_value_is(n.ast.value, lambda v: v == 0 and v is not False)]
        send_nodes = sorted({n for c in sends for n in g.ids_of(c)})
        allh, hs, facts = _errno_cases(g, send_nodes[0]) if send_nodes else ([], None, None)
        ctx.need(allh, "an exception handler around send()")
        lost = [n.id for n in g.nodes if n.kind == "stmt" and isinstance(n.ast, ast.Return) and n.ast.value is not None and "CONNECTION_LOST" in src(n.ast.value)]
        for code, name in ((11, "EWOULDBLOCK"), (105, "ENOBUFS"), (32, "EPIPE")):
            ctx.check(bool(hs(code)), "tcp-write/errno-handled", q + f" | <{name}>", f"an OSError with errno {name} raised by send() is not caught in writeSomeData")
        for code in (11, 105, 32):
            und = undecided_tests(g, facts(code), srcs=hs(code))
            if und:
                ctx.note("tcp-write: the OSError handler of send() also branches on " + src(g.node(und[0]).ast) + " (left free in the errno evaluation)")
        from sa.astx import NotConst as _NC
        for code, name in ((11, "EWOULDBLOCK"), (105, "ENOBUFS")):
            ends = _ends(g, facts(code), hs(code))
            tag = " | ENOBUFS" if code == 105 else ""
            if any(v is _NC for _, v in ends):
                ctx.note(f"tcp-write/wouldblock-is-not-loss, tcp-write/wouldblock-means-zero: the value returned for {name} could not be evaluated; not decided")
                continue
            ctx.check(bool(ends) and all(v is not _LOST for _, v in ends), "tcp-write/wouldblock-is-not-loss", q + f" | <{name}>" + tag,
                      f"{name} from send() is reported as a lost connection")
            ctx.check(bool(ends) and all(v is not _LOST and v == 0 and v is not False and v is not None for _, v in ends), "tcp-write/wouldblock-means-zero", q + f" | <{name}>",
                      f"{name} from send() does not make writeSomeData report 0 bytes accepted: it returns " + repr([v for _, v in ends]))
        ends = _ends(g, facts(32), hs(32))
        if any(v is _NC for _, v in ends):
            ctx.note("tcp-write/error-is-loss, tcp-write/zero-only-wouldblock: the value returned for a failing send() could not be evaluated; not decided")
        else:
            ctx.check(not any(v is not _LOST and v == 0 for _, v in ends), "tcp-write/zero-only-wouldblock", q + " | <errno other than EWOULDBLOCK/ENOBUFS>",
                      "writeSomeData reports 0 bytes for an error other than EWOULDBLOCK/ENOBUFS")
            ctx.check(bool(ends) and all(v is _LOST for _, v in ends), "tcp-write/error-is-loss", q + " | <errno other than EWOULDBLOCK/ENOBUFS>",
                      "a failing send() is not reported as CONNECTION_LOST: writeSomeData returns " + repr([v for _, v in ends]))

    with ctx.section("tcp Connection._closeWriteConnection"):
        # ---- tcp Connection._closeWriteConnection
        f = _F(ctx, TCP, "Connection._closeWriteConnection")
        q = Q + "tcp.Connection._closeWriteConnection"
        sh = [x for x in walk_local(f) if isinstance(x, ast.Call) and call_name(x) == "self.socket.shutdown"]
        ctx.check(len(sh) == 1 and len(sh[0].args) == 1 and (const_value_is(sh[0].args[0], lambda v: v == 1) or src(sh[0].args[0]).endswith("SHUT_WR")),
                  "tcp-half-close/write-side-only", q,
                  "the half-close does not shut down exactly the write side (shutdown(1)): the peer's remaining data would be cut off or nothing is shut")

    with ctx.section("tcp _closeSocket"):
        # ---- tcp _SocketCloser._closeSocket
        f = _F(ctx, TCP, "_SocketCloser._closeSocket")
        g = ctx.cfg(f)
        q = Q + "tcp._SocketCloser._closeSocket"
        cl = call_nodes(g, "skt.close", "self.socket.close")
        w = g.must_pass([g.entry], cl)
        ctx.check(bool(cl) and w is None, "tcp-close/always-closes", q, "some path through _closeSocket does not close the socket", witness=g.describe(w))
        for n in call_nodes(g, "skt.shutdown", "self.socket.shutdown"):
            ctx.check(implied(g, n, [{"orderly": True}], [{"orderly": False}]), "tcp-close/orderly-shutdown", ctx.construct(q, g.node(n).ast),
                      "shutdown() is attempted on the abortive path")
        for n in call_nodes(g, "skt.setsockopt", "self.socket.setsockopt"):
            ctx.check(implied(g, n, [{"orderly": False}], [{"orderly": True}]), "tcp-close/reset-only-on-abort", ctx.construct(q, g.node(n).ast),
                      "SO_LINGER(1,0) (connection reset) is applied to an orderly close: unsent data is discarded and the peer sees a reset "
                      "instead of the bytes written before loseConnection")

    with ctx.section("tcp abortConnection"):
        # ---- tcp _AbortingMixin.abortConnection
        f = _F(ctx, TCP, "_AbortingMixin.abortConnection")
        g = ctx.cfg(f)
        q = Q + "tcp._AbortingMixin.abortConnection"
        sched = [n for n, c in calls_with(g, "self.reactor.callLater") if any(src(a) == "self.connectionLost" for a in c.args)] + call_nodes(g, "self.connectionLost")
        ctx.check(len(sched) == 1, "abort/schedules-loss-once", q, f"abortConnection arranges connectionLost at {len(sched)} places (exactly one)")
        aset = self_assigns(g, "_aborting", lambda v: const_value_is(v, lambda x: x is True))
        # abort always terminates: the only states in which abortConnection() may return without arranging connectionLost are "already lost" and "abort
        # already pending" - in both connectionLost has been or will be delivered without the peer's help.  With those two excluded, EVERY path (both
        # outcomes of whatever else is tested: an orderly close in progress, a half-close, a producer ...) must reach the scheduling.
        live = {"self.disconnected": 0, "self._aborting": False}
        w = must_pass_under(g, live, sched)
        open_tests = [src(g.node(t).ast) for t in undecided_tests(g, live)]
        ctx.check(bool(sched) and w is None, "abort/always-terminates", q + " | <not disconnected, no abort pending>",
                  "abortConnection() can return without arranging connectionLost on a connection that is neither finished nor already aborting" +
                  (f" (it also looks at {open_tests[0]}: e.g. an orderly close waiting for a stalled peer to drain the buffer is then never cut short - "
                   "connectionLost is not delivered, the socket stays open)" if open_tests else ""), witness=g.describe(w))
        for n in sched:
            c = ctx.construct(q, g.node(n).ast)
            ctx.check(implied(g, n, [{"self._aborting": False}], [{"self._aborting": True}]), "abort/once-guard", c,
                      "a second abortConnection() schedules a second connectionLost")
            ctx.check(implied(g, n, [{"self.disconnected": 0}], [{"self.disconnected": 1}]), "abort/not-after-loss", c,
                      "abortConnection() on a disconnected transport schedules another connectionLost")
            ctx.check(bool(aset) and g.must_precede(aset, [n]) is None, "abort/once-guard", c + " | flag", "_aborting is not set before connectionLost is scheduled")
            ctx.check("ConnectionAborted" in src(g.node(n).ast), "abort/reason", c, "the abort is not reported as ConnectionAborted (the socket would be closed orderly)")
            for attr in ("doRead", "doWrite"):
                st = self_assigns(g, attr)
                ctx.check(bool(st) and g.must_precede(st, [n]) is None,
                          "abort/io-disabled", c + f" | {attr}",
                          f"{attr} is not neutralised by abortConnection(): buffered data is still sent / data still delivered after the abort")


    with ctx.section("asyncio timer"):
        # delayed writes, callLater(0, connectionLost) of abortConnection and every other timed call of the asyncio reactor hang on one asyncio timer
        # handle plus a marker saying for when it is armed.  Structural: the marker is cleared when the timer fires, BEFORE the timed calls run (they call
        # callLater, which reads it); the timer is re-armed afterwards; callLater arms it whenever the marker says nothing is armed.
        cls = "AsyncioSelectorReactor"
        fr = _F(ctx, AIO, f"{cls}._reschedule")
        gr = ctx.cfg(fr)
        qa = Q + f"asyncioreactor.{cls}."
        arm = [(n, c) for n, c in calls_with(gr, ".call_at", ".call_later")]
        ctx.need(arm, "the asyncio call_at/call_later that arms the reactor's timer in _reschedule")
        cb = None
        for n, c in arm:
            for a in c.args:
                if isinstance(a, ast.Attribute) and src(a.value) == "self":
                    cb = a.attr
        ctx.need(cb, "the callback method given to call_at")
        handle = {src(t) for n, c in arm for t in (gr.node(n).ast.targets if isinstance(gr.node(n).ast, ast.Assign) else [])}
        fc = _F(ctx, AIO, f"{cls}.callLater")
        gc = ctx.cfg(fc)
        # attributes the guards of callLater read - directly, or sampled into a local first (`at = self._x` ... `if at is None or at > t`)
        read_in_guard = {src(x) for t in gc.nodes if t.kind == "test" for e_ in (t.ast, resolve_locals(fc, t.ast)) for x in walk_local(e_)
                         if isinstance(x, ast.Attribute) and src(x.value) == "self"}
        markers = sorted({src(t) for n_ in gr.nodes if n_.kind == "stmt" and isinstance(n_.ast, ast.Assign) for t in n_.ast.targets
                          if isinstance(t, ast.Attribute) and src(t.value) == "self"} & read_in_guard - handle)
        ctx.need(markers, "the attribute that records for when the timer is armed (set in _reschedule, tested in callLater)")
        fo = _F(ctx, AIO, f"{cls}.{cb}")
        go = ctx.cfg(fo)
        run = call_nodes(go, "self.runUntilCurrent")
        ctx.need(run, f"self.runUntilCurrent() in {cb}")
        for mk_ in markers:
            attr = mk_.split(".", 1)[1]
            resets = self_assigns(go, attr, lambda v: const_value_is(v, lambda x: x is None))
            w = go.must_precede(resets, run) if resets else None
            ctx.check(bool(resets) and w is None, "asyncio-timer/marker-cleared-when-fired", qa + cb + f" | {mk_}",
                      f"when the timer fires {mk_} still says a timer is armed while the timed calls run (and afterwards, once the queue has drained): a callLater issued "
                      "from then on finds 'already armed for an earlier time' and never arms the asyncio timer - delayed calls (writes, abortConnection's connectionLost) "
                      "are never run", witness=go.describe(w) if w else "")
            w = must_pass_under(gc, {mk_: None, "self.timeout()": 0.0}, call_nodes(gc, "self._reschedule"))
            ctx.check(w is None, "asyncio-timer/calllater-arms-when-idle", qa + "callLater" + f" | {mk_} is None", "callLater does not arm the timer although none is armed",
                      witness=gc.describe(w))
            sets = [n_ for n_ in self_assigns(gr, attr)]
            w = must_pass_under(gr, {"self.timeout()": 1.5}, sets)
            ctx.check(bool(sets) and w is None, "asyncio-timer/reschedule-records-arming", qa + "_reschedule" + f" | {mk_}", "the timer is armed without recording for when",
                      witness=gr.describe(w))
        w = must_pass_under(gr, {"self.timeout()": 1.5}, [n for n, _ in arm])
        ctx.check(w is None, "asyncio-timer/reschedule-arms", qa + "_reschedule | <a timed call is pending>", "a pending timed call does not arm the asyncio timer", witness=gr.describe(w))
        for r in run:
            w = go.must_pass([r], call_nodes(go, "self._reschedule"))
            ctx.check(w is None, "asyncio-timer/rearmed-after-run", ctx.construct(qa + cb, go.node(r).ast), "after running the due calls the timer is not armed for the remaining ones",
                      witness=go.describe(w))


MUTANTS = [
    Mutant("abort-skipped-while-an-orderly-close-waits-for-the-buffer", TCP, "        if self.disconnected or self._aborting:\n            return\n",
           "        if self.disconnected or self._aborting:\n            return\n        if self.disconnecting and self.dataBuffer:\n            return\n", expect_rule="abort/always-terminates"),
    Mutant("abort-only-for-connected-transports-with-nothing-half-closed", TCP, "        if self.disconnected or self._aborting:\n            return\n",
           "        if self.disconnected or self._aborting or self._writeDisconnected:\n            return\n", expect_rule="abort/always-terminates"),
    Mutant("tcp-read-conditional-return-inverted", TCP, '            if se.args[0] == EWOULDBLOCK:\n                return\n            else:\n                return main.CONNECTION_LOST\n\n        return self._dataReceived(data)\n', '            return main.CONNECTION_LOST if se.args[0] == EWOULDBLOCK else None\n        else:\n            return self._dataReceived(data)\n', expect_rule="tcp-read/"),
    Mutant("polllike-helper-write-dispatched-after-failed-read", PB, "            # Any non-disconnect event turns into a doRead or a doWrite.\n            try:\n                # First check to see if the descriptor is still valid.  This\n                # gives fileno() a chance to raise an exception, too.\n                # Ideally, disconnection would always be indicated by the\n                # return value of doRead or doWrite (or an exception from\n                # one of those methods), but calling fileno here helps make\n                # buggy applications more transparent.\n                if selectable.fileno() == -1:\n                    # -1 is sort of a historical Python artifact.  Python\n                    # files and sockets used to change their file descriptor\n                    # to -1 when they closed.  For the time being, we'll\n                    # continue to support this anyway in case applications\n                    # replicated it, plus abstract.FileDescriptor.fileno\n                    # returns -1.  Eventually it'd be good to deprecate this\n                    # case.\n                    why = _NO_FILEDESC\n                else:\n                    if event & self._POLL_IN:\n                        # Handle a read event.\n                        why = selectable.doRead()\n                        inRead = True\n                    if not why and event & self._POLL_OUT:\n                        # Handle a write event, as long as doRead didn't\n                        # disconnect us.\n                        why = selectable.doWrite()\n                        inRead = False\n            except BaseException:\n                # Any exception from application code gets logged and will\n                # cause us to disconnect the selectable.\n                why = sys.exc_info()[1]\n                log.err()\n", '            why, inRead = self._runHandlers(selectable, event)\n',
           more=[(PB, "    def _doReadOrWrite(self, selectable, fd, event):\n", '    def _runHandlers(self, selectable, event):\n        why = None\n        inRead = False\n        try:\n            if selectable.fileno() == -1:\n                return _NO_FILEDESC, inRead\n            if event & self._POLL_IN:\n                why = selectable.doRead()\n                inRead = True\n            if event & self._POLL_OUT:\n                why = selectable.doWrite()\n                inRead = False\n        except BaseException:\n            why = sys.exc_info()[1]\n            log.err()\n        return why, inRead\n\n    def _doReadOrWrite(self, selectable, fd, event):\n')], expect_rule="dispatch/"),
    Mutant("epoll-lookup-by-get-without-none-guard", EPOLL, '            try:\n                selectable = self._selectables[fd]\n            except KeyError:\n                pass\n            else:\n                log.callWithLogger(selectable, _drdw, selectable, fd, event)\n\n    doIteration = doPoll\n\n\ndef install():\n    """\n    Install the epoll() reactor.', '            selectable = self._selectables.get(fd)\n            log.callWithLogger(selectable, _drdw, selectable, fd, event)\n\n    doIteration = doPoll\n\n\ndef install():\n    """\n    Install the epoll() reactor.', expect_rule="loop/unregistered-skipped"),
    Mutant("disconnect-writer-removed-up-front-also-on-half-close", PB, "        self.removeReader(selectable)\n        f = faildict.get(why.__class__)\n",
           "        self.removeReader(selectable)\n        self.removeWriter(selectable)\n        f = faildict.get(why.__class__)\n", expect_rule="disconnect/half-close-keeps-writer"),
    Mutant("disconnect-canned-reason-replaced-by-fresh-failure", PB, "                self.removeWriter(selectable)\n                selectable.connectionLost(f)\n",
           "                self.removeWriter(selectable)\n                selectable.connectionLost(failure.Failure(why))\n", expect_rule="disconnect/reason"),
    Mutant("disconnect-selected-reason-inverted", PB,
           "        if f:\n            if (\n                isRead\n                and why.__class__ == error.ConnectionDone\n                and IHalfCloseableDescriptor.providedBy(selectable)\n            ):\n"
           "                selectable.readConnectionLost(f)\n            else:\n                self.removeWriter(selectable)\n                selectable.connectionLost(f)\n"
           "        else:\n            self.removeWriter(selectable)\n            selectable.connectionLost(failure.Failure(why))\n",
           "        if (\n            f\n            and isRead\n            and why.__class__ == error.ConnectionDone\n            and IHalfCloseableDescriptor.providedBy(selectable)\n        ):\n"
           "            notify, reason = selectable.readConnectionLost, f\n        else:\n            self.removeWriter(selectable)\n"
           "            notify, reason = selectable.connectionLost, (failure.Failure(why) if f else f)\n        notify(reason)\n", expect_rule="disconnect/reason"),
    Mutant("select-handler-narrowed", SEL, "            why = getattr(selectable, method)()\n        except BaseException:",
           "            why = getattr(selectable, method)()\n        except Exception:", expect_rule="dispatch/handler-breadth"),
    Mutant("polllike-handler-narrowed", PB, "            except BaseException:\n                # Any exception from application code gets logged and will",
           "            except Exception:\n                # Any exception from application code gets logged and will", expect_rule="dispatch/handler-breadth"),
    Mutant("polllike-write-overwrites-loss", PB, "                    if not why and event & self._POLL_OUT:", "                    if event & self._POLL_OUT:",
           expect_rule="dispatch/loss-not-overwritten"),
    Mutant("polllike-hangup-drops-pending-input", PB, "        if event & self._POLL_DISCONNECTED and not (event & self._POLL_IN):",
           "        if event & self._POLL_DISCONNECTED:", expect_rule="polllike/hangup-after-input"),
    Mutant("polllike-direction-flag-stale", PB, "                        why = selectable.doWrite()\n                        inRead = False\n",
           "                        why = selectable.doWrite()\n", expect_rule="polllike/direction-flag"),
    Mutant("asyncio-exception-not-captured", AIO, "        except Exception as e:\n            why = e\n            self._log.failure(None)\n",
           "        except Exception as e:\n            why = None\n            self._log.failure(None)\n", expect_rule="dispatch/exception-captured"),
    Mutant("asyncio-nofd-falls-through", AIO, "            self._disconnectSelectable(selectable, _NO_FILEDESC, read)\n            return\n",
           "            self._disconnectSelectable(selectable, _NO_FILEDESC, read)\n", expect_rule="dispatch/"),
    Mutant("select-no-registration-recheck", SEL, "                if selectable not in fdset:  # type:ignore[operator]\n                    continue\n", "",
           expect_rule="loop/still-registered"),
    Mutant("select-truthy-test-dropped", SEL, "        if why:\n            self._disconnectSelectable(selectable, why, method == \"doRead\")",
           "        if why is True:\n            self._disconnectSelectable(selectable, why, method == \"doRead\")", expect_rule="dispatch/failure-disconnects"),
    Mutant("disconnect-keeps-writer", PB, "            else:\n                self.removeWriter(selectable)\n                selectable.connectionLost(f)\n",
           "            else:\n                selectable.connectionLost(f)\n", expect_rule="disconnect/writer-removed-first"),
    Mutant("disconnect-reader-removed-late", PB, "        self.removeReader(selectable)\n        f = faildict.get(why.__class__)\n",
           "        f = faildict.get(why.__class__)\n",
           more=[(PB, "            self.removeWriter(selectable)\n            selectable.connectionLost(failure.Failure(why))\n",
                  "            self.removeWriter(selectable)\n            selectable.connectionLost(failure.Failure(why))\n        self.removeReader(selectable)\n")],
           expect_rule="disconnect/reader-removed-first"),
    Mutant("disconnect-half-close-on-write-side", PB, "                isRead\n                and why.__class__ == error.ConnectionDone\n",
           "                why.__class__ == error.ConnectionDone\n", expect_rule="disconnect/half-close-only-read-side"),
    Mutant("faildict-rows-crossed", PB, "            error.ConnectionDone: failure.Failure(error.ConnectionDone()),\n            error.ConnectionLost: failure.Failure(error.ConnectionLost()),\n",
           "            error.ConnectionDone: failure.Failure(error.ConnectionLost()),\n            error.ConnectionLost: failure.Failure(error.ConnectionDone()),\n",
           expect_rule="disconnect/faildict-row"),
    Mutant("tcp-guard-cleared-after-callout", TCP, "        del self.socket\n        del self.fileno\n        protocol.connectionLost(reason)\n",
           "        del self.fileno\n        protocol.connectionLost(reason)\n        del self.socket\n", expect_rule="tcp-lost/guard-cleared-before-callout"),
    Mutant("tcp-once-guard-dropped", TCP, "        if not hasattr(self, \"socket\"):\n            return\n        abstract.FileDescriptor.connectionLost(self, reason)\n",
           "        abstract.FileDescriptor.connectionLost(self, reason)\n", expect_rule="tcp-lost/once-guard"),
    Mutant("tcp-protocol-told-before-teardown", TCP,
           "        abstract.FileDescriptor.connectionLost(self, reason)\n        self._closeSocket(not reason.check(error.ConnectionAborted))\n        protocol = self.protocol\n"
           "        del self.protocol\n        del self.socket\n        del self.fileno\n        protocol.connectionLost(reason)\n",
           "        self._closeSocket(not reason.check(error.ConnectionAborted))\n        protocol = self.protocol\n"
           "        del self.protocol\n        del self.socket\n        del self.fileno\n        protocol.connectionLost(reason)\n        abstract.FileDescriptor.connectionLost(self, reason)\n",
           expect_rule="tcp-lost/base-first"),
    Mutant("tcp-eof-reported-as-lost", TCP, "        if not data:\n            return main.CONNECTION_DONE\n", "        if not data:\n            return main.CONNECTION_LOST\n",
           expect_rule="tcp-read/eof-is-connection-done"),
    Mutant("tcp-wouldblock-is-loss", TCP, "            if se.args[0] == EWOULDBLOCK:\n                return\n            else:\n                return main.CONNECTION_LOST\n",
           "            return main.CONNECTION_LOST\n", expect_rule="tcp-read/wouldblock-is-not-loss"),
    Mutant("tcp-orderly-close-resets", TCP, "        self._closeSocket(not reason.check(error.ConnectionAborted))", "        self._closeSocket(reason.check(error.ConnectionAborted))",
           expect_rule="tcp-lost/orderly-unless-aborted"),
    Mutant("tcp-half-close-shuts-both", TCP, "            self.socket.shutdown(1)\n", "            self.socket.shutdown(2)\n", expect_rule="tcp-half-close/write-side-only"),
    Mutant("tcp-send-skips-first-byte", TCP, "        limitedData = lazyByteSlice(data, 0, self.SEND_LIMIT)", "        limitedData = lazyByteSlice(data, 1, self.SEND_LIMIT)",
           expect_rule="tcp-write/sends-prefix"),
    Mutant("abort-guard-dropped", TCP, "        if self.disconnected or self._aborting:\n            return\n", "        if self.disconnected:\n            return\n",
           expect_rule="abort/once-guard"),
    Mutant("epoll-remove-writer-crossed", EPOLL, "            writer, self._writes, self._reads, self._selectables, EPOLLOUT, EPOLLIN\n        )\n\n    def removeAll",
           "            writer, self._writes, self._reads, self._selectables, EPOLLIN, EPOLLOUT\n        )\n\n    def removeAll", expect_rule="masks/epoll-arguments"),
    Mutant("tcp-helper-deletes-guard-after-callout", TCP, "        protocol = self.protocol\n        del self.protocol\n        del self.socket\n        del self.fileno\n        protocol.connectionLost(reason)\n",
           "        protocol = self.protocol\n        protocol.connectionLost(reason)\n        self._forget()\n\n    def _forget(self):\n        del self.protocol\n        del self.socket\n        del self.fileno\n",
           expect_rule="tcp-lost/guard-cleared-before-callout"),
    Mutant("select-written-out-sets-crossed", SEL,
           "        for selectables, method, fdset in (\n            (r, \"doRead\", self._reads),\n            (w, \"doWrite\", self._writes),\n        ):\n            for selectable in selectables:\n"
           "                # if this was disconnected in another thread, kill it.\n                # ^^^^ --- what the !@#*?  serious!  -exarkun\n"
           "                if selectable not in fdset:  # type:ignore[operator]\n                    continue\n                # This for pausing input when we're not ready for more.\n"
           "                _logrun(selectable, _drdw, selectable, method)\n",
           "        for selectable in r:\n            if selectable in self._reads:\n                _logrun(selectable, _drdw, selectable, \"doRead\")\n"
           "        for selectable in w:\n            if selectable in self._reads:\n                _logrun(selectable, _drdw, selectable, \"doWrite\")\n", expect_rule="loop/select-rows"),
    Mutant("tcp-send-enobufs-is-loss", TCP, "            if se.args[0] in (EWOULDBLOCK, ENOBUFS):\n                return 0\n", "            if se.args[0] == EWOULDBLOCK:\n                return 0\n",
           expect_rule="tcp-write/"),
    Mutant("asyncio-timer-marker-cleared-after-the-calls-ran", AIO, "        self._scheduledAt = None\n        self.runUntilCurrent()\n        self._reschedule()\n",
           "        self.runUntilCurrent()\n        self._scheduledAt = None\n        self._reschedule()\n", expect_rule="asyncio-timer/marker-cleared-when-fired"),
    Mutant("asyncio-timer-not-rearmed-after-run", AIO, "        self._scheduledAt = None\n        self.runUntilCurrent()\n        self._reschedule()\n",
           "        self._scheduledAt = None\n        self.runUntilCurrent()\n", expect_rule="asyncio-timer/rearmed-after-run"),
    Mutant("tcp-send-wouldblock-by-class-drops-enobufs", TCP, "        except OSError as se:\n            if se.args[0] in (EWOULDBLOCK, ENOBUFS):\n                return 0\n            else:\n                return main.CONNECTION_LOST\n",
           "        except BlockingIOError:\n            return 0\n        except OSError:\n            return main.CONNECTION_LOST\n", expect_rule="tcp-write/"),
    Mutant("poll-stale-selectable-dispatched", POLL, "            except KeyError:\n                # Handles the infrequent case where one selectable's\n                # handler disconnects another.\n                continue\n",
           "            except KeyError:\n                pass\n", expect_rule="loop/unregistered-skipped"),
]
SILENT = [
    Silent("tcp-read-handler-returns-a-conditional-expression", TCP, '            if se.args[0] == EWOULDBLOCK:\n                return\n            else:\n                return main.CONNECTION_LOST\n\n        return self._dataReceived(data)\n', '            return None if se.args[0] == EWOULDBLOCK else main.CONNECTION_LOST\n        else:\n            return self._dataReceived(data)\n'),
    Silent("polllike-handlers-run-in-a-helper-returning-a-pair-from-inside-try", PB, "            # Any non-disconnect event turns into a doRead or a doWrite.\n            try:\n                # First check to see if the descriptor is still valid.  This\n                # gives fileno() a chance to raise an exception, too.\n                # Ideally, disconnection would always be indicated by the\n                # return value of doRead or doWrite (or an exception from\n                # one of those methods), but calling fileno here helps make\n                # buggy applications more transparent.\n                if selectable.fileno() == -1:\n                    # -1 is sort of a historical Python artifact.  Python\n                    # files and sockets used to change their file descriptor\n                    # to -1 when they closed.  For the time being, we'll\n                    # continue to support this anyway in case applications\n                    # replicated it, plus abstract.FileDescriptor.fileno\n                    # returns -1.  Eventually it'd be good to deprecate this\n                    # case.\n                    why = _NO_FILEDESC\n                else:\n                    if event & self._POLL_IN:\n                        # Handle a read event.\n                        why = selectable.doRead()\n                        inRead = True\n                    if not why and event & self._POLL_OUT:\n                        # Handle a write event, as long as doRead didn't\n                        # disconnect us.\n                        why = selectable.doWrite()\n                        inRead = False\n            except BaseException:\n                # Any exception from application code gets logged and will\n                # cause us to disconnect the selectable.\n                why = sys.exc_info()[1]\n                log.err()\n", '            why, inRead = self._runHandlers(selectable, event)\n',
           more=[(PB, "    def _doReadOrWrite(self, selectable, fd, event):\n", '    def _runHandlers(self, selectable, event):\n        why = None\n        inRead = False\n        try:\n            if selectable.fileno() == -1:\n                return _NO_FILEDESC, inRead\n            if event & self._POLL_IN:\n                why = selectable.doRead()\n                inRead = True\n            if not why and event & self._POLL_OUT:\n                why = selectable.doWrite()\n                inRead = False\n        except BaseException:\n            why = sys.exc_info()[1]\n            log.err()\n        return why, inRead\n\n    def _doReadOrWrite(self, selectable, fd, event):\n')]),
    Silent("epoll-lookup-by-get-with-none-guard", EPOLL, '            try:\n                selectable = self._selectables[fd]\n            except KeyError:\n                pass\n            else:\n                log.callWithLogger(selectable, _drdw, selectable, fd, event)\n\n    doIteration = doPoll\n\n\ndef install():\n    """\n    Install the epoll() reactor.', '            selectable = self._selectables.get(fd)\n            if selectable is None:\n                continue\n            log.callWithLogger(selectable, _drdw, selectable, fd, event)\n\n    doIteration = doPoll\n\n\ndef install():\n    """\n    Install the epoll() reactor.'),
    Silent("disconnect-notification-selected-then-called", PB,
           "        if f:\n            if (\n                isRead\n                and why.__class__ == error.ConnectionDone\n                and IHalfCloseableDescriptor.providedBy(selectable)\n            ):\n"
           "                selectable.readConnectionLost(f)\n            else:\n                self.removeWriter(selectable)\n                selectable.connectionLost(f)\n"
           "        else:\n            self.removeWriter(selectable)\n            selectable.connectionLost(failure.Failure(why))\n",
           "        if (\n            f\n            and isRead\n            and why.__class__ == error.ConnectionDone\n            and IHalfCloseableDescriptor.providedBy(selectable)\n        ):\n"
           "            notify, reason = selectable.readConnectionLost, f\n        else:\n            self.removeWriter(selectable)\n"
           "            notify, reason = selectable.connectionLost, (f if f else failure.Failure(why))\n        notify(reason)\n"),
    Silent("select-ready-pairs-from-generator-helper", SEL,
           "        for selectables, method, fdset in (\n            (r, \"doRead\", self._reads),\n            (w, \"doWrite\", self._writes),\n        ):\n            for selectable in selectables:\n"
           "                # if this was disconnected in another thread, kill it.\n                # ^^^^ --- what the !@#*?  serious!  -exarkun\n"
           "                if selectable not in fdset:  # type:ignore[operator]\n                    continue\n                # This for pausing input when we're not ready for more.\n"
           "                _logrun(selectable, _drdw, selectable, method)\n",
           "        for selectable, method in self._stillRegistered(r, w):\n            _logrun(selectable, _drdw, selectable, method)\n",
           more=[(SEL, "    def _doReadOrWrite(self, selectable, method):\n",
                  "    def _stillRegistered(self, r, w):\n        for selectables, method, fdset in ((r, \"doRead\", self._reads), (w, \"doWrite\", self._writes)):\n"
                  "            for selectable in selectables:\n                if selectable in fdset:\n                    yield selectable, method\n\n    def _doReadOrWrite(self, selectable, method):\n")]),
    Silent("polllike-event-test-through-static-helper", PB, "                    if event & self._POLL_IN:", "                    if self._has(event, self._POLL_IN):",
           more=[(PB, "                    if not why and event & self._POLL_OUT:", "                    if not why and self._has(event, self._POLL_OUT):"),
                 (PB, "    def _doReadOrWrite(self, selectable, fd, event):\n", "    @staticmethod\n    def _has(event, mask):\n        return event & mask\n\n    def _doReadOrWrite(self, selectable, fd, event):\n")]),
    Silent("tcp-lost-attributes-dropped-in-a-loop", TCP, "        del self.protocol\n        del self.socket\n        del self.fileno\n",
           "        for gone in (\"protocol\", \"socket\", \"fileno\"):\n            delattr(self, gone)\n"),
    Silent("select-handler-named", SEL, "        except BaseException:\n            why = sys.exc_info()[1]\n            log.err()\n        if why:",
           "        except BaseException as exc:\n            why = exc\n            log.err()\n        if why:"),
    Silent("select-membership-positive", SEL,
           "                if selectable not in fdset:  # type:ignore[operator]\n                    continue\n                # This for pausing input when we're not ready for more.\n                _logrun(selectable, _drdw, selectable, method)\n",
           "                if selectable in fdset:\n                    _logrun(selectable, _drdw, selectable, method)\n"),
    Silent("asyncio-handler-broadened", AIO, "        except Exception as e:\n            why = e\n", "        except BaseException as e:\n            why = e\n"),
    Silent("tcp-lost-guard-respelled", TCP, "        if not hasattr(self, \"socket\"):\n            return\n        abstract.FileDescriptor.connectionLost(self, reason)\n",
           "        if hasattr(self, \"socket\") is False:\n            return None\n        abstract.FileDescriptor.connectionLost(self, reason)\n"),
    Silent("tcp-lost-deletes-reordered", TCP, "        del self.protocol\n        del self.socket\n        del self.fileno\n", "        del self.socket, self.fileno\n        del self.protocol\n"),
    Silent("disconnect-else-flattened", PB,
           "        else:\n            self.removeWriter(selectable)\n            selectable.connectionLost(failure.Failure(why))\n\n\n@implementer(IReactorTCP",
           "        else:\n            reason = failure.Failure(why)\n            self.removeWriter(selectable)\n            selectable.connectionLost(failure.Failure(why))\n\n\n@implementer(IReactorTCP"),
    Silent("tcp-lost-detach-in-helper", TCP, "        protocol = self.protocol\n        del self.protocol\n        del self.socket\n        del self.fileno\n        protocol.connectionLost(reason)\n",
           "        protocol = self._forget()\n        protocol.connectionLost(reason)\n\n    def _forget(self):\n        protocol = self.protocol\n        del self.protocol\n        del self.socket\n        del self.fileno\n        return protocol\n"),
    Silent("select-dispatch-guard-clause", SEL, "        if why:\n            self._disconnectSelectable(selectable, why, method == \"doRead\")",
           "        if not why:\n            return\n        wasRead = method == \"doRead\"\n        self._disconnectSelectable(selectable, why, wasRead)"),
    Silent("tcp-send-fatal-errno-first", TCP, "            if se.args[0] in (EWOULDBLOCK, ENOBUFS):\n                return 0\n            else:\n                return main.CONNECTION_LOST\n",
           "            code = se.args[0]\n            if code not in (EWOULDBLOCK, ENOBUFS):\n                return main.CONNECTION_LOST\n            return 0\n"),
    Silent("select-dispatch-written-out", SEL,
           "        for selectables, method, fdset in (\n            (r, \"doRead\", self._reads),\n            (w, \"doWrite\", self._writes),\n        ):\n            for selectable in selectables:\n"
           "                # if this was disconnected in another thread, kill it.\n                # ^^^^ --- what the !@#*?  serious!  -exarkun\n"
           "                if selectable not in fdset:  # type:ignore[operator]\n                    continue\n                # This for pausing input when we're not ready for more.\n"
           "                _logrun(selectable, _drdw, selectable, method)\n",
           "        readers = self._reads\n        for selectable in r:\n            if selectable in readers:\n                _logrun(selectable, _drdw, selectable, \"doRead\")\n"
           "        for selectable in w:\n            if selectable not in self._writes:\n                continue\n            _logrun(selectable, _drdw, selectable, \"doWrite\")\n"),
    Silent("polllike-clean-close-branches-swapped", PB,
           "            if fd in self._reads:\n                # If we were reading from the descriptor then this is a\n                # clean shutdown.  We know there are no read events pending\n"
           "                # because we just checked above.  It also might be a\n                # half-close (which is why we have to keep track of inRead).\n"
           "                inRead = True\n                why = CONNECTION_DONE\n            else:\n                # If we weren't reading, this is an error shutdown of some\n                # sort.\n                why = CONNECTION_LOST\n",
           "            if fd not in self._reads:\n                why = CONNECTION_LOST\n            else:\n                inRead = True\n                why = CONNECTION_DONE\n"),
    Silent("poll-lookup-by-membership-test", POLL, "            try:\n                selectable = self._selectables[fd]\n            except KeyError:\n                # Handles the infrequent case where one selectable's\n"
           "                # handler disconnects another.\n                continue\n",
           "            known = self._selectables\n            if fd not in known:\n                continue\n            selectable = known[fd]\n"),
    Silent("tcp-recv-wouldblock-selected-by-exception-class", TCP, "        except OSError as se:\n            if se.args[0] == EWOULDBLOCK:\n                return\n            else:\n                return main.CONNECTION_LOST\n",
           "        except BlockingIOError:\n            return\n        except OSError:\n            return main.CONNECTION_LOST\n"),
    Silent("asyncio-timer-arming-as-guard-clause", AIO, "        if timeout is not None:\n            abs_time = self._asyncioEventloop.time() + timeout\n            self._scheduledAt = abs_time\n"
           "            if self._timerHandle is not None:\n                self._timerHandle.cancel()\n            self._timerHandle = self._asyncioEventloop.call_at(abs_time, self._onTimer)\n",
           "        if timeout is None:\n            return\n        when = self._asyncioEventloop.time() + timeout\n        self._scheduledAt = when\n"
           "        if self._timerHandle is not None:\n            self._timerHandle.cancel()\n        self._timerHandle = self._asyncioEventloop.call_at(when, self._onTimer)\n"),
    Silent("polllike-locals-renamed", PB, "                    if not why and event & self._POLL_OUT:", "                    if (not why) and (event & self._POLL_OUT):"),
]
