"""C52 - Atomic file replacement keeps old or new content at every crash point."""
from __future__ import annotations

import ast

from sa.astx import call_attr, call_name, dotted, src, walk_local
from sa.selftest import Mutant, Silent
from sa.props._lib_j import leaf_values, body_always_entered, normalise, run_sections, all_paths, edge_asserts, local_defs, no_exc, node_calls, normal_exits, params, resolve, rsrc

PROPERTY = "C52"
FP = "python/filepath.py"
SOB = "persisted/sob.py"
QS = "twisted.python.filepath.FilePath.setContent"
QP = "twisted.persisted.sob.Persistent"
TECHNIQUE = ("atomic-replace CFG order + argument provenance, symbolic per-path file names; a private @contextmanager generator is read with the with-body "
             "in place of its yield")
EXPLANATION = (
    "Decides for FilePath.setContent and sob.Persistent.save/_saveTemp: (1) the only handle opened for writing is on the "
    "temporary (temporarySibling(ext) / the second name of _getFilename), (2) the write happens inside a with block that is "
    "closed before the rename, and the rename/unlink are reachable only after the write returned normally, (3) the final path "
    "is changed only by os.rename(temporary, final) with the arguments in that order; removal of the final path is dominated by "
    "the Windows platform test, (4) every other filesystem-mutating call in these functions is a violation. temporarySibling "
    "yields a sibling (same directory) whose name contains _secureEnoughString() and is opened with O_EXCL (requireCreate -> "
    "create()); _getFilename is executed symbolically on every path: temporary and final name differ for all inputs. "
    "A failure of the open / write / dump leaves the function exceptionally: no handler lets control reach the rename or a normal return (must-not-pass on the exceptional edge). "
    "The handles the content goes through (FilePath.create/open, _saveTemp's open) are buffered, so a short write is retried or raises before the rename. "
    "Not decided: atomicity of rename itself, fsync/durability. "
    "Every anchor function is also checked to be entered on every call (no memoising/wrapping decorator, duplicate definition or rebinding). "
    "Methods: every clause is decided structurally; the temporary-differs-from-final clause is a symbolic argument per CFG path (same variable parts, different constant length), not a sample. "
)
RULE_KINDS = {"*": "structural"}     # CFG order / reachability through the completed write, provenance of rename arguments, per-path symbolic names (length argument)
ASSUMPTIONS = [
    "the rules read a normalised view of the anchored modules (sa/props/_lib_j.Normaliser): private helpers expanded at their call sites, module constants and single-assignment pure temporaries substituted, loops over constant tuples unrolled; evaluation order inside one statement is not modelled",
   "os.rename within one directory is atomic", "a with block closes (flushes) the file on exit"]
FS_MUTATORS = {"open", "_open", "unlink", "remove", "rename", "replace", "truncate", "setContent", "moveTo", "copyTo", "touch", "rmtree", "fdopen",
               "create", "copy", "copyfile", "move", "write_bytes", "write_text", "rmdir", "makedirs", "mkdir"}
RENAMES = {"os.rename", "os.replace"}
REMOVES = {"os.unlink", "os.remove"}


def _ancestors(n, stop):
    p = getattr(n, "_parent", None)
    while p is not None and p is not stop:
        yield p
        p = getattr(p, "_parent", None)


def _unbuffered(c):
    """open()/os.fdopen() asked for an unbuffered (raw) handle: third positional 0 or buffering=0."""
    return (len(c.args) >= 3 and src(c.args[2]) == "0") or any(k.arg == "buffering" and src(k.value) == "0" for k in c.keywords)


_SHORT_WRITE = ("the handle is raw (buffering=0): one f.write() is one write(2) whose short count is ignored, so on a nearly full disk / file-size limit a truncated "
                "temporary is renamed over the target as if complete (a buffered handle retries and raises, leaving the old content)")


def _handle(ctx, f, oc):
    """(handle variable name, closed before normal completion, close node ids or None for a with block) for an open-like call:
    `with open(...) as h:`  or  `h = open(...)` followed, on every normally completing path, by `h.close()`."""
    par = getattr(oc, "_parent", None)
    if isinstance(par, ast.withitem):
        return (src(par.optional_vars) if par.optional_vars is not None else None), True, None
    # look through a cast(...) / wrapper call around the open
    node = oc
    while isinstance(getattr(node, "_parent", None), ast.Call) and node in getattr(node, "_parent").args:
        node = getattr(node, "_parent")
    par = getattr(node, "_parent", None)
    if isinstance(par, ast.withitem):
        return (src(par.optional_vars) if par.optional_vars is not None else None), True, None
    if isinstance(par, (ast.Assign, ast.AnnAssign)):
        tgt = par.targets[0] if isinstance(par, ast.Assign) else par.target
        if isinstance(tgt, ast.Name) and any(isinstance(w, ast.With) and any(isinstance(it.context_expr, ast.Name) and it.context_expr.id == tgt.id for it in w.items)
                                             for w in walk_local(f)):
            return tgt.id, True, None          # h = open(...); with h: ...   - closed by the with block
        if isinstance(tgt, ast.Name):
            g = ctx.cfg(f)
            an = [n.id for n in g.nodes if n.ast is par and g.reachable(n.id)]
            closes = [n for n, c in node_calls(g, lambda c: call_name(c) == tgt.id + ".close")]
            # only normal completion matters: when the write raises, the caller never reaches its rename
            leak = g.path(an, {g.exit}, avoid=closes, edge_ok=lambda a, b, l: l != "exc", strict=True) if an else [0]
            return tgt.id, bool(closes) and leak is None, closes
    return None, False, None


def _after_failure(g, node, targets):
    """A path that leaves ``node`` on its EXCEPTIONAL edge (the call raised) and then reaches one of ``targets`` by normal control flow - i.e. some handler
    swallows the failure - or None.  (The CFG sends an exception to every handler of the enclosing try, so a handler for any exception class counts.)"""
    starts = [d for d, l in g.succ[node] if l == "exc"]
    if not starts:
        return None
    p = g.path(starts, targets, edge_ok=lambda a, b, l: l != "exc", strict=False)
    return ([node] + p) if p else None


def _writes_in_mode(c):
    """open-like call with a writing mode constant."""
    for a in list(c.args) + [k.value for k in c.keywords]:
        if isinstance(a, ast.Constant) and isinstance(a.value, str) and a.value and set(a.value) <= set("rwab+xt") and set(a.value) & set("wa+x"):
            return True
    return False


def _replace_rules(ctx, f, g, q, *, opens, final_texts, temp_text, platform_ok, what):
    """Shared K16 obligations once the (node, call) of the single writing open is known."""
    (on, oc) = opens
    withs = [a for a in _ancestors(oc, f) if isinstance(a, ast.With)]
    hname, closed, closes = _handle(ctx, f, oc)
    ctx.check(closed, "replace/handle-closed-by-with", ctx.construct(q, "with <open temporary>"),
              f"{what}: the temporary's handle is not closed on every path (with block / try-finally close): it may still be open / unflushed when the rename happens")
    w_ = withs[0] if (withs and closes is None) else None
    renames = node_calls(g, lambda c: call_name(c) in RENAMES)
    removes = node_calls(g, lambda c: call_name(c) in REMOVES)
    ctx.check(len(renames) == 1, "replace/single-rename", q, f"{what}: {len(renames)} rename calls (exactly one expected)")
    after_ok = lambda n: n not in g.reach([g.entry], edge_ok=lambda a, b, l: not (a == on and l != "exc"))
    for n, c in renames:
        inside = (w_ is not None and any(a is w_ for a in _ancestors(c, f))) or (closes is not None and g.must_precede(closes, [n], exc=False) is not None)
        ctx.check(not inside and after_ok(n), "replace/rename-after-close", ctx.construct(q, "os.rename(<temporary>, <final>)"),
                  f"{what}: the temporary is renamed over the final path while its handle is still open (inside the with block) or on a path on which it "
                  f"was not written: a crash leaves a truncated / partial file under the final name")
        a0 = rsrc(c.args[0], f) if c.args else ""
        a1 = rsrc(c.args[1], f) if len(c.args) > 1 else ""
        ctx.check(a0 == temp_text and a1 in final_texts, "replace/rename-temp-over-final", ctx.construct(q, "os.rename(<temporary>, <final>)"),
                  f"{what}: the rename is not (temporary -> final): os.rename({a0}, {a1})")
    for wn_ in {on} | {x for x in g.ids_of(oc)}:
        w = _after_failure(g, wn_, [n for n, _ in renames] + [n for n, _ in removes])
        ctx.check(w is None, "replace/write-failure-propagates", ctx.construct(q, g.node(wn_).ast if not isinstance(g.node(wn_).ast, (ast.With, ast.Try)) else "open temporary"),
                  f"{what}: when opening / writing the temporary fails, a handler swallows the error and control still reaches the rename (or the removal of the final "
                  f"path): a truncated temporary replaces the complete old content", witness=g.describe(w))
    for n, c in removes:
        a0 = rsrc(c.args[0], f) if c.args else ""
        guards = [src(t) for t, lab in edge_asserts(g, n) if lab == "T"]
        ctx.check(a0 in final_texts and any(platform_ok(t) for t in guards), "replace/final-removed-only-on-windows", ctx.construct(q, f"{call_name(c)}(<final>)"),
                  f"{what}: the final path is removed outside the Windows branch: on POSIX a crash between unlink and rename leaves neither old nor new content")
        inside = w_ is not None and any(a is w_ for a in _ancestors(c, f))
        ctx.check(after_ok(n) and not inside, "replace/final-removed-only-after-write", ctx.construct(q, f"{call_name(c)}(<final>)"),
                  f"{what}: the final path is removed before the new content is completely written and closed")
        for rn, rc in renames:
            ctx.check(g.path([rn], [n], edge_ok=no_exc) is None, "replace/final-removed-only-after-write", ctx.construct(q, "unlink before rename"),
                      f"{what}: the final path is removed after the rename (the new content is deleted)")
    # every other mutating call is a violation
    known = {id(oc)} | {id(c) for _, c in renames} | {id(c) for _, c in removes}
    nother = 0
    for c in walk_local(f):
        if isinstance(c, ast.Call) and id(c) not in known and call_attr(c) in FS_MUTATORS:
            if call_attr(c) in ("open", "_open") and not _writes_in_mode(c) and "alwaysCreate" not in src(c):
                continue
            nother += 1
            ctx.violation("replace/no-other-mutation", ctx.construct(q, c), f"{what}: besides write-temporary / rename the function also performs {src(c)}")
    if not nother:
        ctx.ok("replace/no-other-mutation", q)


def _s_setcontent(ctx, S):
    # ================= FilePath.setContent =================================================================
    f = ctx.func(FP, "FilePath.setContent")
    g = ctx.cfg(f)
    opens = node_calls(g, lambda c: call_attr(c) in ("open", "_open", "create", "fdopen"))
    ctx.check(len(opens) == 1, "replace/single-writable-open", QS, f"setContent opens {len(opens)} files (exactly one - the temporary - expected)")
    if not opens:
        return      # the violation above is the verdict
    on, oc = opens[0]
    recv = rsrc(oc.func.value, f) if isinstance(oc.func, ast.Attribute) else ""
    ext = params(f)[2]
    ok = recv == f"self.temporarySibling({ext})" or recv == "self.temporarySibling()"
    ctx.check(ok, "replace/write-only-to-temporary", ctx.construct(QS, "<temporary>.open('w')"),
              f"the new content is written through {src(oc)} with receiver {recv or src(oc.func)}: not a temporarySibling() of this path - a crash in the "
              f"middle of the write leaves a partial file under the final name")
    wr = node_calls(g, lambda c: call_attr(c) == "write" and c.args and src(c.args[0]) == params(f)[1])
    hname = _handle(ctx, f, oc)[0]
    ctx.check(len(wr) == 1 and isinstance(wr[0][1].func, ast.Attribute) and src(wr[0][1].func.value) == hname if wr else False,
              "replace/content-written-once", QS, "the content is not written exactly once into the temporary's handle")
    _replace_rules(ctx, f, g, QS, opens=(wr[0][0] if wr else on, oc), final_texts={"self.asBytesMode().path", "self.path"},
                   temp_text=f"self.temporarySibling({ext}).path",
                   platform_ok=lambda t: t == "platform.isWindows()", what="setContent")



def _s_temporary(ctx, S):
    # temporarySibling
    cands = [x for x in ctx.mod(FP).find_all("FilePath.temporarySibling") if isinstance(x, ast.FunctionDef) and not any(dotted(d) == "overload" for d in x.decorator_list)]
    ctx.need(cands, "FilePath.temporarySibling implementation")
    ft = cands[0]
    qt = "twisted.python.filepath.FilePath.temporarySibling"
    gt = ctx.cfg(ft)
    rets = [gt.node(x).ast for x in normal_exits(gt)]
    dt = local_defs(ft, track_mutation=False)
    okr = bool(rets) and all(isinstance(r, ast.Return) and isinstance(r.value, ast.Name) for r in rets)
    ctx.check(okr, "temporary/shape", qt, "temporarySibling does not return a single path variable")
    if okr:
        name = rets[0].value.id
        val = resolve(rets[0].value, dt)
        is_sib = isinstance(val, ast.Call) and call_name(val) == "self.sibling" and len(val.args) == 1
        ctx.check(is_sib, "temporary/same-directory", qt, "the temporary is not a sibling() of the final path: rename across directories / file systems is not atomic")
        if is_sib:
            txt = src(val.args[0])
            ctx.check("_secureEnoughString(" in txt, "temporary/unpredictable-name", qt,
                      "the temporary's name has no random component: it can equal the final name or collide with a concurrent writer's temporary")
            last = val.args[0].right if isinstance(val.args[0], ast.BinOp) and isinstance(val.args[0].op, ast.Add) else None
            extp = params(ft)[1]
            # the suffix is the requested extension itself, or a local that takes it on some path (the other paths supply the empty default)
            ends_ext = (isinstance(last, ast.Name) and (last.id == extp or any(d is not None and src(d) == extp for d in dt.get(last.id, [])))) or \
                (last is not None and any(isinstance(v, ast.Name) and v.id == extp for v, _, _ in leaf_values(ft, last)))
            ctx.check("basename()" in txt and ends_ext, "temporary/extension-suffix", qt,
                      "the temporary's name does not end with the requested extension (crash leftovers cannot be identified by suffix)")
        rc = node_calls(gt, lambda c: call_name(c) == name + ".requireCreate")
        okc = bool(rc) and all(not c.args or src(c.args[0]) == "True" for _, c in rc) and all(gt.must_pass([gt.entry], [n for n, _ in rc], exc=False) is None for _ in [0])
        ctx.check(okc, "temporary/exclusive-create", qt,
                  "the temporary is not marked requireCreate(): it would be opened with truncation instead of O_EXCL and could clobber an existing file")


def _s_exclusive_open(ctx, S):
    fo = ctx.func(FP, "FilePath.open")
    go = ctx.cfg(fo)
    cr = node_calls(go, lambda c: call_name(c) == "self.create")
    ctx.check(bool(cr) and all(go.guarded(n, lambda e: src(e) == "self.alwaysCreate", True) and isinstance(go.node(n).ast, ast.Return) for n, _ in cr) and
              all(go.guarded(x, lambda e: src(e) == "self.alwaysCreate", None) for x in normal_exits(go)), "temporary/exclusive-create", "twisted.python.filepath.FilePath.open",
              "open() of an alwaysCreate path does not go through create()")
    for x in normal_exits(go):
        if not go.guarded(x, lambda e: src(e) == "self.alwaysCreate", True):
            continue
        ctx.check(any(n == x for n, _ in cr), "temporary/exclusive-create", ctx.construct("twisted.python.filepath.FilePath.open", go.node(x).ast),
                  "an alwaysCreate path can be opened without O_EXCL")
    flags = ctx.mod(FP).module_assign("_CREATE_FLAGS")
    ctx.check(flags is not None and {"os.O_EXCL", "os.O_CREAT"} <= {src(x) for x in ast.walk(flags) if isinstance(x, ast.Attribute)} and
              all(isinstance(b.op, ast.BitOr) for b in ast.walk(flags) if isinstance(b, ast.BinOp)), "temporary/exclusive-create", "twisted.python.filepath._CREATE_FLAGS",
              "_CREATE_FLAGS lacks O_EXCL | O_CREAT")
    fc = ctx.func(FP, "FilePath.create")
    ctx.check(any(isinstance(c, ast.Call) and call_name(c) == "os.open" and len(c.args) == 2 and src(c.args[0]) == "self.path" and src(c.args[1]) == "_CREATE_FLAGS" for c in ast.walk(fc)),
              "temporary/exclusive-create", "twisted.python.filepath.FilePath.create", "create() does not os.open(self.path, _CREATE_FLAGS)")
    # the handles the content is written through are buffered
    n = 0
    for qual in ("FilePath.create", "FilePath.open"):
        fn = ctx.func(FP, qual)
        for c in ast.walk(fn):
            if isinstance(c, ast.Call) and call_name(c) in ("os.fdopen", "open", "io.open", "io.FileIO", "FileIO"):
                n += 1
                ctx.check(not _unbuffered(c) and "FileIO" not in (call_name(c) or ""), "replace/complete-write-or-error", ctx.construct("twisted.python.filepath." + qual, c), _SHORT_WRITE)
    ctx.floor("replace/complete-write-or-error", n, 2, "file objects created by FilePath.create/open")



def _s_save(ctx, S):
    # ================= sob.Persistent =========================================================================
    fs = ctx.func(SOB, "Persistent.save")
    gs = ctx.cfg(fs)
    q = QP + ".save"
    # names
    unpack = [n for n in walk_local(fs) if isinstance(n, ast.Assign) and isinstance(n.value, ast.Call) and call_name(n.value) == "self._getFilename"
              and isinstance(n.targets[0], ast.Tuple) and len(n.targets[0].elts) == 2]
    ctx.need(unpack, "finalname, filename = self._getFilename(...) in save")
    FINAL, TEMP = (src(e) for e in unpack[0].targets[0].elts)
    sdefs = local_defs(fs, track_mutation=False)

    def same(e, name):
        """e denotes the value unpacked as ``name`` (directly or through local aliases)"""
        return src(e) == name or rsrc(e, sdefs) == rsrc(ast.Name(id=name, ctx=ast.Load()), sdefs)
    saves = node_calls(gs, lambda c: call_name(c) == "self._saveTemp")
    ctx.check(len(saves) == 1 and same(saves[0][1].args[0], TEMP) if saves else False, "replace/write-only-to-temporary", ctx.construct(q, "self._saveTemp(<temporary>, dumpFunc)"),
              "save() dumps the application into something other than the temporary name: a crash while pickling leaves a truncated file under the final name")
    if not saves:
        return      # the violation above is the verdict
    sn, sc = saves[0]
    # reuse the shared rules with the _saveTemp call standing for the (closed) write
    renames = node_calls(gs, lambda c: call_name(c) in RENAMES)
    removes = node_calls(gs, lambda c: call_name(c) in REMOVES)
    ctx.check(len(renames) == 1, "replace/single-rename", q, f"save(): {len(renames)} rename calls (exactly one expected)")
    after_ok = lambda n: n not in gs.reach([gs.entry], edge_ok=lambda a, b, l: not (a == sn and l != "exc"))
    w = _after_failure(gs, sn, [n for n, _ in renames] + [n for n, _ in removes])
    ctx.check(w is None, "replace/write-failure-propagates", ctx.construct(q, "self._saveTemp(<temporary>, dumpFunc)"),
              "save(): a failure while writing the temporary is swallowed and the rename (or the removal of the final file) is still reached: a truncated '-2' file "
              "replaces the saved application", witness=gs.describe(w))
    for n, c in renames:
        ctx.check(after_ok(n), "replace/rename-after-close", ctx.construct(q, "os.rename(<temporary>, <final>)"),
                  "save(): the rename can happen on a path on which the temporary was not completely written")
        ctx.check(len(c.args) == 2 and same(c.args[0], TEMP) and same(c.args[1], FINAL), "replace/rename-temp-over-final", ctx.construct(q, "os.rename(<temporary>, <final>)"),
                  f"save(): the rename is not (temporary -> final): {src(c)}")
    for n, c in removes:
        guards = [src(t) for t, lab in edge_asserts(gs, n) if lab == "T"]
        ctx.check(same(c.args[0], FINAL) and any(t in ("runtime.platformType == 'win32'", "platform.isWindows()", "runtime.platform.isWindows()") for t in guards),
                  "replace/final-removed-only-on-windows", ctx.construct(q, f"{call_name(c)}(<final>)"),
                  "save(): the final file is removed outside the win32 branch: a crash before the rename leaves no saved application at all")
        ctx.check(after_ok(n), "replace/final-removed-only-after-write", ctx.construct(q, f"{call_name(c)}(<final>)"),
                  "save(): the final file is removed before the new one is completely written")
        for rn, rc in renames:
            ctx.check(gs.path([rn], [n], edge_ok=no_exc) is None, "replace/final-removed-only-after-write", ctx.construct(q, "remove before rename"), "save(): remove after rename")
    known = {id(c) for _, c in renames} | {id(c) for _, c in removes} | {id(sc)}
    extra = [c for c in walk_local(fs) if isinstance(c, ast.Call) and id(c) not in known and (call_attr(c) in FS_MUTATORS or call_name(c) == "self._saveTemp")]
    ctx.check(not extra, "replace/no-other-mutation", q, f"save() also performs {[src(c) for c in extra]}")



def _s_getfilename(ctx, S):
    gf = ctx.func(SOB, "Persistent._getFilename")
    # _getFilename: per-path symbolic evaluation -> (final, temporary) always differ
    gg = ctx.cfg(gf)
    npaths = 0
    for path in all_paths(gg, gg.entry, {gg.exit}):
        env = {p_: ast.Name(id=p_ + "_in", ctx=ast.Load()) for p_ in params(gf)}     # closed terms over the inputs
        ret = None
        for nid in path:
            n = gg.node(nid)
            if n.kind != "stmt" or n.ast is None:
                continue
            if isinstance(n.ast, ast.Assign) and len(n.ast.targets) == 1 and isinstance(n.ast.targets[0], ast.Name):
                env[n.ast.targets[0].id] = resolve(n.ast.value, {k: [v] for k, v in env.items()}, depth=1)
            elif isinstance(n.ast, ast.Return):
                ret = resolve(n.ast.value, {k: [v] for k, v in env.items()}, depth=1) if n.ast.value is not None else None
        npaths += 1
        conds = " and ".join(f"{src(t)}={lab}" for t, lab in [(gg.node(a).ast, next(l for d, l in gg.succ[a] if d == b)) for a, b in zip(path, path[1:]) if gg.node(a).kind == "test"])
        where = ctx.construct(QP + "._getFilename", f"path [{conds}]")
        if not (isinstance(ret, ast.Tuple) and len(ret.elts) == 2):
            ctx.violation("names/temporary-differs-from-final", where, "_getFilename does not return (finalname, temporary)")
            continue
        fin, tmp = ret.elts
        ctx.check(_always_differ(fin, tmp), "names/temporary-differs-from-final", where,
                  f"on this path the temporary name {src(tmp)} can equal the final name {src(fin)}: save() then truncates the saved application in place "
                  f"(a crash while pickling destroys the only copy)")
        ctx.check(_same_dir(fin, tmp), "names/temporary-in-same-directory", where, f"temporary {src(tmp)} is not derived from the final name {src(fin)} (rename may cross directories)")
    ctx.floor("names/temporary-differs-from-final", npaths, 3, "paths through _getFilename")


def _s_savetemp(ctx, S):
    st_ = ctx.func(SOB, "Persistent._saveTemp")
    # _saveTemp opens exactly its argument for writing inside with
    pst = params(st_)
    dst = local_defs(st_, track_mutation=False)
    so = [c for c in walk_local(st_) if isinstance(c, ast.Call) and call_name(c) in ("open", "_open", "io.open")]
    lowopens = [c for c in walk_local(st_) if isinstance(c, ast.Call) and call_name(c) == "os.open"]
    fdopens = [c for c in walk_local(st_) if isinstance(c, ast.Call) and call_name(c) == "os.fdopen"]
    # two accepted shapes: open(<param>, "w…")  or  os.fdopen(os.open(<param>, flags), "w…")
    ok = False
    if len(so) == 1 and not lowopens and not fdopens:
        ok = src(so[0].args[0]) == pst[1] and _writes_in_mode(so[0]) and _handle(ctx, st_, so[0])[1]
    elif not so and len(lowopens) == 1 and len(fdopens) == 1:
        fdarg = resolve(fdopens[0].args[0], dst) if fdopens[0].args else None
        ok = fdarg is not None and src(fdarg) == src(lowopens[0]) and src(lowopens[0].args[0]) == pst[1] and _handle(ctx, st_, fdopens[0])[1]
    ctx.check(ok, "replace/handle-closed-by-with", QP + "._saveTemp", "_saveTemp does not open exactly its filename argument for writing and close it on every exit "
              "(with block, or try/finally close)")
    # the temporary starts empty: a leftover from an earlier crashed save must not survive behind shorter new content
    for c in so:
        mode = next((a.value for a in c.args[1:2] if isinstance(a, ast.Constant) and isinstance(a.value, str)), "r")
        ctx.check("w" in mode or "x" in mode, "replace/temporary-starts-empty", ctx.construct(QP + "._saveTemp", "open(<temporary>, <mode>)"),
                  f"the temporary is opened with mode {mode!r}, which neither truncates nor insists on a new file: stale bytes of an earlier interrupted save stay behind "
                  f"the new content and are renamed into place with it")
    for c in lowopens:
        flags = {x.attr for x in ast.walk(c.args[1]) if isinstance(x, ast.Attribute)} if len(c.args) > 1 else set()
        ctx.check(bool(flags & {"O_TRUNC", "O_EXCL"}), "replace/temporary-starts-empty", ctx.construct(QP + "._saveTemp", "os.open(<temporary>, <flags>)"),
                  f"the temporary is opened with {sorted(flags)} - neither O_TRUNC nor O_EXCL: stale bytes of an earlier interrupted save (a longer '-2' file) stay behind "
                  f"the new content and are renamed into place with it")
    so = so + fdopens
    for c in so:
        ctx.check(not _unbuffered(c), "replace/complete-write-or-error", ctx.construct(QP + "._saveTemp", "open(<temporary>, 'wb')"), _SHORT_WRITE)
    dump = [c for c in walk_local(st_) if isinstance(c, ast.Call) and isinstance(c.func, ast.Name) and c.func.id == pst[2]]
    hname = next((h for h in (_handle(ctx, st_, c)[0] for c in so) if h), None)
    ctx.check(len(dump) == 1 and len(dump[0].args) == 2 and src(dump[0].args[0]) == "self.original" and src(dump[0].args[1]) == hname,
              "replace/content-written-once", QP + "._saveTemp", "_saveTemp does not dump self.original once into the open handle")
    gt_ = ctx.cfg(st_)
    for c in dump + so + lowopens:
        for cn in gt_.ids_of(c):
            w = _after_failure(gt_, cn, [gt_.exit])
            ctx.check(w is None, "replace/write-failure-propagates", ctx.construct(QP + "._saveTemp", "dumpFunc(self.original, <handle>)" if c in dump else "open(<temporary>)"),
                      "_saveTemp returns normally although opening / dumping into the temporary raised (the error is swallowed by a handler): save() goes on to rename the "
                      "incomplete temporary over the final file", witness=gt_.describe(w))
    other = [c for c in walk_local(st_) if isinstance(c, ast.Call) and call_attr(c) in FS_MUTATORS and c not in so and c not in lowopens]
    ctx.check(not other, "replace/no-other-mutation", QP + "._saveTemp", f"_saveTemp also performs {[src(c) for c in other]}")


def _s_body(ctx, S):
    why = "the replace protocol (write temporary, close, rename) lives in this body; a wrapper that answers without running it, or runs it twice, voids the path rules"
    body_always_entered(ctx, FP, ["FilePath.setContent", "FilePath.temporarySibling", "FilePath.open", "FilePath.create"], "anchor/body-entered-on-every-call",
                        "twisted.python.filepath", why)
    body_always_entered(ctx, SOB, ["Persistent.save", "Persistent._saveTemp", "Persistent._getFilename"], "anchor/body-entered-on-every-call", "twisted.persisted.sob", why)


def check(ctx):
    normalise(ctx, {FP: ["_secureEnoughString", "_getPathAsSameTypeAs", "_coerceToFilesystemEncoding"], SOB: ["_saveTemp", "_getFilename", "_getStyle"]},
              scopes={FP: ["FilePath.setContent"], SOB: ["Persistent"]})
    run_sections(ctx, [("setContent", _s_setcontent), ("temporarySibling", _s_temporary), ("exclusive-open", _s_exclusive_open), ("Persistent.save", _s_save),
                       ("Persistent._saveTemp", _s_savetemp), ("Persistent._getFilename", _s_getfilename), ("body-entered", _s_body)])


def _parts(e):
    """Flatten a string-building expression into [('c', text) | ('v', expr text)]."""
    if isinstance(e, ast.Constant) and isinstance(e.value, str):
        return [("c", e.value)]
    if isinstance(e, ast.JoinedStr):
        out = []
        for v in e.values:
            if isinstance(v, ast.Constant):
                out.append(("c", str(v.value)))
            elif isinstance(v, ast.FormattedValue):
                out.append(("v", src(v.value)))
        return out
    if isinstance(e, ast.Call) and isinstance(e.func, ast.Attribute) and e.func.attr == "format" and isinstance(e.func.value, ast.Constant) \
            and isinstance(e.func.value.value, str) and not e.keywords:
        import string
        out, n_auto = [], 0
        try:
            for lit, field, spec, conv in string.Formatter().parse(e.func.value.value):
                if lit:
                    out.append(("c", lit))
                if field is None:
                    continue
                if spec or conv:
                    return None
                idx = n_auto if field == "" else (int(field) if field.isdigit() else None)
                if idx is None or idx >= len(e.args):
                    return None
                n_auto += 1 if field == "" else 0
                out.append(("v", src(e.args[idx])))
        except ValueError:
            return None
        return out
    if isinstance(e, ast.BinOp) and isinstance(e.op, ast.Add):
        l, r = _parts(e.left), _parts(e.right)
        return None if l is None or r is None else l + r
    if isinstance(e, (ast.Name, ast.Attribute)):
        return [("v", src(e))]
    return None


def _always_differ(a, b):
    pa, pb = _parts(a), _parts(b)
    if pa is None or pb is None:
        return False
    va = [t for k, t in pa if k == "v"]
    vb = [t for k, t in pb if k == "v"]
    la = sum(len(t) for k, t in pa if k == "c")
    lb = sum(len(t) for k, t in pb if k == "c")
    return va == vb and la != lb      # same variable parts, different constant length -> different length -> different string


def _same_dir(a, b):
    pa, pb = _parts(a), _parts(b)
    return pa is not None and pb is not None and pa[:1] == pb[:1] and all("/" not in t and "\\" not in t for k, t in pa + pb if k == "c")


MUTANTS = [
    Mutant("open-final-path-directly", FP, "        sib = self.temporarySibling(ext)\n        with sib.open(\"w\") as f:\n            f.write(content)\n",
           "        sib = self.temporarySibling(ext)\n        with self.open(\"w\") as f:\n            f.write(content)\n", expect_rule="replace/write-only-to-temporary"),
    Mutant("rename-inside-with", FP, "            f.write(content)\n        if platform.isWindows() and exists(self.path):\n            os.unlink(self.path)\n        os.rename(sib.path, self.asBytesMode().path)\n",
           "            f.write(content)\n            if platform.isWindows() and exists(self.path):\n                os.unlink(self.path)\n            os.rename(sib.path, self.asBytesMode().path)\n",
           expect_rule="replace/rename-after-close"),
    Mutant("unconditional-unlink", FP, "        if platform.isWindows() and exists(self.path):\n            os.unlink(self.path)\n        os.rename(sib.path",
           "        if exists(self.path):\n            os.unlink(self.path)\n        os.rename(sib.path", expect_rule="replace/final-removed-only-on-windows"),
    Mutant("sob-remove-before-dump", SOB, "        self._saveTemp(filename, dumpFunc)\n        if runtime.platformType == \"win32\" and os.path.isfile(finalname):\n            os.remove(finalname)\n",
           "        if runtime.platformType == \"win32\" and os.path.isfile(finalname):\n            os.remove(finalname)\n        self._saveTemp(filename, dumpFunc)\n",
           expect_rule="replace/final-removed-only-after-write"),
    Mutant("sob-temporary-equals-final", SOB, "            filename = f\"{self.name}-2.{ext}\"\n", "            filename = f\"{self.name}.{ext}\"\n", expect_rule="names/temporary-differs-from-final"),
    Mutant("sob-dump-into-final", SOB, "        self._saveTemp(filename, dumpFunc)\n", "        self._saveTemp(finalname, dumpFunc)\n", expect_rule="replace/write-only-to-temporary"),
    Mutant("temporary-not-exclusive", FP, "        sib.requireCreate()\n        return sib\n", "        return sib\n", expect_rule="temporary/exclusive-create"),
    Mutant("unlink-before-write", FP, "        sib = self.temporarySibling(ext)\n        with sib.open(\"w\") as f:\n            f.write(content)\n        if platform.isWindows() and exists(self.path):\n            os.unlink(self.path)\n",
           "        sib = self.temporarySibling(ext)\n        if platform.isWindows() and exists(self.path):\n            os.unlink(self.path)\n        with sib.open(\"w\") as f:\n            f.write(content)\n",
           expect_rule="replace/final-removed-only-after-write"),
    Mutant("temporary-handle-raw", FP, "        return cast(IO[bytes], os.fdopen(fdint, \"w+b\"))", "        return cast(IO[bytes], os.fdopen(fdint, \"w+b\", buffering=0))",
           expect_rule="replace/complete-write-or-error"),
    Mutant("sob-temporary-handle-raw", SOB, "        with open(filename, \"wb\") as f:", "        with open(filename, \"wb\", 0) as f:", expect_rule="replace/complete-write-or-error"),
    Mutant("sob-temporary-not-truncated", SOB, "        with open(filename, \"wb\") as f:", "        with open(filename, \"r+b\" if os.path.exists(filename) else \"wb\") as f:",
           expect_rule="replace/"),
    Mutant("sob-temporary-opened-without-trunc", SOB, "        with open(filename, \"wb\") as f:", "        fd = os.open(filename, os.O_WRONLY | os.O_CREAT)\n        with os.fdopen(fd, \"wb\") as f:",
           expect_rule="replace/temporary-starts-empty"),
    Mutant("sob-handle-never-closed", SOB, "        with open(filename, \"wb\") as f:\n            dumpFunc(self.original, f)", "        f = open(filename, \"wb\")\n        dumpFunc(self.original, f)",
           expect_rule="replace/handle-closed-by-with"),
    Mutant("sob-dump-failure-logged-and-ignored", SOB, "        with open(filename, \"wb\") as f:\n            dumpFunc(self.original, f)",
           "        with open(filename, \"wb\") as f:\n            try:\n                dumpFunc(self.original, f)\n            except (pickle.PicklingError, OSError):\n                log.msg(\"could not save \" + self.name)",
           expect_rule="replace/write-failure-propagates"),
    Mutant("save-ignores-failed-temp", SOB, "        self._saveTemp(filename, dumpFunc)\n", "        try:\n            self._saveTemp(filename, dumpFunc)\n        except OSError:\n            pass\n",
           expect_rule="replace/write-failure-propagates"),
    Mutant("setContent-write-error-suppressed", FP, "        with sib.open(\"w\") as f:\n            f.write(content)\n", "        with sib.open(\"w\") as f:\n            try:\n                f.write(content)\n            except OSError:\n                pass\n",
           expect_rule="replace/write-failure-propagates"),
    Mutant("sob-rename-swapped", SOB, "        os.rename(filename, finalname)\n", "        os.rename(finalname, filename)\n", expect_rule="replace/rename-temp-over-final"),
    Mutant("sob-unconditional-remove", SOB, "        if runtime.platformType == \"win32\" and os.path.isfile(finalname):", "        if os.path.isfile(finalname):", expect_rule="replace/final-removed-only-on-windows"),
    Mutant("temporary-without-random", FP, "            _secureEnoughString(ourPath) + self.clonePath(ourPath).basename() + ext", "            self.clonePath(ourPath).basename() + ext",
           expect_rule="temporary/unpredictable-name"),
    # ---- round-3 shapes: the replacement protocol kept in a private @contextmanager generator, the extension default as a conditional expression
    Mutant("context-manager-renames-in-finally", FP, '        sib = self.temporarySibling(ext)\n        with sib.open("w") as f:\n            f.write(content)\n        if platform.isWindows() and exists(self.path):\n            os.unlink(self.path)\n        os.rename(sib.path, self.asBytesMode().path)\n', '        with self._replacing(ext) as out:\n            out.write(content)\n\n    @contextmanager\n    def _replacing(self, ext):\n        sib = self.temporarySibling(ext)\n        try:\n            with sib.open("w") as f:\n                yield f\n        finally:\n            if platform.isWindows() and exists(self.path):\n                os.unlink(self.path)\n            os.rename(sib.path, self.asBytesMode().path)\n', expect_rule="replace/write-failure-propagates"),
    Mutant("sob-context-manager-removes-final-before-the-body", SOB, '        self._saveTemp(filename, dumpFunc)\n        if runtime.platformType == "win32" and os.path.isfile(finalname):\n            os.remove(finalname)\n        os.rename(filename, finalname)\n', '        with self._swappedIn(filename, finalname):\n            self._saveTemp(filename, dumpFunc)\n', expect_rule="replace/final-removed-only-after-write",
           more=[(SOB, "    def save(self, ", '    @contextmanager\n    def _swappedIn(self, temporary, final):\n        if runtime.platformType == "win32" and os.path.isfile(final):\n            os.remove(final)\n        yield\n        os.rename(temporary, final)\n\n    def save(self, ')]),
    Mutant("extension-conditional-never-takes-the-extension", FP, "        if extension is None:\n            # It's not possible to provide a default type argument which is why\n            # the overload is required.\n            ext = self.path[0:0]  # type:ignore[assignment]\n        else:\n            ext = extension\n", "        ext = self.path[0:0] if extension is None else self.path[0:0]\n", expect_rule="temporary/extension-suffix"),
]
SILENT = [
    Silent("rename-local", FP, "        sib = self.temporarySibling(ext)\n        with sib.open(\"w\") as f:\n            f.write(content)\n        if platform.isWindows() and exists(self.path):\n            os.unlink(self.path)\n        os.rename(sib.path, self.asBytesMode().path)",
           "        temporary = self.temporarySibling(ext)\n        with temporary.open(\"w\") as out:\n            out.write(content)\n        if platform.isWindows() and exists(self.path):\n            os.unlink(self.path)\n        os.rename(temporary.path, self.asBytesMode().path)"),
    Silent("platform-test-order", FP, "        if platform.isWindows() and exists(self.path):\n            os.unlink(self.path)\n        os.rename(sib.path", "        if exists(self.path) and platform.isWindows():\n            os.unlink(self.path)\n        os.rename(sib.path"),
    Silent("sob-temporary-via-os-open-trunc", SOB, "        with open(filename, \"wb\") as f:", "        fd = os.open(filename, os.O_WRONLY | os.O_CREAT | os.O_TRUNC, 0o600)\n        with os.fdopen(fd, \"wb\") as f:"),
    Silent("sob-handle-closed-by-try-finally", SOB, "        with open(filename, \"wb\") as f:\n            dumpFunc(self.original, f)",
           "        f = open(filename, \"wb\")\n        try:\n            dumpFunc(self.original, f)\n        finally:\n            f.close()"),
    Silent("setContent-split-into-private-steps", FP,
           "        sib = self.temporarySibling(ext)\n        with sib.open(\"w\") as f:\n            f.write(content)\n        if platform.isWindows() and exists(self.path):\n            os.unlink(self.path)\n        os.rename(sib.path, self.asBytesMode().path)\n",
           "        sib = self.temporarySibling(ext)\n        self._fill(sib, content)\n        self._swapIn(sib)\n\n    def _fill(self, tmp, data):\n        with tmp.open(\"w\") as out:\n            out.write(data)\n\n"
           "    def _swapIn(self, tmp):\n        if not platform.isWindows():\n            pass\n        elif exists(self.path):\n            os.unlink(self.path)\n        src_ = tmp.path\n        os.rename(src_, self.asBytesMode().path)\n"),
    Silent("sob-rename-in-private-helper", SOB, "        if runtime.platformType == \"win32\" and os.path.isfile(finalname):\n            os.remove(finalname)\n        os.rename(filename, finalname)\n",
           "        self._publish(filename, finalname)\n",
           more=[(SOB, "    def _saveTemp(self, filename, dumpFunc):", "    def _publish(self, tmp, final):\n        if runtime.platformType == \"win32\":\n            if os.path.isfile(final):\n                os.remove(final)\n        os.rename(tmp, final)\n\n    def _saveTemp(self, filename, dumpFunc):")]),
    Silent("sob-dump-failure-cleans-up-and-reraises", SOB, "        with open(filename, \"wb\") as f:\n            dumpFunc(self.original, f)",
           "        with open(filename, \"wb\") as f:\n            try:\n                dumpFunc(self.original, f)\n            except BaseException:\n                log.msg(\"could not save \" + self.name)\n                raise"),
    Silent("sob-names-by-str-format-and-aliases", SOB, "            filename = f\"{self.name}-2.{ext}\"\n            finalname = f\"{self.name}.{ext}\"\n", "            filename = \"{}-2.{}\".format(self.name, ext)\n            finalname = \"{}.{}\".format(self.name, ext)\n",
           more=[(SOB, "        self._saveTemp(filename, dumpFunc)\n", "        scratch, target = filename, finalname\n        self._saveTemp(scratch, dumpFunc)\n"),
                 (SOB, "        os.rename(filename, finalname)\n", "        os.rename(scratch, target)\n")]),
    Silent("sob-handle-opened-then-with", SOB, "        with open(filename, \"wb\") as f:\n            dumpFunc(self.original, f)", "        out = open(filename, \"wb\")\n        with out:\n            dumpFunc(self.original, out)"),
    Silent("os-replace", SOB, "        os.rename(filename, finalname)\n", "        os.replace(filename, finalname)\n"),
    Silent("sob-nested-platform-test", SOB, "        if runtime.platformType == \"win32\" and os.path.isfile(finalname):\n            os.remove(finalname)\n",
           "        if runtime.platformType == \"win32\":\n            if os.path.isfile(finalname):\n                os.remove(finalname)\n"),
    Silent("setContent-through-a-private-context-manager", FP, '        sib = self.temporarySibling(ext)\n        with sib.open("w") as f:\n            f.write(content)\n        if platform.isWindows() and exists(self.path):\n            os.unlink(self.path)\n        os.rename(sib.path, self.asBytesMode().path)\n', '        with self._replacing(ext) as out:\n            out.write(content)\n\n    @contextmanager\n    def _replacing(self, ext):\n        sib = self.temporarySibling(ext)\n        with sib.open("w") as f:\n            yield f\n        if platform.isWindows() and exists(self.path):\n            os.unlink(self.path)\n        os.rename(sib.path, self.asBytesMode().path)\n'),
    Silent("sob-rename-in-a-private-context-manager", SOB, '        self._saveTemp(filename, dumpFunc)\n        if runtime.platformType == "win32" and os.path.isfile(finalname):\n            os.remove(finalname)\n        os.rename(filename, finalname)\n', '        with self._swappedIn(filename, finalname):\n            self._saveTemp(filename, dumpFunc)\n', more=[(SOB, "    def save(self, ", '    @contextmanager\n    def _swappedIn(self, temporary, final):\n        yield\n        if runtime.platformType == "win32" and os.path.isfile(final):\n            os.remove(final)\n        os.rename(temporary, final)\n\n    def save(self, ')]),
    Silent("extension-default-as-conditional-expression", FP, "        if extension is None:\n            # It's not possible to provide a default type argument which is why\n            # the overload is required.\n            ext = self.path[0:0]  # type:ignore[assignment]\n        else:\n            ext = extension\n", "        ext = extension if extension is not None else self.path[0:0]\n"),
]
