"""C27 - redirect following resolves targets correctly and confines credentials."""
from __future__ import annotations

import ast

from sa.astx import NotConst, call_attr, call_name, const_eval, lin_expect, lincmp, module_consts, src, walk_local
from sa.selftest import Mutant, Silent
from sa.source import class_assigns
from sa.source import AnalysisError
from sa.props._lib_f import (InterpError, ModelRaised, call_repo, assign_sites, call_sites, from_here, local_assignments, named_calls, none_guard, param_names, truth_guard)

PROPERTY = "C27"
CL = "web/client.py"
Q = "twisted.web.client.RedirectAgent."
TECHNIQUE = "def-use pairing of continuation arguments + CFG dominance + constant tables"
EXPLANATION = (
    "Decides: (a) paired arguments in RedirectAgent._handleRedirect: the Location is resolved against requestURI (which defaults to uri only when None), "
    "the URI handed to the next hop's _handleResponse as requestURI is the very expression requested from the inner agent, uri/method/count are "
    "carried through by position at every hand-over (request -> _handleResponse -> _handleRedirect -> _handleResponse) (F27, fixed); (b) the limit test "
    "redirectCount >= limit raises before the request, the count passed on is redirectCount + 1 starting from 0, a missing Location raises, __init__ is interpreted for limits 0/1/2/20 (the configured value must be stored unchanged; no truthiness test on limit/count); (c) on the "
    "not-same-origin edge (and only the tests `headers`, `not sameOrigin`, the limit and the missing-Location test may dominate the comparison and the stripping) the headers sent are rebuilt by the comprehension that drops every name in _sensitiveHeaderNames, sameOrigin is the conjunction "
    "of scheme, host and port equality between the ORIGINAL uri and the target, the default set contains Authorization/Cookie/Proxy-Authorization in "
    "canonical capitalisation (evaluated with the Headers canonicaliser's rule) and configured names are canonicalised; (d) status tables of both agents: "
    "method-preserving codes need GET/HEAD else raise, see-other codes pass the literal GET, and 307/308 are never in a method-switching table "
    "(known finding: BrowserLikeRedirectAgent lists 308 there). Not decided: URL resolution arithmetic of urljoin."
)
ASSUMPTIONS = ["Deferred.addCallback(f, *a) calls f(result, *a)", "Headers.getAllRawHeaders yields canonically capitalised names (C24 checks the canonicaliser is applied on storage)"]


def _bind(call_args, fdef, skip):
    """positional args -> parameter names of fdef after skipping the first ``skip`` parameters"""
    ps = param_names(fdef)[skip:]
    return {p: a for p, a in zip(ps, call_args)}


def check(ctx):
    mod = ctx.mod(CL)
    hr = ctx.func(CL, "RedirectAgent._handleRedirect")
    hp = ctx.func(CL, "RedirectAgent._handleResponse")
    rq = ctx.func(CL, "RedirectAgent.request")
    g = ctx.cfg(hr)
    q = Q + "_handleRedirect"
    ps = param_names(hr)
    ctx.need(ps[:6] == ["self", "response", "method", "uri", "headers", "redirectCount"] and len(ps) >= 7, "_handleRedirect(self, response, method, uri, headers, redirectCount, requestURI)")
    RU = ps[6]
    reqs = named_calls(g, "self._agent.request")
    conts = [(n, c) for n, c in call_sites(g, lambda c: call_attr(c) == "addCallback" and c.args and src(c.args[0]) == "self._handleResponse")]
    gp = ctx.cfg(hp)
    qp = Q + "_handleResponse"
    hsites = named_calls(gp, "self._handleRedirect")

    # ---- (a) pairing ------------------------------------------------------------------------------
    with ctx.section("pairing"):
        pass
        reqs = named_calls(g, "self._agent.request")
        ctx.check(len(reqs) == 1, "pairing/next-hop", q, f"{len(reqs)} inner-agent request sites in _handleRedirect (one expected)")
        conts = [(n, c) for n, c in call_sites(g, lambda c: call_attr(c) == "addCallback" and c.args and src(c.args[0]) == "self._handleResponse")]
        ctx.check(len(conts) == 1, "pairing/next-hop", q + " | continuation", f"{len(conts)} continuations into _handleResponse (one expected)")
        for (rn, rc), (cn, cc) in zip(reqs, conts):
            b = _bind(cc.args[1:], hp, 2)
            target = rc.args[1] if len(rc.args) > 1 else None
            ok = RU in b and target is not None and src(b[RU]) == src(target) and isinstance(target, ast.Name)
            ctx.check(ok, "pairing/next-hop", ctx.construct(q, cc),
                      f"the URI remembered as the next hop's requestURI ({src(b.get(RU)) if b.get(RU) is not None else 'nothing'}) is not the URI just requested ({src(target)}): "
                      "a relative Location on the following hop is resolved against the wrong request (a -> http://b/p/q -> 'r' is fetched from a)")
            ctx.check(src(b.get("uri")) == "uri", "pairing/original-uri", ctx.construct(q, cc) + " | uri", "the original request URI is not carried on unchanged (same-origin test and errors refer to it)")
            ctx.check(src(b.get("method")) == src(rc.args[0]), "pairing/method", ctx.construct(q, cc) + " | method", "the method remembered for the next hop is not the method just used")
            w = g.must_precede([rn], [cn])
            ctx.check(w is None, "pairing/next-hop", ctx.construct(q, cc) + " | after request", "the continuation is attached to something other than the request just made", witness=g.describe(w))
            # the requested URI is the resolved location
            if isinstance(target, ast.Name):
                defs = local_assignments(hr, target.id)
                ok = len(defs) == 1 and isinstance(defs[0].value, ast.Call) and call_name(defs[0].value) == "self._resolveLocation"
                ctx.check(ok, "pairing/resolve-base", ctx.construct(q, rc), "the requested URI is not the Location resolved by _resolveLocation")
                if ok:
                    a = defs[0].value.args
                    ctx.check(len(a) == 2 and src(a[0]) == RU, "pairing/resolve-base", ctx.construct(q, defs[0]),
                              f"the Location is resolved against `{src(a[0]) if a else '?'}`, not against the URI of the request that received the redirect ({RU})")
                    lh = [s for s in walk_local(hr) if isinstance(s, ast.Assign) and isinstance(s.value, ast.Call) and call_attr(s.value) == "getRawHeaders" and
                          s.value.args and _const(s.value.args[0]) in (b"location", b"Location")]
                    ok2 = len(lh) == 1 and len(a) == 2 and src(a[1]) == f"{src(lh[0].targets[0])}[0]"
                    ctx.check(ok2, "pairing/resolve-base", ctx.construct(q, defs[0]) + " | location value", "the value resolved is not the first Location header of the response")
        # requestURI defaults to uri only when None
        for st in local_assignments(hr, RU):
            ok = all(none_guard(g, i, RU, True) for i in g.ids_of(st)) and src(st.value) == "uri"
            ctx.check(ok, "pairing/resolve-base", ctx.construct(q, st), f"{RU} is overwritten other than by the `is None -> uri` default (first hop)")
        d = hr.args.defaults
        ctx.check(len(d) >= 1 and isinstance(d[-1], ast.Constant) and d[-1].value is None, "pairing/resolve-base", q + " | default", f"{RU} does not default to None")
        # _resolveLocation(requestURI, location) -> _urljoin(requestURI, location)
        rl = ctx.func(CL, "RedirectAgent._resolveLocation")
        rets = [s for s in walk_local(rl) if isinstance(s, ast.Return)]
        ok = len(rets) == 1 and isinstance(rets[0].value, ast.Call) and call_name(rets[0].value) == "_urljoin" and [src(a) for a in rets[0].value.args] == param_names(rl)[1:3]
        ctx.check(ok, "pairing/resolve-base", Q + "_resolveLocation", "_resolveLocation does not join (base, location) in that order")

        # hand-overs in _handleResponse and request()
        gp = ctx.cfg(hp)
        qp = Q + "_handleResponse"
        hsites = named_calls(gp, "self._handleRedirect")
        ctx.check(len(hsites) == 2, "pairing/hand-over", qp, f"{len(hsites)} _handleRedirect call sites (two expected)")
        for n, c in hsites:
            b = _bind(c.args, hr, 1)
            same = all(src(b.get(p)) == p for p in ("response", "uri", "headers", "redirectCount", RU))
            ctx.check(same, "pairing/hand-over", ctx.construct(qp, c), "response/uri/headers/redirectCount/requestURI are not handed to _handleRedirect unchanged and in order")
        rcalls = [c for c in walk_local(rq) if isinstance(c, ast.Call) and call_attr(c) == "addCallback" and c.args and src(c.args[0]) == "self._handleResponse"]
        ctx.check(len(rcalls) == 1, "pairing/hand-over", Q + "request", "request() does not continue into _handleResponse exactly once")
        first = [c for c in walk_local(rq) if isinstance(c, ast.Call) and call_name(c) == "self._agent.request"]
        for c in rcalls:
            b = _bind(c.args[1:], hp, 2)
            ok = len(first) == 1 and src(b.get("method")) == src(first[0].args[0]) and src(b.get("uri")) == src(first[0].args[1]) and src(b.get("headers")) == src(first[0].args[2]) and RU not in b
            ctx.check(ok, "pairing/hand-over", ctx.construct(Q + "request", c), "the first hop does not remember the method/uri/headers it requested")
            ctx.check(_const(b.get("redirectCount")) == 0, "limit/count", ctx.construct(Q + "request", c) + " | count", "the redirect count does not start at 0")

    # ---- (b) limit / missing location --------------------------------------------------------------
    with ctx.section("limit"):
        pass
        raises = g.ids(lambda x: x.kind == "stmt" and isinstance(x.ast, ast.Raise))
        want = lin_expect({"redirectCount": 1, "self._redirectLimit": -1}, 0)
        lim = [r for r in raises if any(lincmp(g.node(t).ast, negate=(lab == "F")) == want for t, lab in g.edge_guards(r))]
        ctx.check(len(lim) == 1, "limit/test", q, "InfiniteRedirection is not raised exactly when redirectCount >= the redirect limit (at most `limit` redirects are followed)")
        for rn, rc in reqs:
            notyet = lin_expect({"redirectCount": -1, "self._redirectLimit": 1}, 1)
            ok = any(lincmp(g.node(t).ast, negate=(lab == "F")) == notyet for t, lab in g.edge_guards(rn))
            ctx.check(ok, "limit/test", ctx.construct(q, rc), "the next request is made without redirectCount < limit having been established")
        for cn, cc in conts:
            b = _bind(cc.args[1:], hp, 2)
            lc = lincmp(ast.Compare(left=b["redirectCount"], ops=[ast.GtE()], comparators=[ast.Constant(value=0)])) if "redirectCount" in b else None
            ctx.check(lc == lin_expect({"redirectCount": 1}, -1), "limit/count", ctx.construct(q, cc) + " | count", "the count passed to the next hop is not redirectCount + 1")
        noloc = [r for r in raises if any(src(g.node(t).ast) == "locationHeaders" and lab == "F" for t, lab in g.edge_guards(r))
                 or any(lincmp(g.node(t).ast, negate=(lab == "F")) == lin_expect({"len(locationHeaders)": -1}, 0) for t, lab in g.edge_guards(r))]
        ctx.check(len(noloc) == 1 and "RedirectWithNoLocation" in " ".join(src(s) for s in walk_local(hr) if isinstance(s, ast.Assign)), "limit/no-location", q,
                  "a redirect without a Location header is not refused")
        for r in raises:
            ctx.check("ResponseFailed" in src(g.node(r).ast), "limit/no-location", ctx.construct(q, g.node(r).ast), "the refusal is not reported as ResponseFailed")

    # ---- (b') the configured limit reaches the comparison unchanged, 0 included -------------------------------------------
    with ctx.section("limit-configured"):
        init = ctx.func(CL, "RedirectAgent.__init__")
        qi = Q + "__init__"
        consts = {}
        for k_, v_ in class_assigns(ctx.cls(CL, "RedirectAgent")).items():
            c_ = _const(v_)
            if c_ is not None:
                consts[k_] = c_

        class _SelfModel:
            _sa_model = True
        for k_, v_ in consts.items():
            setattr(_SelfModel, k_, v_)
        bad = []
        try:
            for L in (0, 1, 2, 20):
                st_ = {}
                call_repo(init, ["<agent>"], {"redirectLimit": L}, selfobj=_SelfModel(), funcs={"_canonicalHeaderName": lambda x: x},
                          env={"_defaultSensitiveHeaders": frozenset()}, state=st_)
                got = st_.get("self._redirectLimit", "<not stored>")
                if got != L or isinstance(got, bool):
                    bad.append((L, got))
        except (InterpError, ModelRaised) as e:
            raise AnalysisError(f"C27: RedirectAgent.__init__ is not interpretable: {e}")
        ctx.check(not bad, "limit/configured-value", qi, f"RedirectAgent(agent, redirectLimit={bad[0][0]}) stores _redirectLimit = {bad[0][1]!r}: the configured limit does not reach the "
                  "comparison unchanged (limit 0 = 'follow no redirect' silently becomes the default)" if bad else "")
        # truthiness on numeric values whose domain includes 0
        NUMERIC = {"redirectLimit", "redirectCount", "self._redirectLimit"}
        for fn_, qn_ in ((init, qi), (hr, q), (hp, qp)):
            for node in walk_local(fn_):
                ops = []
                if isinstance(node, ast.BoolOp):
                    ops = node.values
                elif isinstance(node, ast.UnaryOp) and isinstance(node.op, ast.Not):
                    ops = [node.operand]
                elif isinstance(node, (ast.If, ast.While, ast.IfExp)):
                    ops = [node.test]
                for o_ in ops:
                    if src(o_) in NUMERIC:
                        ctx.violation("limit/numeric-truthiness", ctx.construct(qn_, node if not isinstance(node, (ast.If, ast.While)) else node.test),
                                      f"`{src(o_)}` is tested for truthiness / or-defaulted although 0 is a meaningful value of it")
        ctx.ok("limit/numeric-truthiness", Q + "<limit and count are compared, never truth-tested>")

    # ---- (c) credentials -------------------------------------------------------------------------------
    with ctx.section("credentials"):
        pass
        so = [s for s in walk_local(hr) if isinstance(s, ast.Assign) and isinstance(s.targets[0], ast.Name) and isinstance(s.value, ast.BoolOp)]
        ctx.check(len(so) == 1, "credentials/same-origin", q, "the same-origin decision (one conjunction) was not found")
        strip_ok = False
        for s in so:
            flag = s.targets[0].id
            v = s.value
            attrs, objs = set(), set()
            ok = isinstance(v.op, ast.And)
            for e in v.values:
                if isinstance(e, ast.Compare) and len(e.ops) == 1 and isinstance(e.ops[0], ast.Eq) and isinstance(e.left, ast.Attribute) and isinstance(e.comparators[0], ast.Attribute) \
                        and e.left.attr == e.comparators[0].attr:
                    attrs.add(e.left.attr)
                    objs.add(frozenset([src(e.left.value), src(e.comparators[0].value)]))
                else:
                    ok = False
            ok = ok and attrs == {"scheme", "host", "port"} and len(objs) == 1
            ctx.check(ok, "credentials/same-origin", ctx.construct(q, s), f"same origin is not the conjunction of scheme, host and port equality (compares {sorted(attrs)})")
            if ok:
                a, b_ = sorted(next(iter(objs)))
                defs = {}
                for nm in (a, b_):
                    ds = [x for x in local_assignments(hr, nm)]
                    if len(ds) == 1 and isinstance(ds[0].value, ast.Call) and call_name(ds[0].value) == "URI.fromBytes" and len(ds[0].value.args) == 1:
                        defs[nm] = src(ds[0].value.args[0])
                tgt = src(reqs[0][1].args[1]) if reqs else "location"
                ok2 = sorted(defs.values()) == sorted(["uri", tgt])
                if not ok2 and sorted(defs.values()) == sorted([RU, tgt]) and reqs and conts:
                    # comparing with the previous hop is equivalent iff the (possibly stripped) headers just sent are the ones carried on:
                    # then unstripped headers only ever travel along a chain of pairwise same-origin hops starting at the original
                    carried = _bind(conts[0][1].args[1:], hp, 2).get("headers")
                    ok2 = carried is not None and len(reqs[0][1].args) > 2 and src(carried) == src(reqs[0][1].args[2])
                ctx.check(ok2, "credentials/same-origin", ctx.construct(q, s) + " | operands",
                          f"the origins compared are those of {sorted(defs.values())}: sensitive headers are not confined to the ORIGINAL request's origin "
                          f"(compare uri with {tgt}, or the previous hop while carrying the stripped headers on)")
            # stripping on the not-same-origin edge
            for rn, rc in reqs:
                hname = src(rc.args[2]) if len(rc.args) > 2 else None
                strips = []
                for n, st in assign_sites(g, lambda x: src(x) == hname):
                    val = st.value if isinstance(st, ast.Assign) else None
                    comp = next((x for x in ast.walk(val) if isinstance(x, (ast.DictComp, ast.ListComp, ast.GeneratorExp))), None) if val is not None else None
                    if comp is None or len(comp.generators) != 1 or call_attr(comp.generators[0].iter) != "getAllRawHeaders":
                        continue
                    gen = comp.generators[0]
                    name_var = src(gen.target.elts[0]) if isinstance(gen.target, ast.Tuple) else None
                    filt = [i for i in gen.ifs if isinstance(i, ast.Compare) and len(i.ops) == 1 and isinstance(i.ops[0], ast.NotIn) and src(i.left) == name_var and
                            src(i.comparators[0]) == "self._sensitiveHeaderNames"]
                    ctx.check(len(filt) == 1 and len(gen.ifs) == 1, "credentials/filter", ctx.construct(q, st),
                              "the rebuilt header set is not exactly `every header whose name is not in self._sensitiveHeaderNames`")
                    if filt:
                        strips.append(n)
                ctx.check(bool(strips), "credentials/stripped-cross-origin", q + " | strip site", "no statement rebuilds the headers without the sensitive names")
                tests = [t for t in g.ids(lambda x: x.kind == "test") if src(g.node(t).ast) == flag]
                ctx.check(len(tests) == 1, "credentials/stripped-cross-origin", q + " | test", "the same-origin flag is not tested exactly once")
                for t in tests:
                    cross = [d for d, l in g.succ[t] if l == "F"]
                    w = g.must_pass(cross, strips, to=[rn], exc=False, strict=False) if cross and cross[0] not in strips else None
                    ctx.check(w is None and bool(cross), "credentials/stripped-cross-origin", ctx.construct(q, rc),
                              "on the cross-origin edge the request can be sent with the unfiltered headers (Authorization/Cookie leak to another origin)", witness=g.describe(w))
                    strip_ok = True
                # the only way around the same-origin test is `headers` being falsy / None
                def _hdr_absent_edge(a_, lab):
                    e = g.node(a_).ast
                    if g.node(a_).kind != "test":
                        return False
                    if src(e) in (hname, "headers"):
                        return lab == "F"
                    for nm in (hname, "headers"):
                        p_ = _cmp_none(e, nm)
                        if p_ is not None:
                            return (lab == "T") == p_
                    return False
                w = g.path([g.entry], [rn], avoid=tests, edge_ok=lambda a_, b2, l: l != "exc" and not _hdr_absent_edge(a_, l))
                ctx.check(w is None, "credentials/stripped-cross-origin", ctx.construct(q, rc) + " | bypass",
                          "a redirect that carries headers can reach the next request without the same-origin decision (e.g. a shortcut for 'relative' Locations: "
                          "`//other.example/x` changes the host without containing '://'): sensitive headers go to a foreign origin", witness=g.describe(w))
                # exact guard set: only 'headers present', 'not same origin', the limit test and the missing-Location test may decide whether the
                # comparison and the stripping run
                lh = [x for x in walk_local(hr) if isinstance(x, ast.Assign) and isinstance(x.value, ast.Call) and call_attr(x.value) == "getRawHeaders" and
                      x.value.args and _const(x.value.args[0]) in (b"location", b"Location")]
                lhvar = src(lh[0].targets[0]) if len(lh) == 1 else "locationHeaders"
                limit_forms = (lin_expect({"redirectCount": 1, "self._redirectLimit": -1}, 0), lin_expect({"redirectCount": -1, "self._redirectLimit": 1}, 1))

                def _allowed(e):
                    if src(e) in (hname, "headers", flag):
                        return True
                    if any(_cmp_none(e, nm) is not None for nm in (hname, "headers", RU)):
                        return True
                    if lincmp(e) in limit_forms or lincmp(e, negate=True) in limit_forms:
                        return True
                    reads = {x.id for x in ast.walk(e) if isinstance(x, ast.Name)}
                    if lhvar in reads and reads <= {lhvar, "len"} and not any(isinstance(x, ast.Subscript) for x in ast.walk(e)):
                        return True     # "is there a Location header at all"
                    return False
                cmp_sites = [i for x in so for i in g.ids_of(x)] + [i for x in walk_local(hr) if isinstance(x, ast.Assign) and isinstance(x.value, ast.Call) and
                                                                 call_name(x.value) == "URI.fromBytes" for i in g.ids_of(x)]
                for site in sorted(set(strips) | set(cmp_sites)):
                    extra = [src(g.node(t).ast) for t, lab in g.edge_guards(site) if not _allowed(g.node(t).ast)]
                    ctx.check(not extra, "credentials/exact-guards", ctx.construct(q, g.node(site).ast),
                              f"whether the origin comparison / header stripping runs also depends on {extra}: it must run for EVERY redirect that carries headers, "
                              "judged on the resolved location only (a scheme-relative Location `//b.example/x` has no '://' yet leaves the origin)")
        # default set and canonicalisation
        dflt = mod.module_assign("_defaultSensitiveHeaders")
        try:
            names = set(const_eval(dflt)) if dflt is not None else None
        except NotConst:
            names = None
        ctx.need(names is not None, "_defaultSensitiveHeaders constant")
        need = {b"Authorization", b"Cookie", b"Proxy-Authorization"}
        ctx.check(need <= names, "credentials/default-names", "twisted.web.client._defaultSensitiveHeaders", f"missing from the default sensitive set: {sorted(need - names)}")
        hh = ctx.mod("web/http_headers.py")
        cm = class_assigns(ctx.cls("web/http_headers.py", "_NameEncoder")).get("_caseMappings")
        try:
            case = const_eval(cm) if cm is not None else {}
        except NotConst:
            case = {}

        def canon(nm):
            r = b"-".join(w.capitalize() for w in nm.split(b"-"))
            return case.get(r, r)
        bad = sorted(n for n in names if canon(n) != n)
        ctx.check(not bad, "credentials/default-names", "twisted.web.client._defaultSensitiveHeaders | canonical form",
                  f"{bad} are not in the canonical capitalisation Headers uses for stored names: the `not in` filter never matches them")
        ca = mod.module_assign("_canonicalHeaderName")
        ctx.check(ca is not None and src(ca) == "_nameEncoder.encode", "credentials/configured-names", "twisted.web.client._canonicalHeaderName", "_canonicalHeaderName is not Headers' own name canonicaliser")
        init = ctx.func(CL, "RedirectAgent.__init__")
        st = [s for s in walk_local(init) if isinstance(s, ast.Assign) and src(s.targets[0]) == "self._sensitiveHeaderNames"]
        ok = False
        if len(st) == 1 and isinstance(st[0].value, ast.Name):
            loc = st[0].value.id
            ds = local_assignments(init, loc)
            built = len(ds) == 1 and isinstance(ds[0].value, (ast.SetComp, ast.ListComp)) and isinstance(ds[0].value.elt, ast.Call) and \
                call_name(ds[0].value.elt) == "_canonicalHeaderName" and src(ds[0].value.generators[0].iter) == param_names(init)[3]
            upd = any(isinstance(c, ast.Call) and call_name(c) in (f"{loc}.update",) and [src(a) for a in c.args] == ["_defaultSensitiveHeaders"] for c in walk_local(init))
            ok = built and upd
        ctx.check(ok, "credentials/configured-names", Q + "__init__", "configured sensitive names are not canonicalised like stored header names and united with the defaults")

    # ---- (d) tables and method rule -----------------------------------------------------------------------
    with ctx.section("tables"):
        pass
        env = module_consts(ctx.mod("web/_responses.py"))
        httpenv = {"http." + k: v for k, v in env.items()}
        expected = {"RedirectAgent": ({301, 302, 307, 308}, {303}), "BrowserLikeRedirectAgent": ({307}, {301, 302, 303})}
        for cname, (keep, switch_doc) in expected.items():
            ca = class_assigns(ctx.cls(CL, cname))
            tabs = {}
            for t in ("_redirectResponses", "_seeOtherResponses"):
                v = ca.get(t)
                try:
                    tabs[t] = {_subst_http(e, env) for e in v.elts} if isinstance(v, (ast.List, ast.Tuple, ast.Set)) else None
                except NotConst:
                    tabs[t] = None
                ctx.need(tabs[t] is not None, f"{cname}.{t} constant table")
            qq = f"twisted.web.client.{cname}."
            ctx.check(not (tabs["_redirectResponses"] & tabs["_seeOtherResponses"]), "tables/disjoint", qq + "<tables>", "a status code is in both tables")
            for code in (307, 308):
                ctx.check(code not in tabs["_seeOtherResponses"], "tables/method-preserved-307-308", qq + f"_seeOtherResponses | {code}",
                          f"{code} is handled as see-other: the method is switched to GET although {code} must preserve it (RFC 9110 15.4.8/15.4.9)")
            for code in (301, 302, 303, 307, 308):
                ctx.check(code in tabs["_redirectResponses"] | tabs["_seeOtherResponses"], "tables/complete", qq + f"<tables> | {code}", f"redirect status {code} is not followed")
            extra = tabs["_seeOtherResponses"] - switch_doc - {307, 308}
            ctx.check(not extra, "tables/documented-switch", qq + "_seeOtherResponses", f"{sorted(extra)} switch the method to GET although the class does not document it")
            ctx.check(303 in tabs["_seeOtherResponses"], "tables/documented-switch", qq + "_seeOtherResponses | 303", "303 See Other does not switch to GET")
        # method rule in _handleResponse
        for n, c in hsites:
            b = _bind(c.args, hr, 1)
            m = b.get("method")
            in_keep = any(src(gp.node(t).ast) == "response.code in self._redirectResponses" and lab == "T" for t, lab in gp.edge_guards(n))
            in_switch = any(src(gp.node(t).ast) == "response.code in self._seeOtherResponses" and lab == "T" for t, lab in gp.edge_guards(n))
            if in_keep:
                ok = src(m) == "method" and any(isinstance(gp.node(t).ast, ast.Compare) and isinstance(gp.node(t).ast.ops[0], (ast.In, ast.NotIn)) and src(gp.node(t).ast.left) == "method" and
                                                (isinstance(gp.node(t).ast.ops[0], ast.In) == (lab == "T")) and _const(gp.node(t).ast.comparators[0]) is not None and
                                                set(_const(gp.node(t).ast.comparators[0])) == {b"GET", b"HEAD"} for t, lab in gp.edge_guards(n))
                ctx.check(ok, "method/preserved", ctx.construct(qp, c), "a method-preserving redirect is followed with a changed method or for a method other than GET/HEAD")
            elif in_switch:
                ctx.check(_const(m) == b"GET", "method/see-other-get", ctx.construct(qp, c), "a see-other redirect is not followed with GET")
            else:
                ctx.violation("method/preserved", ctx.construct(qp, c), "a redirect is followed outside the two status tables")
        rets = gp.ids(lambda x: x.kind == "stmt" and isinstance(x.ast, ast.Return) and src(x.ast.value) == "response")
        ok = len(rets) == 1 and all(any(src(gp.node(t).ast) == f"response.code in self.{tb}" and lab == "F" for t, lab in gp.edge_guards(rets[0])) for tb in ("_redirectResponses", "_seeOtherResponses"))
        ctx.check(ok, "method/preserved", qp + " | non-redirect", "a response is returned to the caller although its status is in a redirect table (or the reverse)")


def _cmp_none(e, name):
    """test is `name is None` / `name is not None` (or ==/!=): True when test-true means None, False when it means not-None, else None"""
    if isinstance(e, ast.Compare) and len(e.ops) == 1 and {src(e.left), src(e.comparators[0])} == {name, "None"}:
        if isinstance(e.ops[0], (ast.Is, ast.Eq)):
            return True
        if isinstance(e.ops[0], (ast.IsNot, ast.NotEq)):
            return False
    return None


def _const(node):
    if node is None:
        return None
    try:
        return const_eval(node)
    except NotConst:
        return None


def _subst_http(e, env):
    if isinstance(e, ast.Attribute) and isinstance(e.value, ast.Name) and e.value.id == "http" and e.attr in env:
        return env[e.attr]
    return const_eval(e, env)


MUTANTS = [
    Mutant("revert-F27-resolve-against-original", CL, "        location = self._resolveLocation(requestURI, locationHeaders[0])", "        location = self._resolveLocation(uri, locationHeaders[0])"),
    Mutant("revert-F27-next-hop-forgets-location", CL, "            self._handleResponse, method, uri, headers, redirectCount + 1, location\n", "            self._handleResponse, method, uri, headers, redirectCount + 1\n"),
    Mutant("next-hop-remembers-request-uri", CL, "            self._handleResponse, method, uri, headers, redirectCount + 1, location\n", "            self._handleResponse, method, uri, headers, redirectCount + 1, requestURI\n"),
    Mutant("limit-zero-falls-back-to-default", CL, "        self._redirectLimit = redirectLimit\n", "        self._redirectLimit = redirectLimit if redirectLimit else 20\n"),
    Mutant("limit-off-by-one", CL, "        if redirectCount >= self._redirectLimit:", "        if redirectCount > self._redirectLimit:"),
    Mutant("count-not-incremented", CL, "headers, redirectCount + 1, location\n", "headers, redirectCount, location\n"),
    Mutant("origin-check-skipped-for-locations-without-scheme", CL, "        if headers:\n            parsedURI = URI.fromBytes(uri)", "        if headers and locationHeaders[0].find(b\":\") != -1:\n            parsedURI = URI.fromBytes(uri)"),
    Mutant("origin-check-only-for-absolute-location", CL, "        if headers:\n            parsedURI = URI.fromBytes(uri)", "        if headers and not locationHeaders[0].startswith(b\"/\"):\n            parsedURI = URI.fromBytes(uri)"),
    Mutant("strip-on-same-origin", CL, "            if not sameOrigin:\n                headers = Headers(", "            if sameOrigin:\n                headers = Headers("),
    Mutant("same-origin-ignores-port", CL, "                and (parsedURI.host == parsedLocation.host)\n                and (parsedURI.port == parsedLocation.port)\n", "                and (parsedURI.host == parsedLocation.host)\n"),
    Mutant("previous-hop-origin-and-original-headers-carried", CL, "            parsedURI = URI.fromBytes(uri)\n            parsedLocation", "            parsedURI = URI.fromBytes(requestURI)\n            parsedLocation",
           more=[(CL, "        if headers:\n            parsedURI = URI.fromBytes(", "        sendHeaders = headers\n        if headers:\n            parsedURI = URI.fromBytes("),
                 (CL, "            if not sameOrigin:\n                headers = Headers(", "            if not sameOrigin:\n                sendHeaders = Headers("),
                 (CL, "        deferred = self._agent.request(method, location, headers)", "        deferred = self._agent.request(method, location, sendHeaders)")]),
    Mutant("same-origin-or", CL, "                (parsedURI.scheme == parsedLocation.scheme)\n                and (parsedURI.host == parsedLocation.host)", "                (parsedURI.scheme == parsedLocation.scheme)\n                or (parsedURI.host == parsedLocation.host)"),
    Mutant("default-name-lowercase", CL, "        b\"Authorization\",\n        b\"Cookie\",", "        b\"authorization\",\n        b\"Cookie\","),
    Mutant("default-drops-proxy-authorization", CL, "        b\"Proxy-Authorization\",\n", ""),
    Mutant("configured-names-not-canonicalised", CL, "        sensitive = {_canonicalHeaderName(each) for each in sensitiveHeaderNames}", "        sensitive = set(sensitiveHeaderNames)"),
    Mutant("filter-inverted", CL, "                        if rawName not in self._sensitiveHeaderNames", "                        if rawName in self._sensitiveHeaderNames"),
    Mutant("see-other-keeps-method", CL, "            return self._handleRedirect(\n                response, b\"GET\", uri, headers, redirectCount, requestURI\n            )",
           "            return self._handleRedirect(\n                response, method, uri, headers, redirectCount, requestURI\n            )"),
    Mutant("strict-agent-redirects-any-method", CL, "            if method not in (b\"GET\", b\"HEAD\"):\n                err = error.PageRedirect(response.code, location=uri)\n                raise ResponseFailed([Failure(err)], response)\n", ""),
    Mutant("strict-agent-307-as-see-other", CL, "        http.FOUND,\n        http.TEMPORARY_REDIRECT,\n        http.PERMANENT_REDIRECT,\n    ]\n    _seeOtherResponses = [http.SEE_OTHER]",
           "        http.FOUND,\n        http.PERMANENT_REDIRECT,\n    ]\n    _seeOtherResponses = [http.SEE_OTHER, http.TEMPORARY_REDIRECT]"),
    Mutant("handover-drops-request-uri", CL, "            return self._handleRedirect(\n                response, method, uri, headers, redirectCount, requestURI\n            )",
           "            return self._handleRedirect(\n                response, method, uri, headers, redirectCount\n            )"),
]
SILENT = [
    Silent("limit-none-means-default", CL, "        self._redirectLimit = redirectLimit\n", "        self._redirectLimit = 20 if redirectLimit is None else redirectLimit\n"),
    Silent("headers-none-test", CL, "        if headers:\n            parsedURI = URI.fromBytes(uri)", "        if headers is not None and headers:\n            parsedURI = URI.fromBytes(uri)"),
    Silent("same-origin-against-previous-hop-stripped-headers-carried", CL, "            parsedURI = URI.fromBytes(uri)\n            parsedLocation", "            parsedURI = URI.fromBytes(requestURI)\n            parsedLocation"),
    Silent("limit-flipped", CL, "        if redirectCount >= self._redirectLimit:", "        if not redirectCount < self._redirectLimit:"),
    Silent("rename-location-local", CL, "        location = self._resolveLocation(requestURI, locationHeaders[0])", "        target = self._resolveLocation(requestURI, locationHeaders[0])",
           more=[(CL, "            parsedLocation = URI.fromBytes(location)", "            parsedLocation = URI.fromBytes(target)"),
                 (CL, "        deferred = self._agent.request(method, location, headers)", "        deferred = self._agent.request(method, target, headers)"),
                 (CL, "headers, redirectCount + 1, location\n", "headers, redirectCount + 1, target\n")]),
    Silent("same-origin-reordered", CL, "                (parsedURI.scheme == parsedLocation.scheme)\n                and (parsedURI.host == parsedLocation.host)\n                and (parsedURI.port == parsedLocation.port)",
           "                (parsedLocation.port == parsedURI.port)\n                and (parsedURI.host == parsedLocation.host)\n                and (parsedURI.scheme == parsedLocation.scheme)"),
    Silent("count-one-plus", CL, "headers, redirectCount + 1, location\n", "headers, 1 + redirectCount, location\n"),
    Silent("extra-default-name", CL, "        b\"Proxy-Authorization\",\n", "        b\"Proxy-Authorization\",\n        b\"X-Api-Key\",\n"),
]
