"""C27 - redirect following resolves targets correctly and confines credentials."""
from __future__ import annotations

import ast
from urllib.parse import urldefrag, urljoin, urlsplit

from sa.astx import NotConst, call_attr, call_name, const_eval, lin_expect, lincmp, module_consts, src, walk_local
from sa.source import class_assigns
from sa.selftest import Mutant, Silent
from sa.source import AnalysisError
from sa.props._lib_f import (Abstain, InterpError, MDeferred, MExc, MFailure, ModelRaised, NullLogger, World, assign_sites, call_sites, from_here, named_calls, norm_method,
                             param_names, structural)

PROPERTY = "C27"
CL = "web/client.py"
HH = "web/http_headers.py"
AB = "web/_abnf.py"
Q = "twisted.web.client."
TECHNIQUE = "limit-test dominance, def-use pairing and must-pass-through stripping on the normalised agent; status x method table exhaustively; bounded redirect histories"
EXPLANATION = (
    "STRUCTURAL on the normalised RedirectAgent: the follow-up request is dominated by `redirectCount < limit`, the count handed on is redirectCount + 1 and starts at 0; the method handed to the next hop's handler is the very expression the follow-up request is issued with (def-use); the URI "
    "requested is the one remembered for the next hop and is _resolveLocation(<URI of the receiving request>, Location) (F27); on every path with headers the request is reached "
    "only through the `not in _sensitiveHeaderNames` rebuild or the same-origin edge of a scheme/host/port test (must-pass-through); status tables: disjoint, complete, 307/308 "
    "never method-switching (F27b known), default sensitive names present.  FINITE-EXHAUSTIVE: every status-table member / non-member x method class (GET, HEAD, other) of both "
    "agents; limit classes 0 / 1 / 2 / 20 / default through __init__.  BOUNDED second layer (bounded evidence only for: URL resolution over chains, exact limit counts, credential "
    "confinement over origin histories incl. configured names, the method over chains of 2-3 redirects from GET/HEAD/POST): "
    "RedirectAgent / BrowserLikeRedirectAgent are instantiated as model objects whose methods are the repository's own functions (interpreted over the AST; the inner "
    "agent, Deferred, Headers, URI parsing are synchronous checker models, urljoin is the stdlib's; nothing of twisted is imported or run) and driven through redirect "
    "histories; every request issued to the inner agent is compared with an oracle: (a) each target is the Location resolved against the URI of the request that "
    "received the redirect, for absolute, relative, dot-segment and scheme-relative Locations over chains of up to 4 hops (F27, fixed); (b) with limit L exactly L "
    "redirects are followed, then ResponseFailed, for L in 0,1,2,3 and the default, and a redirect without Location fails; (c) Authorization / Cookie / "
    "Proxy-Authorization and configured names (in any capitalisation) are never sent to an origin (scheme, host, port) other than the original request's, are kept "
    "on same-origin hops, and other headers always survive - including scheme-relative and port-changing targets; also with two requests IN FLIGHT on one agent whose redirects "
    "arrive in either order (structurally: nothing the redirect chain reads is an attribute of the agent that request() or the chain itself writes - every hop works on its own arguments); (d) per status code and method of both agents: "
    "followed / refused, method kept for 307/308 and switched to GET exactly for 303 (and 301/302 of the browser-like agent); F27b (the browser-like "
    "agent switched POST to GET on 308) is fixed; its revert is a mutant. Not decided: URL resolution arithmetic of urljoin itself."
)
RULE_KINDS = {
    "limit/dominates-follow": "structural", "limit/count-increases": "structural", "pairing/resolve-base": "structural", "pairing/next-hop-structural": "structural",
    "pairing/method-handed-on": "structural", "method/multi-hop": "bounded",
    "credentials/must-pass-strip": "structural", "credentials/default-names": "structural", "credentials/per-request-state": "structural", "credentials/concurrent-requests": "bounded", "tables/": "structural",
    "method/status-table": "finite-exhaustive", "limit/configured-value": "finite-exhaustive",
    "pairing/next-hop": "bounded", "pairing/previous-response": "bounded", "limit/follows-at-most": "bounded", "limit/no-location": "bounded", "credentials/confined-to-origin": "bounded",
}
ASSUMPTIONS = ["Deferred.addCallback(f, *a) calls f(result, *a); the inner agent answers each request once", "urllib.parse.urljoin/urldefrag are the functions twisted.web.client imports"]

CODES = {"MOVED_PERMANENTLY": 301, "FOUND": 302, "SEE_OTHER": 303, "TEMPORARY_REDIRECT": 307, "PERMANENT_REDIRECT": 308, "OK": 200}


class _NS:
    _sa_model = True

    def __init__(self, **kw):
        self.__dict__.update(kw)


class _Headers:
    """model of Headers: names are kept in the canonical capitalisation the real class stores (computed by interpreting its own _NameEncoder.encode)"""
    _sa_model = True
    canon = staticmethod(lambda n: n)

    def __init__(self, raw=None):
        self.raw = {}
        for k, v in (raw or {}).items():
            self.raw[_Headers.canon(k)] = list(v)

    def getRawHeaders(self, name, default=None):
        return list(self.raw.get(_Headers.canon(name), [])) or default

    def hasHeader(self, name):
        return _Headers.canon(name) in self.raw

    def getAllRawHeaders(self):
        return list(self.raw.items())

    def copy(self):
        return _Headers(self.raw)


class _Response:
    _sa_model = True
    _sa_settable = True

    def __init__(self, code, location=None):
        self.code = code
        self.headers = _Headers({b"location": [location]} if location is not None else {})
        self.previousResponse = None

    def setPreviousResponse(self, r):
        self.previousResponse = r


class _Inner:
    """the wrapped agent: records every request and answers from a script"""
    _sa_model = True

    def __init__(self, script):
        self.script = list(script)
        self.calls = []

    def request(self, method, uri, headers=None, bodyProducer=None):
        self.calls.append((method, uri, dict(headers.getAllRawHeaders()) if headers is not None else None, bodyProducer))
        d = MDeferred()
        d.callback(self.script.pop(0) if self.script else _Response(200))
        return d


def _uri_from_bytes(uri, defaultPort=None):
    p = urlsplit(uri)
    port = p.port if p.port is not None else (defaultPort if defaultPort is not None else (443 if p.scheme == b"https" else 80))
    return _NS(scheme=p.scheme, netloc=p.netloc, host=p.hostname.encode() if isinstance(p.hostname, str) else p.hostname, port=port, path=p.path)


def _origin(uri):
    u = _uri_from_bytes(uri)
    return (u.scheme, u.host, u.port)


def _world(ctx):
    mod = ctx.mod(CL)
    for fn in ("RedirectAgent.__init__", "RedirectAgent.request", "RedirectAgent._handleRedirect", "RedirectAgent._handleResponse", "RedirectAgent._resolveLocation", "_urljoin"):
        ctx.func(CL, fn)
    abnf = World(ctx.mod(AB))
    hw = World(ctx.mod(HH), externals={"_istoken": abnf.resolve("_istoken")})
    enc = hw.new("_NameEncoder")
    _Headers.canon = staticmethod(lambda n: enc.encode(n))
    http = _NS(**CODES)
    error = _NS(InfiniteRedirection=lambda *a, **k: MExc("InfiniteRedirection", a), PageRedirect=lambda *a, **k: MExc("PageRedirect", a),
                RedirectWithNoLocation=lambda *a, **k: MExc("RedirectWithNoLocation", a))
    env = {"http": http, "error": error, "_canonicalHeaderName": _Headers.canon}
    ext = {"ResponseFailed": lambda *a, **k: MExc("ResponseFailed", a), "Headers": lambda raw=None: _Headers(raw), "URI.fromBytes": _uri_from_bytes,
           "urljoin": urljoin, "urldefrag": lambda u: tuple(urldefrag(u)), "implementer": lambda *a: (lambda c: c), "Logger": lambda *a, **k: NullLogger()}
    return World(mod, externals=ext, env=env)


def _run(w, cls, script, method=b"GET", uri=b"http://a.example/x/y", headers=None, **agent_kw):
    inner = _Inner(script)
    agent = w.new(cls, inner, **agent_kw)
    box = []
    try:
        d = agent.request(method, uri, headers)
    except ModelRaised as e:
        return inner, ("raised", e.name)
    if not isinstance(d, MDeferred):
        return inner, ("not-a-deferred", d)
    d.addBoth(lambda r: (box.append(r), r)[1])
    if not box:
        return inner, ("pending", None)
    r = box[0]
    if isinstance(r, MFailure):
        inner_exc = r.value.args[0][0].value.name if r.value.name == "ResponseFailed" and r.value.args and r.value.args[0] and isinstance(r.value.args[0][0], MFailure) else None
        return inner, ("fail", r.value.name, inner_exc)
    return inner, ("ok", r)


# ==================================================================================================================================
# STRUCTURAL layer on the normalised RedirectAgent (private helpers inlined, pure temporaries substituted)
# ==================================================================================================================================
KEEP_AGENT = {"request", "_handleRedirect", "_handleResponse", "_resolveLocation", "__init__"}


def _bind(call_args, fdef, skip):
    ps = param_names(fdef)[skip:]
    return {p_: a_ for p_, a_ in zip(ps, call_args)}


def _s_redirect(ctx):
    hr = norm_method(ctx, CL, "RedirectAgent", "_handleRedirect", keep=KEEP_AGENT)
    hp = norm_method(ctx, CL, "RedirectAgent", "_handleResponse", keep=KEEP_AGENT)
    g = ctx.cfg(hr)
    q = Q + "RedirectAgent._handleRedirect"
    ps = param_names(hr)
    if ps[:6] != ["self", "response", "method", "uri", "headers", "redirectCount"] or len(ps) < 7:
        raise Abstain(f"unexpected signature {ps}")
    RU = ps[6]
    reqs = named_calls(g, "self._agent.request")
    conts = [(n, c) for n, c in call_sites(g, lambda c: call_attr(c) == "addCallback" and c.args and src(c.args[0]) == "self._handleResponse")]
    if len(reqs) != 1 or len(conts) != 1:
        raise Abstain(f"{len(reqs)} inner-agent requests / {len(conts)} continuations in the normalised _handleRedirect")
    rn, rc = reqs[0]
    cn, cc = conts[0]
    # (1) the limit test dominates the follow-up request; the count strictly increases
    follow = lin_expect({"redirectCount": -1, "self._redirectLimit": 1}, 1)        # redirectCount < limit
    limit_tests = [(t, lab) for t, lab in g.edge_guards(rn) if lincmp(g.node(t).ast) is not None and "redirectCount" in src(g.node(t).ast) and "_redirectLimit" in src(g.node(t).ast)]
    if not limit_tests:
        all_tests = [t for t in g.ids(lambda x: x.kind == "test") if lincmp(g.node(t).ast) is not None and "redirectCount" in src(g.node(t).ast) and "_redirectLimit" in src(g.node(t).ast)]
        if not all_tests:
            raise Abstain("no comparison of redirectCount with the limit in the normalised _handleRedirect")
        # the limit test does not dominate the request syntactically: evaluate the paths (a verdict recorded in a flag under the test and acted on later)
        from sa.props._lib_f import flag_feasible_path
        unchecked = flag_feasible_path(g, [g.entry], [rn], avoid=all_tests)
        over = []
        for t in all_tests:
            lab_follow = "T" if lincmp(g.node(t).ast) == follow else ("F" if lincmp(g.node(t).ast, negate=True) == follow else None)
            if lab_follow is None:
                over.append((t, None))
            elif flag_feasible_path(g, [g.entry], [rn], must_take=(t, "F" if lab_follow == "T" else "T")):
                over.append((t, lab_follow))
        ctx.check(not unchecked and not over, "limit/dominates-follow", q + " | self._agent.request(...)",
                  ("a path reaches the next request without comparing redirectCount with the limit" if unchecked else
                   f"the next request can be reached although `{src(g.node(over[0][0]).ast)}` said the limit is reached (at most `limit` redirects may be followed)") if (unchecked or over) else "",
                  detail="path-sensitive: the limit verdict is carried in a local flag")
    else:
        ok = any(lincmp(g.node(t).ast, negate=(lab == "F")) == follow for t, lab in limit_tests)
        ctx.check(ok, "limit/dominates-follow", q + " | self._agent.request(...)",
                  f"the request is made under {[(src(g.node(t).ast), lab) for t, lab in limit_tests]}, which is not `redirectCount < limit` (at most `limit` redirects may be followed)")
    b = _bind(cc.args[1:], hp, 2)
    if "redirectCount" not in b:
        raise Abstain("the continuation does not pass redirectCount positionally")
    lc = lincmp(ast.Compare(left=b["redirectCount"], ops=[ast.GtE()], comparators=[ast.Constant(value=0)]))
    ctx.check(lc == lin_expect({"redirectCount": 1}, -1), "limit/count-increases", q + " | count handed to the next hop", f"the next hop is given `{src(b['redirectCount'])}`, not redirectCount + 1")
    rq = norm_method(ctx, CL, "RedirectAgent", "request", keep=KEEP_AGENT)
    first = [c for c in walk_local(rq) if isinstance(c, ast.Call) and call_attr(c) == "addCallback" and c.args and src(c.args[0]) == "self._handleResponse"]
    if len(first) == 1:
        b0 = _bind(first[0].args[1:], hp, 2)
        ctx.check("redirectCount" in b0 and isinstance(b0["redirectCount"], ast.Constant) and b0["redirectCount"].value == 0, "limit/count-increases", Q + "RedirectAgent.request | initial count",
                  "the redirect count does not start at 0")
    # (1b) the method the next hop's handler is told is the method the follow-up request was issued with (same value: def-use)
    issued = rc.args[0] if rc.args else None
    if issued is None or "method" not in b:
        raise Abstain("the follow-up request / the continuation do not pass the method positionally")
    told = b["method"]
    if src(issued) == src(told):
        redefs = [s_ for s_ in walk_local(hr) if isinstance(s_, (ast.Assign, ast.AugAssign, ast.AnnAssign)) and isinstance(issued, ast.Name)
                  and any(isinstance(t, ast.Name) and t.id == issued.id for t in (s_.targets if isinstance(s_, ast.Assign) else [s_.target]))]
        between = [s_ for s_ in redefs if g.path([rn], g.ids_of(s_), strict=True) is not None and g.path(g.ids_of(s_), [cn], strict=True) is not None]
        ctx.check(not between, "pairing/method-handed-on", q + " | method of the follow-up request vs continuation",
                  f"`{src(issued)}` is re-assigned between the follow-up request and the continuation: the next hop is told another method than the one requested")
    elif isinstance(issued, (ast.Name, ast.Constant, ast.IfExp)) and isinstance(told, (ast.Name, ast.Constant, ast.IfExp)):
        ctx.violation("pairing/method-handed-on", q + " | method of the follow-up request vs continuation",
                      f"the follow-up request is issued with `{src(issued)}` but the next hop's handler is told `{src(told)}`: a method switch (303 -> GET) is forgotten after one hop, "
                      "so a later 301/302/307/308 is refused or followed with the original method")
    else:
        raise Abstain(f"cannot compare the issued method `{src(issued)}` with the one handed on `{src(told)}`")
    # (2) pairing: the URI requested is what the next hop will resolve against; it is the Location resolved against the receiving request's URI
    target = rc.args[1] if len(rc.args) > 1 else None
    if target is None or RU not in b:
        if RU not in b:
            ctx.violation("pairing/next-hop-structural", q + " | continuation", "the next hop is not told which URI was requested: a relative Location there is resolved against the original URI")
        else:
            raise Abstain("request target not positional")
    else:
        ctx.check(src(b[RU]) == src(target), "pairing/next-hop-structural", q + " | continuation", f"the next hop remembers `{src(b[RU])}` while `{src(target)}` was requested")
        tdef = target
        if isinstance(target, ast.Name):
            defs = [s_.value for s_ in walk_local(hr) if isinstance(s_, ast.Assign) and any(isinstance(t, ast.Name) and t.id == target.id for t in s_.targets)]
            if len(defs) != 1:
                raise Abstain(f"{len(defs)} definitions of the request target")
            tdef = defs[0]
        if not (isinstance(tdef, ast.Call) and call_name(tdef) == "self._resolveLocation" and len(tdef.args) == 2):
            raise Abstain("the request target is not self._resolveLocation(base, location)")
        base = tdef.args[0]
        base_src = src(base)
        if base_src == "uri":
            ctx.violation("pairing/resolve-base", q + " | base of the resolution", "the Location is resolved against the ORIGINAL uri, not against the URI of the request that received the redirect")
        elif base_src == RU:
            # RU may be defaulted from uri only when it is None
            for n_, st in assign_sites(g, lambda x: isinstance(x, ast.Name) and x.id == RU):
                okd = src(st.value) == "uri" and any(src(g.node(t).ast) in (f"{RU} is None",) and lab == "T" or src(g.node(t).ast) == f"{RU} is not None" and lab == "F"
                                                      for t, lab in g.edge_guards(n_))
                ctx.check(okd, "pairing/resolve-base", q + f" | {RU} = ...", f"{RU} is overwritten other than by the `is None -> uri` default")
            ctx.ok("pairing/resolve-base", q + " | base of the resolution")
        elif isinstance(base, ast.IfExp) and {src(base.body), src(base.orelse)} == {"uri", RU} and RU in src(base.test) and "None" in src(base.test):
            none_means_uri = (src(base.body) == "uri") == ("is None" in src(base.test) and "is not None" not in src(base.test))
            ctx.check(none_means_uri, "pairing/resolve-base", q + " | base of the resolution", "the conditional base picks the original uri when a request URI IS known")
        else:
            raise Abstain(f"unrecognised resolution base `{base_src}`")
    # (3) credentials: on every path with headers the request is reached only through the strip site or the same-origin edge of the test guarding it
    hname = src(rc.args[2]) if len(rc.args) > 2 else None
    strips = []
    for n_, st in assign_sites(g, lambda x: src(x) == hname):
        val = st.value if isinstance(st, ast.Assign) else None
        comp = next((x for x in ast.walk(val) if isinstance(x, (ast.DictComp, ast.ListComp, ast.GeneratorExp))), None) if val is not None else None
        if comp is None or len(comp.generators) != 1 or call_attr(comp.generators[0].iter) != "getAllRawHeaders":
            continue
        gen = comp.generators[0]
        nm = src(gen.target.elts[0]) if isinstance(gen.target, ast.Tuple) else None
        filt = [i for i in gen.ifs if isinstance(i, ast.Compare) and len(i.ops) == 1 and isinstance(i.ops[0], ast.NotIn) and src(i.left) == nm and src(i.comparators[0]) == "self._sensitiveHeaderNames"]
        if len(filt) == 1 and len(gen.ifs) == 1:
            strips.append(n_)
        elif any("_sensitiveHeaderNames" in src(i) for i in gen.ifs):
            ctx.violation("credentials/must-pass-strip", q + " | header filter", f"the rebuilt header set keeps `{[src(i) for i in gen.ifs]}` instead of dropping every name in self._sensitiveHeaderNames")
            return
    if not strips:
        raise Abstain("no `Headers({... if name not in self._sensitiveHeaderNames})` rebuild of the request headers in the normalised _handleRedirect")
    # the origin decision: atomic tests comparing .scheme / .host / .port (after substitution of the flag), or a tuple comparison of the three
    def origin_attrs(e):
        return {k for k in ("scheme", "host", "port") if f".{k}" in src(e)}
    flag_defs = {}
    for s_ in walk_local(hr):
        if isinstance(s_, ast.Assign) and len(s_.targets) == 1 and isinstance(s_.targets[0], ast.Name) and origin_attrs(s_.value):
            flag_defs[s_.targets[0].id] = s_.value
    otests = []
    for t in g.ids(lambda x: x.kind == "test"):
        e = g.node(t).ast
        attrs = origin_attrs(e) or (origin_attrs(flag_defs[e.id]) if isinstance(e, ast.Name) and e.id in flag_defs else set())
        if not attrs:
            continue
        e2 = flag_defs[e.id] if isinstance(e, ast.Name) and e.id in flag_defs else e
        if isinstance(e2, ast.Compare) and len(e2.ops) == 1 and isinstance(e2.ops[0], (ast.Eq, ast.NotEq)):
            equal_edge = "T" if isinstance(e2.ops[0], ast.Eq) else "F"
        elif isinstance(e2, ast.BoolOp) and isinstance(e2.op, ast.And) and all(isinstance(v, ast.Compare) and isinstance(v.ops[0], ast.Eq) for v in e2.values):
            equal_edge = "T"
        elif isinstance(e2, ast.BoolOp):
            ctx.violation("credentials/must-pass-strip", q + " | same-origin test", f"same origin is decided by `{src(e2)[:90]}`: not the conjunction of scheme, host and port equality")
            return
        else:
            raise Abstain(f"unrecognised origin test `{src(e2)[:60]}`")
        otests.append((t, equal_edge, attrs))
    if not otests:
        raise Abstain("no scheme/host/port comparison found in the normalised _handleRedirect")
    covered = set().union(*[a_ for _, _, a_ in otests])
    ctx.check(covered == {"scheme", "host", "port"}, "credentials/must-pass-strip", q + " | same-origin test", f"the origin comparison covers only {sorted(covered)} (scheme, host and port all matter)")

    def no_exc_hdr(a_, b_, l_):
        if l_ == "exc":
            return False
        e = g.node(a_).ast if g.node(a_).kind == "test" else None
        if e is not None and src(e) in (hname, "headers") and l_ == "F":
            return False                      # no headers to confine
        if e is not None and isinstance(e, ast.Compare) and len(e.ops) == 1 and {src(e.left), src(e.comparators[0])} in ({hname, "None"}, {"headers", "None"}):
            is_none_edge = "T" if isinstance(e.ops[0], (ast.Is, ast.Eq)) else "F"
            if l_ == is_none_edge:
                return False                  # headers is None: nothing to confine
        return True
    for t, equal_edge, attrs in otests:
        ne = [d for d, l in g.succ[t] if l == ("F" if equal_edge == "T" else "T")]
        w = g.path(ne, [rn], avoid=strips, edge_ok=no_exc_hdr) if ne and not set(ne) <= set(strips) else None
        ctx.check(w is None, "credentials/must-pass-strip", q + f" | differing {'/'.join(sorted(attrs))}",
                  f"when the {'/'.join(sorted(attrs))} of the target differs from the original request's, the next request can be reached without the sensitive headers being removed",
                  witness=g.describe(w))
    w = g.path([g.entry], [rn], avoid=set(strips) | {t for t, _, _ in otests}, edge_ok=no_exc_hdr)
    ctx.check(w is None, "credentials/must-pass-strip", q + " | bypass", "a redirect that carries headers can reach the next request without the origin comparison (e.g. a shortcut for "
              "'relative' Locations: `//other.example/x` has no '://' yet changes the host)", witness=g.describe(w))


def _s_per_request_state(ctx):
    """STRUCTURAL (def-use by role): what a redirect hop decides - where to go, how often, which headers to strip - must derive from the data threaded through THIS request's
    callback chain (the arguments of _handleResponse / _handleRedirect).  An attribute of the agent that is written while a request is being processed (by request() or anything
    in the redirect chain) is per-AGENT mutable state shared by all requests in flight; reading it in the chain makes one request's redirect depend on another request"""
    from sa.source import methods as _methods_of
    cls = ctx.cls(CL, "RedirectAgent")
    ms = _methods_of(cls)
    if "request" not in ms or "_handleRedirect" not in ms:
        raise Abstain("RedirectAgent.request / _handleRedirect not found")

    def closure(roots):
        seen, todo = [], list(roots)
        while todo:
            fn = todo.pop()
            if any(fn is x for x in seen):
                continue
            seen.append(fn)
            for c in ast.walk(fn):
                if isinstance(c, ast.Call) and isinstance(c.func, ast.Attribute) and src(c.func.value) in ("self", "cls", cls.name) and c.func.attr in ms:
                    todo.append(ms[c.func.attr])
                # methods handed on as callbacks: addCallback(self._handleResponse, ...)
                if isinstance(c, ast.Call):
                    for a_ in c.args:
                        if isinstance(a_, ast.Attribute) and src(a_.value) == "self" and a_.attr in ms:
                            todo.append(ms[a_.attr])
        return seen
    chain = closure([ms["request"]])
    written = {}
    for fn in chain:
        if fn.name == "__init__":
            continue
        for x in ast.walk(fn):
            if isinstance(x, ast.Attribute) and isinstance(x.value, ast.Name) and x.value.id == "self" and isinstance(x.ctx, (ast.Store, ast.Del)):
                written.setdefault(x.attr, fn.name)
            if isinstance(x, ast.Call) and call_name(x) == "setattr" and x.args and src(x.args[0]) == "self" and len(x.args) > 1 and isinstance(x.args[1], ast.Constant):
                written.setdefault(x.args[1].value, fn.name)
    n = 0
    for fn in chain:
        for x in ast.walk(fn):
            if isinstance(x, ast.Attribute) and isinstance(x.value, ast.Name) and x.value.id == "self" and isinstance(x.ctx, ast.Load) and x.attr in written:
                n += 1
                ctx.violation("credentials/per-request-state", Q + f"RedirectAgent.{fn.name} | self.{x.attr}",
                              f"the redirect chain reads self.{x.attr}, which {written[x.attr]}() writes while a request is processed: it is state of the AGENT, shared by every request in "
                              "flight - a second request overwrites it before the first one's redirect arrives, so that redirect is judged with the other request's data (e.g. its "
                              "origin: Authorization / Cookie go to a foreign host)")
    if not written:
        ctx.ok("credentials/per-request-state", Q + "RedirectAgent | <attributes written while a request is processed>", "none: every hop works on its own arguments")
    elif n == 0:
        ctx.ok("credentials/per-request-state", Q + "RedirectAgent | <attributes written while a request is processed>", f"{sorted(written)} are never read in the redirect chain")


def _s_tables(ctx):
    env = module_consts(ctx.mod("web/_responses.py"))
    expected_switch = {"RedirectAgent": {303}, "BrowserLikeRedirectAgent": {301, 302, 303}}
    for cname, switch_doc in expected_switch.items():
        ca = class_assigns(ctx.cls(CL, cname))
        tabs = {}
        for t in ("_redirectResponses", "_seeOtherResponses"):
            v = ca.get(t)
            if not isinstance(v, (ast.List, ast.Tuple, ast.Set)):
                raise Abstain(f"{cname}.{t} is not a literal table")
            vals = set()
            for e in v.elts:
                if isinstance(e, ast.Attribute) and src(e.value) == "http" and e.attr in env:
                    vals.add(env[e.attr])
                else:
                    try:
                        vals.add(const_eval(e, env))
                    except NotConst:
                        raise Abstain(f"{cname}.{t} has a non-constant element {src(e)}")
            tabs[t] = vals
        qq = Q + cname + "."
        ctx.check(not (tabs["_redirectResponses"] & tabs["_seeOtherResponses"]), "tables/disjoint", qq + "<tables>", "a status code is in both tables")
        for code in (307, 308):
            ctx.check(code not in tabs["_seeOtherResponses"], "tables/method-preserved-307-308", qq + f"_seeOtherResponses | {code}",
                      f"{code} is handled as see-other: the method is switched to GET although {code} must preserve it (RFC 9110 15.4.8/15.4.9)")
        for code in (301, 302, 303, 307, 308):
            ctx.check(code in tabs["_redirectResponses"] | tabs["_seeOtherResponses"], "tables/complete", qq + f"<tables> | {code}", f"redirect status {code} is not followed")
        extra = tabs["_seeOtherResponses"] - switch_doc - {307, 308}
        ctx.check(not extra, "tables/documented-switch", qq + "_seeOtherResponses", f"{sorted(extra)} switch the method to GET although the class does not document it")
    mod = ctx.mod(CL)
    dflt = mod.module_assign("_defaultSensitiveHeaders")
    try:
        names = set(const_eval(dflt)) if dflt is not None else None
    except NotConst:
        names = None
    if names is None:
        raise Abstain("_defaultSensitiveHeaders is not a constant set")
    need = {b"Authorization", b"Cookie", b"Proxy-Authorization"}
    ctx.check(need <= names, "credentials/default-names", Q + "_defaultSensitiveHeaders", f"missing from the default sensitive set (in canonical capitalisation): {sorted(need - names)}")


def check(ctx):
    for name, fn in (("s-per-request-state", lambda c: structural(c, "credentials/per-request-state", "credentials/concurrent-requests (bounded)", _s_per_request_state, c)),
                     ("concurrent", _concurrent),
                     ("s-redirect", lambda c: structural(c, "limit/dominates-follow / pairing / credentials/must-pass-strip", "the bounded redirect histories", _s_redirect, c)),
                     ("s-tables", lambda c: structural(c, "tables/*", "method/status-table (finite-exhaustive evaluation)", _s_tables, c)),
                     ("resolution", _resolution), ("limit", _limit), ("credentials", _credentials), ("methods", _methods)):
        with ctx.section(name):
            try:
                fn(ctx)
            except (InterpError, ModelRaised) as e:      # an exception of the interpreted code that no scenario expected is confined to this section
                raise AnalysisError(f"C27/{name}: the code uses a construct the evaluator cannot interpret: {e}")


# ---- (a) resolution ---------------------------------------------------------------------------------------------------------
LOCATIONS = [b"http://b.example/p/q", b"r", b"../s", b"/abs", b"//c.example/z", b"https://a.example/t", b"?k=v", b"http://a.example:8080/u", b"./v/", b"w#frag"]


def _resolution(ctx):
    w = _world(ctx)
    q = Q + "RedirectAgent._handleRedirect"
    bad = []
    n = 0
    chains = [[a] for a in LOCATIONS] + [[a, b] for a in LOCATIONS[:5] for b in LOCATIONS[:7]] + [[b"http://b.example/p/q", b"r", b"../s", b"/abs"], [b"r", b"r", b"r"], [b"//c.example/z", b"k", b"/"]]
    for chain in chains:
        n += 1
        start = b"http://a.example/x/y"
        inner, out = _run(w, "RedirectAgent", [_Response((302, 303, 307, 301)[i % 4], loc) for i, loc in enumerate(chain)] + [_Response(200)], uri=start)
        want, cur = [start], start
        for loc in chain:
            base, frag = urldefrag(cur)
            joined, jfrag = urldefrag(urljoin(base, loc))
            cur = urljoin(joined, b"#" + (jfrag or frag))
            want.append(cur)
        got = [c[1] for c in inner.calls]
        if got != want or out[0] != "ok":
            bad.append((chain, got, want, out))
    msg = ""
    if bad:
        chain, got, want, out = bad[0]
        k = next((i for i, (a_, b_) in enumerate(zip(got, want)) if a_ != b_), min(len(got), len(want)))
        msg = (f"redirect chain {[c.decode() for c in chain]} from http://a.example/x/y: request #{k + 1} goes to "
               f"{got[k].decode() if k < len(got) else 'nothing'} instead of {want[k].decode() if k < len(want) else 'nothing'} (outcome {out[:2]}): a Location is not resolved against the URI "
               f"of the request that received the redirect; {len(bad)} of {n} chains wrong")
    ctx.check(not bad, "pairing/next-hop", q, msg, detail=f"{n} redirect chains")
    inner, out = _run(w, "RedirectAgent", [_Response(302, b"/n"), _Response(200)])
    ok = out[0] == "ok" and getattr(out[1], "previousResponse", None) is not None and out[1].previousResponse.code == 302
    ctx.check(ok, "pairing/previous-response", q + " | previousResponse", "the final response does not link to the redirect response it came from")


# ---- (b) limit --------------------------------------------------------------------------------------------------------------------
def _limit(ctx):
    w = _world(ctx)
    q = Q + "RedirectAgent"
    for L in (0, 1, 2, None):
        kw = {} if L is None else {"redirectLimit": L}
        eff = 20 if L is None else L
        inner, out = _run(w, "RedirectAgent", [_Response(302, b"/n%d" % i) for i in range(eff + 3)], **kw)
        followed = len(inner.calls) - 1
        ok = followed == eff and out[0] == "fail" and out[1] == "ResponseFailed" and out[2] == "InfiniteRedirection"
        ctx.check(ok, "limit/follows-at-most", q + f" | redirectLimit={'default' if L is None else L}",
                  f"with redirectLimit={'default (20)' if L is None else L} and an endless chain {followed} redirects are followed, outcome {out[:3]} "
                  f"(exactly {eff} then ResponseFailed(InfiniteRedirection) expected)")
        inner, out = _run(w, "RedirectAgent", [_Response(302, b"/n%d" % i) for i in range(eff)] + [_Response(200)], **kw)
        ctx.check(out[0] == "ok" and len(inner.calls) == eff + 1, "limit/follows-at-most", q + f" | redirectLimit={'default' if L is None else L}, chain of exactly that length",
                  f"a chain of exactly {eff} redirects is not followed to its end: {len(inner.calls) - 1} followed, outcome {out[:3]}")
    inner, out = _run(w, "RedirectAgent", [_Response(302, None)])
    ctx.check(out[0] == "fail" and out[1] == "ResponseFailed" and out[2] == "RedirectWithNoLocation" and len(inner.calls) == 1, "limit/no-location", q + " | redirect without Location",
              f"a redirect without a Location header gives {out[:3]} after {len(inner.calls)} requests")


# ---- (c) credentials ----------------------------------------------------------------------------------------------------------------
SENSITIVE = {b"Authorization": [b"Basic s3cret"], b"Cookie": [b"sid=1"], b"Proxy-Authorization": [b"p"], b"X-Custom-Secret": [b"c"]}
PLAIN = {b"Accept": [b"*/*"], b"X-Trace": [b"t1", b"t2"]}


def _credentials(ctx):
    w = _world(ctx)
    q = Q + "RedirectAgent._handleRedirect"
    start = b"http://a.example/x/y"
    o0 = _origin(start)
    hops = [b"/same", b"http://a.example/also-same", b"http://a.example:80/same-port", b"http://b.example/other", b"//b.example/scheme-relative", b"//a.example:8080/port-change",
            b"https://a.example/scheme-change", b"http://a.example:8080/p", b"http://A.EXAMPLE/case"]
    chains = [[h] for h in hops] + [[a, b] for a in hops[:4] for b in hops[:6]] + [[b"/same", b"/same2", b"//b.example/x"], [b"http://b.example/o", b"http://a.example/back", b"/again"]]
    bad = []
    n = 0
    for configured, some in (((b"x-custom-secret",), chains), ((b"X-CUSTOM-SECRET",), chains[:6])):
        for chain in some:
            n += 1
            hdrs = _Headers({**SENSITIVE, **PLAIN})
            inner, out = _run(w, "RedirectAgent", [_Response(302, loc) for loc in chain] + [_Response(200)], uri=start, headers=hdrs, sensitiveHeaderNames=configured)
            all_same = True
            for i, (m_, u_, sent, _bp) in enumerate(inner.calls):
                same = _origin(u_) == o0
                all_same = all_same and same
                sent = sent or {}
                leaked = sorted(k for k in SENSITIVE if _Headers.canon(k) in sent)
                if not same and leaked:
                    bad.append((chain, i, u_, f"sends {[k.decode() for k in leaked]} to the foreign origin"))
                elif all_same and len(leaked) != len(SENSITIVE):
                    bad.append((chain, i, u_, f"drops {[k.decode() for k in SENSITIVE if _Headers.canon(k) not in sent]} although every hop so far stayed on the original origin"))
                elif any(sent.get(_Headers.canon(k)) != v for k, v in PLAIN.items()):
                    bad.append((chain, i, u_, f"loses or changes ordinary headers: {sent}"))
            if out[0] != "ok" or len(inner.calls) != len(chain) + 1:
                bad.append((chain, len(inner.calls), b"-", f"chain not followed: {out[:3]}"))
    msg = ""
    if bad:
        chain, i, u_, why = bad[0]
        msg = (f"request with Authorization/Cookie/Proxy-Authorization + configured X-Custom-Secret to http://a.example/x/y redirected via {[c.decode() for c in chain]}: request #{i + 1} "
               f"({u_.decode()}) {why}; {len(bad)} problems in {n} histories")
    ctx.check(not bad, "credentials/confined-to-origin", q, msg, detail=f"{n} histories")
    inner, out = _run(w, "RedirectAgent", [_Response(302, b"http://b.example/o"), _Response(200)], uri=start, headers=None)
    ctx.check(out[0] == "ok" and len(inner.calls) == 2, "credentials/confined-to-origin", q + " | no headers", f"a request without headers is not redirected: {out[:3]}")


class _PendingInner:
    """the wrapped agent answering LATER: every request gets an unfired Deferred which the scenario fires in the order it chooses"""
    _sa_model = True

    def __init__(self):
        self.calls, self.pending = [], []

    def request(self, method, uri, headers=None, bodyProducer=None):
        self.calls.append((method, uri, dict(headers.getAllRawHeaders()) if headers is not None else None, bodyProducer))
        d = MDeferred()
        self.pending.append(d)
        return d


def _concurrent(ctx):
    """BOUNDED: two (three) requests in flight on ONE agent, to different origins, with and without credentials; their redirects arrive in every order.  Oracle: each hop carries the
    sensitive headers iff every URL of ITS OWN chain so far has the origin of ITS OWN first request"""
    w = _world(ctx)
    q = Q + "RedirectAgent"
    A, B = b"http://a.example/one", b"http://b.example/two"
    bad, n = [], 0
    for agent in ("RedirectAgent", "BrowserLikeRedirectAgent"):
        for first, second in ((A, B), (B, A)):
            for second_headers in (True, False):
                for target in (b"http://b.example/landing", b"http://a.example/landing", b"/relative"):
                    for order in ((0, 1), (1, 0)):
                        if agent != "RedirectAgent" and not (first == A and second_headers and order == (1, 0)):
                            continue          # the subclass shares the code path: one slice of the grid
                        n += 1
                        inner = _PendingInner()
                        ag = w.new(agent, inner, sensitiveHeaderNames=(b"x-custom-secret",))
                        reqs = [(first, _Headers({**SENSITIVE, **PLAIN})), (second, _Headers({**SENSITIVE, **PLAIN}) if second_headers else None)]
                        try:
                            for u_, h_ in reqs:
                                ag.request(b"GET", u_, h_)
                            initial = list(inner.pending)
                            for k in order:
                                before = len(inner.calls)
                                initial[k].callback(_Response(302, target))
                                for (m_, u2, sent, _bp) in inner.calls[before:]:
                                    own = reqs[k]
                                    same = _origin(u2) == _origin(own[0])
                                    sent = sent or {}
                                    leaked = sorted(kk for kk in SENSITIVE if _Headers.canon(kk) in sent)
                                    if own[1] is not None and not same and leaked:
                                        bad.append((agent, first, second, target, order, f"the redirect of the request to {own[0].decode()} sends {[x.decode() for x in leaked]} to {u2.decode()}"))
                                    elif own[1] is not None and same and len(leaked) != len(SENSITIVE):
                                        bad.append((agent, first, second, target, order, f"the same-origin redirect of the request to {own[0].decode()} loses {[x.decode() for x in SENSITIVE if _Headers.canon(x) not in sent]}"))
                        except ModelRaised as e:
                            bad.append((agent, first, second, target, order, f"raises {e.name}"))
    msg = ""
    if bad:
        agent, first, second, target, order, why = bad[0]
        msg = (f"{agent}: requests to {first.decode()} and {second.decode()} in flight on one agent, both answered 302 Location: {target.decode()} (answers in order {order}): {why}; "
               f"{len(bad)} of {n} interleavings wrong")
    ctx.check(not bad, "credentials/concurrent-requests", q + " | <two requests in flight on one agent>", msg, detail=f"{n} interleavings")


# ---- (d) status codes and methods -----------------------------------------------------------------------------------------------------
def _expected(agent, code, method):
    """(followed?, method of the follow-up) per the classes' documentation and RFC 9110 15.4"""
    if code == 303:
        return True, b"GET"
    if code in (307, 308):
        return (True, method) if method in (b"GET", b"HEAD") or agent == "BrowserLikeRedirectAgent" and False else ((False, None) if method not in (b"GET", b"HEAD") else (True, method))
    if agent == "BrowserLikeRedirectAgent":
        return True, b"GET"
    return (True, method) if method in (b"GET", b"HEAD") else (False, None)


def _methods(ctx):
    w = _world(ctx)
    for agent in ("RedirectAgent", "BrowserLikeRedirectAgent"):
        ctx.cls(CL, agent)
        for code in (301, 302, 303, 307, 308):
            for method in (b"GET", b"HEAD", b"POST"):
                inner, out = _run(w, agent, [_Response(code, b"/next"), _Response(200)], method=method)
                follow, m2 = _expected(agent, code, method)
                got_follow = len(inner.calls) == 2
                got_m = inner.calls[1][0] if got_follow else None
                q = Q + agent
                if code in (307, 308) and got_follow and got_m != method:
                    continue          # reported by the structural table rule tables/method-preserved-307-308 (F27b, fixed, for the browser-like agent)
                ok = got_follow == follow and (not follow or got_m == m2) and (follow or (out[0] == "fail" and out[2] == "PageRedirect")) and (not follow or inner.calls[1][3] is None)
                ctx.check(ok, "method/status-table", q + f" | {code} {method.decode()}",
                          f"{agent}: {method.decode()} answered with {code}: " + (f"followed as {got_m.decode()}" if got_follow else f"not followed ({out[:3]})") +
                          f"; expected " + (f"a follow-up {m2.decode()} without body" if follow else "ResponseFailed(PageRedirect)"))
        # histories of two and three redirects from every start method: each hop is judged with the method the PREVIOUS request was actually issued with
        bad, n = [], 0
        CODES5 = (301, 302, 303, 307, 308)
        for method in (b"GET", b"HEAD", b"POST"):
            for chain in [(a, b_) for a in CODES5 for b_ in CODES5] + [(303, a, b_) for a in (302, 307) for b_ in (303, 308)] + [(a, 303, b_) for a in (301, 307) for b_ in (302, 307)]:
                n += 1
                inner, out = _run(w, agent, [_Response(c_, b"/hop%d" % i) for i, c_ in enumerate(chain)] + [_Response(200)], method=method)
                want, cur = [method], method
                for c_ in chain:
                    follow, cur = _expected(agent, c_, cur)
                    if not follow:
                        break
                    want.append(cur)
                else:
                    follow = True
                got = [c[0] for c in inner.calls]
                ok = got == want and ((out[0] == "ok") if follow else (out[0] == "fail" and out[2] == "PageRedirect"))
                if not ok:
                    bad.append((method, chain, got, want, out[:3]))
        msg = ""
        if bad:
            m_, chain, got, want, o_ = bad[0]
            msg = (f"{agent}: {m_.decode()} answered with {' then '.join(map(str, chain))}: requests issued with {[x.decode() for x in got]}, outcome {o_}; expected "
                   f"{[x.decode() for x in want]} ({'then the final response' if len(want) == len(chain) + 1 else 'then ResponseFailed(PageRedirect)'}); {len(bad)} of {n} histories wrong")
        ctx.check(not bad, "method/multi-hop", Q + agent + " | <start method x redirect chains of 2-3 hops>", msg, detail=f"{n} histories")
        inner, out = _run(w, agent, [_Response(200)])
        ctx.check(out[0] == "ok" and len(inner.calls) == 1, "method/status-table", Q + agent + " | 200", "a non-redirect response is not returned as is")
        inner, out = _run(w, agent, [_Response(304, b"/x")])
        ctx.check(out[0] == "ok" and len(inner.calls) == 1, "method/status-table", Q + agent + " | 304", "a 304 response is followed as a redirect")


MUTANTS = [
    Mutant("first-origin-remembered-on-the-agent", CL, "            parsedURI = URI.fromBytes(uri)\n", "            if redirectCount == 0:\n                self._firstURI = uri\n            parsedURI = URI.fromBytes(self._firstURI)\n", expect_rule="credentials/"),
    Mutant("sensitive-names-narrowed-per-request-on-the-agent", CL, "        if headers:\n            parsedURI = URI.fromBytes(uri)\n", "        self._lastLocation = location\n        if headers and self._lastLocation is not None:\n            parsedURI = URI.fromBytes(uri)\n", expect_rule="credentials/per-request-state"),
    Mutant("limit-verdict-flag-overwritten", CL, "        if redirectCount >= self._redirectLimit:\n            err = error.InfiniteRedirection(\n                response.code, b\"Infinite redirection detected\", location=uri\n            )\n            raise ResponseFailed([Failure(err)], response)\n        locationHeaders = response.headers.getRawHeaders(b\"location\", [])\n        if not locationHeaders:\n            err = error.RedirectWithNoLocation(\n                response.code, b\"No location header field\", uri\n            )\n            raise ResponseFailed([Failure(err)], response)\n", "        err = None\n        if redirectCount >= self._redirectLimit:\n            err = error.InfiniteRedirection(\n                response.code, b\"Infinite redirection detected\", location=uri\n            )\n        locationHeaders = response.headers.getRawHeaders(b\"location\", [])\n        if not locationHeaders:\n            err = error.RedirectWithNoLocation(\n                response.code, b\"No location header field\", uri\n            )\n        else:\n            err = None\n        if err is not None:\n            raise ResponseFailed([Failure(err)], response)\n"),
    Mutant("next-hop-told-get-whatever-was-requested", CL, "            self._handleResponse, method, uri, headers, redirectCount + 1, location\n", "            self._handleResponse, b\"GET\", uri, headers, redirectCount + 1, location\n",
           expect_rule="pairing/method-handed-on"),
    Mutant("see-other-switch-applied-to-the-request-only", CL, "        deferred = self._agent.request(method, location, headers)\n",
           "        issued = b\"GET\" if response.code == http.SEE_OTHER else method\n        deferred = self._agent.request(issued, location, headers)\n"),
    Mutant("revert-F27-resolve-against-original", CL, "        location = self._resolveLocation(requestURI, locationHeaders[0])", "        location = self._resolveLocation(uri, locationHeaders[0])"),
    Mutant("revert-F27-next-hop-forgets-location", CL, "            self._handleResponse, method, uri, headers, redirectCount + 1, location\n", "            self._handleResponse, method, uri, headers, redirectCount + 1\n"),
    Mutant("next-hop-remembers-request-uri", CL, "            self._handleResponse, method, uri, headers, redirectCount + 1, location\n", "            self._handleResponse, method, uri, headers, redirectCount + 1, requestURI\n"),
    Mutant("limit-zero-falls-back-to-default", CL, "        self._redirectLimit = redirectLimit\n", "        self._redirectLimit = redirectLimit if redirectLimit else 20\n"),
    Mutant("see-other-hop-forgets-request-uri", CL, "            return self._handleRedirect(\n                response, b\"GET\", uri, headers, redirectCount, requestURI\n            )", "            return self._handleRedirect(\n                response, b\"GET\", uri, headers, redirectCount, None\n            )"),
    Mutant("limit-off-by-one", CL, "        if redirectCount >= self._redirectLimit:", "        if redirectCount > self._redirectLimit:"),
    Mutant("count-not-incremented", CL, "headers, redirectCount + 1, location\n", "headers, redirectCount, location\n"),
    Mutant("origin-check-skipped-for-locations-without-scheme", CL, "        if headers:\n            parsedURI = URI.fromBytes(uri)", "        if headers and locationHeaders[0].find(b\":\") != -1:\n            parsedURI = URI.fromBytes(uri)"),
    Mutant("origin-check-only-for-absolute-location", CL, "        if headers:\n            parsedURI = URI.fromBytes(uri)", "        if headers and not locationHeaders[0].startswith(b\"/\"):\n            parsedURI = URI.fromBytes(uri)"),
    Mutant("strip-on-same-origin", CL, "            if not sameOrigin:\n                headers = Headers(", "            if sameOrigin:\n                headers = Headers("),
    Mutant("same-origin-ignores-port", CL, "                and (parsedURI.host == parsedLocation.host)\n                and (parsedURI.port == parsedLocation.port)\n", "                and (parsedURI.host == parsedLocation.host)\n"),
    Mutant("previous-hop-origin-and-original-headers-carried", CL, "            parsedURI = URI.fromBytes(uri)\n            parsedLocation", "            parsedURI = URI.fromBytes(requestURI)\n            parsedLocation",
           more=[(CL, "        if headers:\n            parsedURI = URI.fromBytes(", "        sendHeaders = headers\n        if headers:\n            parsedURI = URI.fromBytes("),
                 (CL, "            if not sameOrigin:\n                headers = Headers(", "            if not sameOrigin:\n                sendHeaders = Headers("),
                 (CL, "        deferred = self._agent.request(method, location, headers)", "        deferred = self._agent.request(method, location, sendHeaders)")]),
    Mutant("same-origin-or", CL, "                (parsedURI.scheme == parsedLocation.scheme)\n                and (parsedURI.host == parsedLocation.host)", "                (parsedURI.scheme == parsedLocation.scheme)\n                or (parsedURI.host == parsedLocation.host)"),
    Mutant("default-name-lowercase", CL, "        b\"Authorization\",\n        b\"Cookie\",", "        b\"authorization\",\n        b\"Cookie\","),
    Mutant("default-drops-proxy-authorization", CL, "        b\"Proxy-Authorization\",\n", ""),
    Mutant("configured-names-not-canonicalised", CL, "        sensitive = {_canonicalHeaderName(each) for each in sensitiveHeaderNames}", "        sensitive = set(sensitiveHeaderNames)"),
    Mutant("filter-inverted", CL, "                        if rawName not in self._sensitiveHeaderNames", "                        if rawName in self._sensitiveHeaderNames"),
    Mutant("see-other-keeps-method", CL, "            return self._handleRedirect(\n                response, b\"GET\", uri, headers, redirectCount, requestURI\n            )",
           "            return self._handleRedirect(\n                response, method, uri, headers, redirectCount, requestURI\n            )"),
    Mutant("strict-agent-redirects-any-method", CL, "            if method not in (b\"GET\", b\"HEAD\"):\n                err = error.PageRedirect(response.code, location=uri)\n                raise ResponseFailed([Failure(err)], response)\n", ""),
    Mutant("revert-F27b-browser-like-308-switches-to-get", CL, "    _redirectResponses = [http.TEMPORARY_REDIRECT, http.PERMANENT_REDIRECT]\n    _seeOtherResponses = [\n        http.MOVED_PERMANENTLY,\n        http.FOUND,\n        http.SEE_OTHER,\n    ]",
           "    _redirectResponses = [http.TEMPORARY_REDIRECT]\n    _seeOtherResponses = [\n        http.MOVED_PERMANENTLY,\n        http.FOUND,\n        http.SEE_OTHER,\n        http.PERMANENT_REDIRECT,\n    ]",
           expect_rule="tables/method-preserved-307-308"),
    Mutant("strict-agent-307-as-see-other", CL, "        http.FOUND,\n        http.TEMPORARY_REDIRECT,\n        http.PERMANENT_REDIRECT,\n    ]\n    _seeOtherResponses = [http.SEE_OTHER]",
           "        http.FOUND,\n        http.PERMANENT_REDIRECT,\n    ]\n    _seeOtherResponses = [http.SEE_OTHER, http.TEMPORARY_REDIRECT]"),
    Mutant("handover-drops-request-uri", CL, "            return self._handleRedirect(\n                response, method, uri, headers, redirectCount, requestURI\n            )",
           "            return self._handleRedirect(\n                response, method, uri, headers, redirectCount\n            )"),
]
SILENT = [
    Silent("origin-of-a-uri-by-a-static-helper-on-per-request-arguments", CL, "            parsedURI = URI.fromBytes(uri)\n            parsedLocation = URI.fromBytes(location)\n", "            parsedURI = self._parsed(uri)\n            parsedLocation = self._parsed(location)\n", more=[(CL, "    def _handleResponse(\n        self, response, method, uri, headers, redirectCount, requestURI=None\n    ):", "    @staticmethod\n    def _parsed(u):\n        return URI.fromBytes(u)\n\n    def _handleResponse(\n        self, response, method, uri, headers, redirectCount, requestURI=None\n    ):")]),
    Silent("limit-verdict-carried-in-a-flag", CL, "        if redirectCount >= self._redirectLimit:\n            err = error.InfiniteRedirection(\n                response.code, b\"Infinite redirection detected\", location=uri\n            )\n            raise ResponseFailed([Failure(err)], response)\n        locationHeaders = response.headers.getRawHeaders(b\"location\", [])\n        if not locationHeaders:\n            err = error.RedirectWithNoLocation(\n                response.code, b\"No location header field\", uri\n            )\n            raise ResponseFailed([Failure(err)], response)\n", "        err = None\n        if redirectCount >= self._redirectLimit:\n            err = error.InfiniteRedirection(\n                response.code, b\"Infinite redirection detected\", location=uri\n            )\n        else:\n            locationHeaders = response.headers.getRawHeaders(b\"location\", [])\n            if not locationHeaders:\n                err = error.RedirectWithNoLocation(\n                    response.code, b\"No location header field\", uri\n                )\n        if err is not None:\n            raise ResponseFailed([Failure(err)], response)\n"),
    Silent("method-of-the-next-hop-by-local-name", CL, "        deferred = self._agent.request(method, location, headers)\n", "        nextMethod = method\n        deferred = self._agent.request(nextMethod, location, headers)\n",
           more=[(CL, "            self._handleResponse, method, uri, headers, redirectCount + 1, location\n", "            self._handleResponse, nextMethod, uri, headers, redirectCount + 1, location\n")]),
    Silent("previous-response-linked-by-module-function", CL, "        def _chainResponse(newResponse):\n            newResponse.setPreviousResponse(response)\n            return newResponse\n\n        deferred.addCallback(_chainResponse)\n",
           "        deferred.addCallback(lambda newResponse, old: (newResponse.setPreviousResponse(old), newResponse)[1], response)\n"),
    Silent("response-dispatch-as-guard-clauses", CL, "        elif response.code in self._seeOtherResponses:\n            return self._handleRedirect(\n                response, b\"GET\", uri, headers, redirectCount, requestURI\n            )\n        return response",
           "        if response.code not in self._seeOtherResponses:\n            return response\n        followWith = b\"GET\"\n        return self._handleRedirect(response, followWith, uri, headers, redirectCount, requestURI)"),
    Silent("origin-compared-as-tuple-in-helper", CL, "            sameOrigin = (\n                (parsedURI.scheme == parsedLocation.scheme)\n                and (parsedURI.host == parsedLocation.host)\n                and (parsedURI.port == parsedLocation.port)\n            )",
           "            sameOrigin = not ((parsedURI.scheme, parsedURI.host, parsedURI.port) != (parsedLocation.scheme, parsedLocation.host, parsedLocation.port))"),
    Silent("limit-none-means-default", CL, "        self._redirectLimit = redirectLimit\n", "        self._redirectLimit = 20 if redirectLimit is None else redirectLimit\n"),
    Silent("headers-none-test", CL, "        if headers:\n            parsedURI = URI.fromBytes(uri)", "        if headers is not None and headers:\n            parsedURI = URI.fromBytes(uri)"),
    Silent("same-origin-against-previous-hop-stripped-headers-carried", CL, "            parsedURI = URI.fromBytes(uri)\n            parsedLocation", "            parsedURI = URI.fromBytes(requestURI)\n            parsedLocation"),
    Silent("limit-flipped", CL, "        if redirectCount >= self._redirectLimit:", "        if not redirectCount < self._redirectLimit:"),
    Silent("rename-location-local", CL, "        location = self._resolveLocation(requestURI, locationHeaders[0])", "        target = self._resolveLocation(requestURI, locationHeaders[0])",
           more=[(CL, "            parsedLocation = URI.fromBytes(location)", "            parsedLocation = URI.fromBytes(target)"),
                 (CL, "        deferred = self._agent.request(method, location, headers)", "        deferred = self._agent.request(method, target, headers)"),
                 (CL, "headers, redirectCount + 1, location\n", "headers, redirectCount + 1, target\n")]),
    Silent("same-origin-reordered", CL, "                (parsedURI.scheme == parsedLocation.scheme)\n                and (parsedURI.host == parsedLocation.host)\n                and (parsedURI.port == parsedLocation.port)",
           "                (parsedLocation.port == parsedURI.port)\n                and (parsedURI.host == parsedLocation.host)\n                and (parsedURI.scheme == parsedLocation.scheme)"),
    Silent("count-one-plus", CL, "headers, redirectCount + 1, location\n", "headers, 1 + redirectCount, location\n"),
    Silent("extra-default-name", CL, "        b\"Proxy-Authorization\",\n", "        b\"Proxy-Authorization\",\n        b\"X-Api-Key\",\n"),
]
